// vcheck drives the runtime monitors: `vcheck run <Cxx> --tier quick|thorough` (parent) and
// `vcheck worker ...` (one batch in a child process).
package main

import (
	"flag"
	"fmt"
	"os"
	"sort"

	_ "verifharness/checks"
	"verifharness/core"
)

func main() {
	if len(os.Args) < 3 {
		usage()
	}
	mode, prop := os.Args[1], os.Args[2]
	fs := flag.NewFlagSet("vcheck", flag.ExitOnError)
	tier := fs.String("tier", "quick", "quick|thorough")
	seed := fs.Int64("seed", core.SeedFromEnv(), "seed")
	batch := fs.Int("batch", 0, "")
	batches := fs.Int("batches", 1, "")
	out := fs.String("out", "result.json", "")
	journal := fs.String("journal", "", "")
	fs.Parse(os.Args[3:])
	if t := os.Getenv("VERIF_TIER"); t != "" && mode == "run" {
		set := false
		fs.Visit(func(f *flag.Flag) {
			if f.Name == "tier" {
				set = true
			}
		})
		if !set {
			*tier = t
		}
	}
	c, ok := core.Registry[prop]
	if !ok {
		fmt.Printf("INCONCLUSIVE property=%s reason=unknown check\n", prop)
		os.Exit(2)
	}
	switch mode {
	case "run":
		os.Exit(core.RunParent(c, *tier, *seed))
	case "worker":
		os.Exit(core.RunWorker(c, *tier, *seed, *batch, *batches, *out, *journal))
	default:
		usage()
	}
}

func usage() {
	ids := []string{}
	for k := range core.Registry {
		ids = append(ids, k)
	}
	sort.Strings(ids)
	fmt.Println("usage: vcheck run <property> [--tier quick|thorough] [--seed N]; properties:", ids)
	os.Exit(2)
}
