// Package gmon inspects the goroutines of the running process: it is the logical oracle for "no lock stays
// held by an abandoned graph walk" (a goroutine parked in the dag library's ancestors walker on a channel send
// whose consumer has returned can never make progress and holds the graph read lock).
package gmon

import (
	"syscall"
	"regexp"
	"runtime"
	"strings"
	"time"
)

type G struct {
	ID    string
	State string
	Text  string
}

var reHead = regexp.MustCompile(`^goroutine (\d+) \[([^\]]+)\]:`)

// Dump returns all goroutines of the process.
func Dump() []G {
	buf := make([]byte, 1<<20)
	for {
		n := runtime.Stack(buf, true)
		if n < len(buf) {
			buf = buf[:n]
			break
		}
		buf = make([]byte, 2*len(buf))
	}
	var out []G
	for _, blk := range strings.Split(string(buf), "\n\n") {
		m := reHead.FindStringSubmatch(blk)
		if m == nil {
			continue
		}
		out = append(out, G{ID: m[1], State: m[2], Text: blk})
	}
	return out
}

// Match returns the goroutines whose stack contains all of the substrings and whose state has the prefix.
func Match(gs []G, statePrefix string, subs ...string) []G {
	var out []G
outer:
	for _, g := range gs {
		if !strings.HasPrefix(g.State, statePrefix) {
			continue
		}
		for _, s := range subs {
			if !strings.Contains(g.Text, s) {
				continue outer
			}
		}
		out = append(out, g)
	}
	return out
}

// ParkedWalkers returns the goroutines of the dag library's ancestors walker that are blocked sending an id.
func ParkedWalkers() []G {
	return Match(Dump(), "chan send", "heimdalr/dag.(*DAG).walkAncestors")
}

// SettleNoParkedWalkers polls until no ancestors walker is parked (a walker that is being drained finishes quickly)
// and returns the walkers that are still parked after the polls; ids that were already known are ignored.
func SettleNoParkedWalkers(known map[string]bool, polls int) []G {
	var left []G
	for i := 0; i < polls; i++ {
		left = left[:0]
		for _, g := range ParkedWalkers() {
			if !known[g.ID] {
				left = append(left, g)
			}
		}
		if len(left) == 0 {
			return nil
		}
		time.Sleep(2 * time.Millisecond)
	}
	return left
}

// Signature renders the state of goroutines relevant for a wedge: walkers in chan send, graph writers waiting
// for the graph lock, readers waiting for it.
func Signature() (sig string, detail string) {
	gs := Dump()
	walkers := Match(gs, "chan send", "heimdalr/dag.(*DAG).walkAncestors")
	writers := Match(gs, "sync.RWMutex.Lock", "heimdalr/dag")
	if len(writers) == 0 {
		writers = Match(gs, "semacquire", "heimdalr/dag", "RWMutex).Lock")
	}
	readers := Match(gs, "sync.RWMutex.RLock", "heimdalr/dag")
	if len(readers) == 0 {
		readers = Match(gs, "semacquire", "heimdalr/dag", "RWMutex).RLock")
	}
	ledgerWaiters := Match(gs, "sync.RWMutex", "accountant.(*AccountingBook)")
	// (a method with a value receiver shows as accountant.AccountingBook.Method: it waits for a copy of the ledger lock)
	ledgerWaiters = append(ledgerWaiters, Match(gs, "sync.RWMutex", "accountant.AccountingBook.")...)
	chanSenders := Match(gs, "chan send", "accountant.(*AccountingBook)")
	bufferWaiters := Match(gs, "sync.Mutex", "accountant.(*buffer)")
	if len(bufferWaiters) == 0 {
		bufferWaiters = Match(gs, "semacquire", "accountant.(*buffer)")
	}
	gossipWaiters := Match(gs, "sync.RWMutex", "gossip.(*gossiper)")
	if len(gossipWaiters) == 0 {
		gossipWaiters = Match(gs, "semacquire", "gossip.(*gossiper)", "RWMutex")
	}
	parts := []string{}
	if len(gossipWaiters) > 0 {
		parts = append(parts, "peer-table-lock-waiters")
	}
	if len(walkers) > 0 {
		parts = append(parts, "walker-parked-in-chan-send")
	}
	if len(writers) > 0 {
		parts = append(parts, "graph-writer-blocked")
	}
	if len(readers) > 0 {
		parts = append(parts, "graph-reader-blocked")
	}
	if len(ledgerWaiters) > 0 {
		parts = append(parts, "ledger-lock-waiters")
	}
	if len(chanSenders) > 0 {
		parts = append(parts, "ledger-goroutine-parked-in-chan-send")
	}
	if len(bufferWaiters) > 0 {
		parts = append(parts, "orphan-buffer-lock-waiters")
	}
	var d []string
	for _, set := range [][]G{walkers, writers, readers, chanSenders, bufferWaiters, gossipWaiters} {
		for i, g := range set {
			if i < 2 {
				t := g.Text
				if len(t) > 1200 {
					t = t[:1200]
				}
				d = append(d, t)
			}
		}
	}
	return strings.Join(parts, "+"), strings.Join(d, "\n--\n")
}

// Spinning samples the goroutines whose stack contains marker: when in every sample such a goroutine is running or
// runnable (not blocked) inside the repository's code, it returns the innermost repository function of the last sample.
// Together with the processor time the process consumed meanwhile (the caller's business) this tells an operation that
// burns time without finishing from one that merely waits for a slow machine.
func Spinning(marker string, samples int, gap time.Duration) (frame string, ok bool) {
	for i := 0; i < samples; i++ {
		found := false
		for _, g := range Dump() {
			if !strings.Contains(g.Text, marker) {
				continue
			}
			if !(strings.HasPrefix(g.State, "running") || strings.HasPrefix(g.State, "runnable")) {
				continue
			}
			for _, line := range strings.Split(g.Text, "\n") {
				if strings.Contains(line, "Computantis/src/") && !strings.HasPrefix(line, "\t") {
					f := line
					if k := strings.Index(f, "("); k > 0 && strings.HasSuffix(f, ")") {
						f = f[:strings.LastIndex(f, "(")]
					}
					if k := strings.LastIndex(f, "/"); k >= 0 {
						f = f[k+1:]
					}
					frame = f
					found = true
					break
				}
			}
		}
		if !found {
			return "", false
		}
		time.Sleep(gap)
	}
	return frame, frame != ""
}

// CPUSeconds: processor time (user and system) this process has consumed so far.
func CPUSeconds() float64 {
	var ru syscall.Rusage
	if syscall.Getrusage(syscall.RUSAGE_SELF, &ru) != nil {
		return 0
	}
	return float64(ru.Utime.Sec+ru.Stime.Sec) + float64(ru.Utime.Usec+ru.Stime.Usec)/1e6
}
