// Package vnet is the virtual gossip network: real ledger books and real gossipers (built through the verif hook)
// whose peers are stubs. A stub call serialises the message (what the wire would carry), hands it to the scheduler
// and blocks until the scheduler delivers it to the target's real handler.
package vnet

import (
	"context"
	"crypto/ed25519"
	"crypto/sha256"
	"errors"
	"fmt"
	"runtime"
	"sort"
	"strings"
	"sync"
	"time"

	"github.com/bartossh/Computantis/src/accountant"
	"github.com/bartossh/Computantis/src/cache"
	"github.com/bartossh/Computantis/src/gossip"
	"github.com/bartossh/Computantis/src/pipe"
	"github.com/bartossh/Computantis/src/protobufcompiled"
	"github.com/bartossh/Computantis/src/spice"
	"github.com/bartossh/Computantis/src/transaction"
	"github.com/bartossh/Computantis/src/wallet"
	"google.golang.org/grpc"
	"google.golang.org/protobuf/proto"
	"google.golang.org/protobuf/types/known/emptypb"

	"verifharness/gmon"
	"verifharness/ledger"
)

type H = ledger.H

// Event is one entry of the network's event log.
type Event struct {
	Seq    int
	Node   int    // where it happened
	Kind   string // send | deliver-start | deliver-end | addleaf | save-awaited | pull
	Item   H
	ItemK  string // vrx | trx
	Peer   int    // send: target; deliver: source
	OK     bool
	Err    string
	Goss   []string // verified gossiper addresses carried by the message (send / deliver)
	BadG   int      // entries that do not verify
	MsgSeq int
	Via    string // addleaf: "pull" when the gossiper's missing-parent pull offered the vertex, "gossip" otherwise
}

// callerPath tells which path of the gossiper is handing a vertex to the ledger (the handler and the pull goroutine
// may run at the same time, so the position in the event log does not tell).
func callerPath() string {
	pc := make([]uintptr, 16)
	n := runtime.Callers(3, pc)
	fr := runtime.CallersFrames(pc[:n])
	for {
		f, more := fr.Next()
		if strings.HasSuffix(f.Function, ".processLackingParent") {
			return "pull"
		}
		if !more {
			break
		}
	}
	return "gossip"
}

// Msg is a gossip message in flight.
type Msg struct {
	Seq   int
	From  int
	To    int
	Kind  string // vrx | trx
	Item  H
	Bytes []byte
	reply chan error
	Dup   bool
}

// VNode is one real node (or the adversary position, which has no book).
type VNode struct {
	Idx       int
	Name      string
	Actor     *ledger.Actor
	Book      *accountant.AccountingBook
	G         *gossip.VerifGossiper
	Srv       protobufcompiled.GossipAPIServer
	Flash     *cache.Flashback
	Cache     *cache.Hippocampus
	Pipe      *pipe.Juggler
	cancel    context.CancelFunc
	Adversary bool
	// Inbox of the adversary: what a node at that position receives
	Inbox []*Msg
	// Pulls: signed missing-parent requests honest nodes sent to the adversary position
	Pulls []*protobufcompiled.SignedHash
}

// Net is the network with its scheduler state.
type Net struct {
	mu       sync.Mutex
	Nodes    []*VNode
	Adj      [][]int
	queue    []*Msg
	seq      int
	evSeq    int
	Log      []Event
	active   int
	enqueued int
	Keys     map[string]ed25519.PublicKey
	AddrIdx  map[string]int
	Order    []string // delivery order of this execution ("from>to:kind")
	ctx      context.Context
	stop     context.CancelFunc
	Users    []*ledger.Actor
	Genesis  accountant.Vertex
	// OnAddLeaf, when set, runs inside a node's gossip handler right before the vertex is handed to its ledger
	OnAddLeaf func(node int, v *accountant.Vertex)
}

// recAccounter wraps the book with the event log (the `accounter` dependency of the gossiper).
type recAccounter struct {
	n   *Net
	idx int
	b   *accountant.AccountingBook
}

func (r *recAccounter) CreateGenesis(subject string, spc spice.Melange, data []byte, publicAddress string) (accountant.Vertex, error) {
	return r.b.CreateGenesis(subject, spc, data, publicAddress)
}
func (r *recAccounter) AddLeaf(ctx context.Context, leaf *accountant.Vertex) error {
	if f := r.n.OnAddLeaf; f != nil {
		f(r.idx, leaf)
	}
	err := r.b.AddLeaf(ctx, leaf)
	r.n.logEv(Event{Node: r.idx, Kind: "addleaf", Item: leaf.Hash, ItemK: "vrx", OK: err == nil, Err: errS(err), Via: callerPath()})
	return err
}
func (r *recAccounter) StreamDAG(ctx context.Context) <-chan *accountant.Vertex {
	return r.b.StreamDAG(ctx)
}
func (r *recAccounter) LoadDag(c context.CancelCauseFunc, ch <-chan *accountant.Vertex) {
	r.b.LoadDag(c, ch)
}
func (r *recAccounter) DagLoaded() bool { return r.b.DagLoaded() }
func (r *recAccounter) ReadVertex(ctx context.Context, h [32]byte) (accountant.Vertex, error) {
	return r.b.ReadVertex(ctx, h)
}

func errS(err error) string {
	if err == nil {
		return ""
	}
	return err.Error()
}

// recCache wraps the awaited transaction cache with the event log.
type recCache struct {
	*cache.Hippocampus
	n   *Net
	idx int
}

func (c *recCache) SaveAwaitedTransaction(trx *transaction.Transaction) error {
	err := c.Hippocampus.SaveAwaitedTransaction(trx)
	c.n.logEv(Event{Node: c.idx, Kind: "save-awaited", Item: trx.Hash, ItemK: "trx", OK: err == nil, Err: errS(err)})
	return err
}

func (n *Net) logEv(e Event) {
	n.mu.Lock()
	n.evSeq++
	e.Seq = n.evSeq
	n.Log = append(n.Log, e)
	n.mu.Unlock()
}

// stub is the GossipAPIClient a node holds for one peer.
type stub struct {
	n    *Net
	from int
	to   int
}

func (s *stub) Alive(ctx context.Context, in *emptypb.Empty, opts ...grpc.CallOption) (*protobufcompiled.AliveData, error) {
	return nil, errors.New("not wired")
}
func (s *stub) LoadDag(ctx context.Context, in *emptypb.Empty, opts ...grpc.CallOption) (protobufcompiled.GossipAPI_LoadDagClient, error) {
	return nil, errors.New("not wired")
}
func (s *stub) Announce(ctx context.Context, in *protobufcompiled.ConnectionData, opts ...grpc.CallOption) (*emptypb.Empty, error) {
	return nil, errors.New("not wired")
}
func (s *stub) Discover(ctx context.Context, in *protobufcompiled.ConnectionData, opts ...grpc.CallOption) (*protobufcompiled.ConnectedNodes, error) {
	return nil, errors.New("not wired")
}

func (s *stub) GossipVrx(ctx context.Context, in *protobufcompiled.VrxMsgGossip, opts ...grpc.CallOption) (*emptypb.Empty, error) {
	b, err := proto.Marshal(in)
	if err != nil {
		return nil, err
	}
	var item H
	if in.Vertex != nil {
		copy(item[:], in.Vertex.Hash)
	}
	return &emptypb.Empty{}, s.n.send(s.from, s.to, "vrx", item, b, in.Gossipers)
}

func (s *stub) GossipTrx(ctx context.Context, in *protobufcompiled.TrxMsgGossip, opts ...grpc.CallOption) (*emptypb.Empty, error) {
	b, err := proto.Marshal(in)
	if err != nil {
		return nil, err
	}
	var item H
	if in.Trx != nil {
		copy(item[:], in.Trx.Hash)
	}
	return &emptypb.Empty{}, s.n.send(s.from, s.to, "trx", item, b, in.Gossipers)
}

// GetVertex (missing parent pull) is delivered synchronously to the target's real handler.
func (s *stub) GetVertex(ctx context.Context, in *protobufcompiled.SignedHash, opts ...grpc.CallOption) (*protobufcompiled.Vertex, error) {
	t := s.n.Nodes[s.to]
	var item H
	copy(item[:], in.Data)
	if t.Adversary || t.Srv == nil {
		s.n.mu.Lock()
		t.Pulls = append(t.Pulls, proto.Clone(in).(*protobufcompiled.SignedHash))
		s.n.mu.Unlock()
		s.n.logEv(Event{Node: s.from, Kind: "pull", Item: item, Peer: s.to, OK: false, Err: "adversary does not answer"})
		return nil, errors.New("unavailable")
	}
	b, _ := proto.Marshal(in)
	var cp protobufcompiled.SignedHash
	proto.Unmarshal(b, &cp)
	v, err := t.Srv.GetVertex(ctx, &cp)
	s.n.logEv(Event{Node: s.from, Kind: "pull", Item: item, ItemK: "vrx", Peer: s.to, OK: err == nil, Err: errS(err)})
	if err != nil {
		return nil, err
	}
	vb, _ := proto.Marshal(v)
	var out protobufcompiled.Vertex
	proto.Unmarshal(vb, &out)
	return &out, nil
}

// GossiperOK is the harness's own check of one gossiper entry: signature of that address over address|item hash.
func (n *Net) GossiperOK(g *protobufcompiled.Gossiper, item H) (ok bool) {
	if g == nil || len(g.Digest) != 32 {
		return false
	}
	// (the address decoder is the code under test's: whatever it does with a malformed address, the reference says "no")
	defer func() {
		if recover() != nil {
			ok = false
		}
	}()
	msg := append([]byte(g.Address), item[:]...)
	d := sha256.Sum256(msg)
	var dg H
	copy(dg[:], g.Digest)
	if d != dg {
		return false
	}
	pk, ok := n.Keys[g.Address]
	if !ok {
		k, err := wallet.NewVerifier().AddressToPubKey(g.Address)
		if err != nil || len(k) != ed25519.PublicKeySize {
			return false
		}
		pk = k
	}
	return ed25519.Verify(pk, d[:], g.Signature)
}

func (n *Net) send(from, to int, kind string, item H, b []byte, gs []*protobufcompiled.Gossiper) error {
	m := &Msg{From: from, To: to, Kind: kind, Item: item, Bytes: b, reply: make(chan error, 1)}
	var good []string
	bad := 0
	for _, g := range gs {
		if n.GossiperOK(g, item) {
			good = append(good, g.Address)
		} else {
			bad++
		}
	}
	sort.Strings(good)
	n.mu.Lock()
	n.seq++
	m.Seq = n.seq
	n.enqueued++
	n.queue = append(n.queue, m)
	n.evSeq++
	n.Log = append(n.Log, Event{Seq: n.evSeq, Node: from, Kind: "send", Item: item, ItemK: kind, Peer: to, OK: true, Goss: good, BadG: bad, MsgSeq: m.Seq})
	n.mu.Unlock()
	select {
	case err := <-m.reply:
		return err
	case <-n.ctx.Done():
		return errors.New("network stopped")
	}
}

// Inject lets the harness (adversary, duplicates) put a message in flight without waiting for the reply.
func (n *Net) Inject(from, to int, kind string, item H, b []byte, dup bool) {
	m := &Msg{From: from, To: to, Kind: kind, Item: item, Bytes: b, reply: make(chan error, 1), Dup: dup}
	n.mu.Lock()
	n.seq++
	m.Seq = n.seq
	n.enqueued++
	n.queue = append(n.queue, m)
	n.mu.Unlock()
}

// Pending returns the messages in flight, sorted canonically.
func (n *Net) Pending() []*Msg {
	n.mu.Lock()
	defer n.mu.Unlock()
	q := append([]*Msg{}, n.queue...)
	sort.Slice(q, func(i, j int) bool {
		if q[i].From != q[j].From {
			return q[i].From < q[j].From
		}
		if q[i].To != q[j].To {
			return q[i].To < q[j].To
		}
		return q[i].Seq < q[j].Seq
	})
	return q
}

func (n *Net) take(m *Msg) bool {
	n.mu.Lock()
	defer n.mu.Unlock()
	for i, x := range n.queue {
		if x == m {
			n.queue = append(n.queue[:i], n.queue[i+1:]...)
			return true
		}
	}
	return false
}

// Deliver hands the message to the target's real handler (or to the adversary's inbox) and releases the sender.
func (n *Net) Deliver(m *Msg) error {
	if !n.take(m) {
		return nil
	}
	t := n.Nodes[m.To]
	n.mu.Lock()
	n.active++
	n.Order = append(n.Order, fmt.Sprintf("%d>%d:%s", m.From, m.To, m.Kind))
	n.mu.Unlock()
	var err error
	if t.Adversary {
		n.mu.Lock()
		t.Inbox = append(t.Inbox, m)
		n.mu.Unlock()
	} else {
		n.logEv(Event{Node: m.To, Kind: "deliver-start", Item: m.Item, ItemK: m.Kind, Peer: m.From, MsgSeq: m.Seq})
		switch m.Kind {
		case "vrx":
			var msg protobufcompiled.VrxMsgGossip
			if e := proto.Unmarshal(m.Bytes, &msg); e != nil {
				err = e
			} else {
				_, err = t.Srv.GossipVrx(n.ctx, &msg)
			}
		case "trx":
			var msg protobufcompiled.TrxMsgGossip
			if e := proto.Unmarshal(m.Bytes, &msg); e != nil {
				err = e
			} else {
				_, err = t.Srv.GossipTrx(n.ctx, &msg)
			}
		}
		n.logEv(Event{Node: m.To, Kind: "deliver-end", Item: m.Item, ItemK: m.Kind, Peer: m.From, OK: err == nil, Err: errS(err), MsgSeq: m.Seq})
	}
	n.mu.Lock()
	n.active--
	n.mu.Unlock()
	m.reply <- err
	return err
}

// WaitStable waits until the set of in-flight messages stops changing (exploration aid, never a verdict).
func (n *Net) WaitStable(rounds int) {
	last := -1
	same := 0
	for i := 0; i < 2000 && same < rounds; i++ {
		n.mu.Lock()
		cur := n.enqueued*1000 + n.active
		n.mu.Unlock()
		if cur == last {
			same++
		} else {
			same = 0
			last = cur
		}
		time.Sleep(500 * time.Microsecond)
	}
}

// WaitSent is for the moment after an item was handed to a node's gossiper, when the harness is going to read what that
// node has put in flight: besides standing counters it requires that no goroutine of a gossiper (or hand-over goroutine
// of the juggler) is running or runnable, read from a goroutine dump. On a loaded machine the origin's goroutine may not
// have run for milliseconds; three milliseconds of silence do not mean 'sent'. Bounded (at most about a second of
// extra waiting); what is decided afterwards is decided on the event log.
func (n *Net) WaitSent() {
	for k := 0; k < 100; k++ {
		n.WaitStable(6)
		if !n.gossipersBusy() {
			return
		}
		time.Sleep(5 * time.Millisecond)
	}
}

// gossipersBusy: some goroutine of a gossiper, or a hand-over goroutine of the juggler, is running or runnable (as
// opposed to blocked in a select, a channel operation, a lock or a sleep).
func (n *Net) gossipersBusy() bool {
	for _, g := range gmon.Dump() {
		if !containsStr(g.Text, "Computantis/src/gossip.(*gossiper)") && !containsStr(g.Text, "pipe.(*Juggler).Send") {
			continue
		}
		if len(g.State) >= 8 && (g.State[:8] == "runnable" || g.State[:7] == "running") {
			return true
		}
	}
	return false
}

// Quiescent is the logical end-of-execution test: nothing in flight, no handler active, and no goroutine of a
// gossiper is doing anything but waiting in its origin loop.
func (n *Net) Quiescent() bool {
	n.mu.Lock()
	q, a := len(n.queue), n.active
	n.mu.Unlock()
	if q != 0 || a != 0 {
		return false
	}
	for _, g := range gmon.Dump() {
		if !containsStr(g.Text, "Computantis/src/gossip.(*gossiper)") {
			continue
		}
		if containsStr(g.Text, "runVertexGossipProcess") || containsStr(g.Text, "runTransactionGossipProcess") {
			if len(g.State) >= 6 && g.State[:6] == "select" {
				continue
			}
		}
		return false
	}
	// the juggler's hand-over goroutines
	for _, g := range gmon.Dump() {
		if containsStr(g.Text, "pipe.(*Juggler).Send") {
			return false
		}
	}
	return true
}

func containsStr(s, sub string) bool {
	return len(sub) <= len(s) && (func() bool {
		for i := 0; i+len(sub) <= len(s); i++ {
			if s[i:i+len(sub)] == sub {
				return true
			}
		}
		return false
	})()
}

// Settle waits for logical quiescence (bounded); returns false when it was not reached.
func (n *Net) Settle() bool {
	ok := 0
	for i := 0; i < 4000; i++ {
		if n.Quiescent() {
			ok++
			if ok >= 3 {
				return true
			}
		} else {
			ok = 0
		}
		time.Sleep(time.Millisecond)
	}
	return false
}

// Build creates k nodes with the given adjacency (adversary = index of the harness-played position or -1).
// CacheMB, when a node index is present, gives that node's awaiting cache the stated hard size limit in MB instead of
// 256 (the cache has 1024 shards, so 1 MB means that no entry above 1 KB fits). Read by Build.
var CacheMB = map[int]int{}

// PipeSlots: buffer size of every node's hand-over pipe between its services and its gossiper (set before Build).
var PipeSlots uint16 = 100

func Build(k int, adj [][]int, adversary int) (*Net, error) {
	ctx, stop := context.WithCancel(context.Background())
	n := &Net{Adj: adj, Keys: map[string]ed25519.PublicKey{}, AddrIdx: map[string]int{}, ctx: ctx, stop: stop}
	for i := 0; i < 4; i++ {
		u := ledger.NewActor(fmt.Sprintf("U%d", i))
		n.Users = append(n.Users, u)
		n.Keys[u.Addr] = u.W.Public
	}
	for i := 0; i < k; i++ {
		a := ledger.NewActor(fmt.Sprintf("N%d", i))
		n.Keys[a.Addr] = a.W.Public
		n.AddrIdx[a.Addr] = i
		vn := &VNode{Idx: i, Name: a.Name, Actor: a, Adversary: i == adversary}
		n.Nodes = append(n.Nodes, vn)
		if vn.Adversary {
			continue
		}
		nctx, cancel := context.WithCancel(ctx)
		vn.cancel = cancel
		b, err := accountant.NewAccountingBook(nctx, accountant.Config{Truncate: 1 << 50}, wallet.NewVerifier(), &a.W, ledger.NoLog{})
		if err != nil {
			return nil, err
		}
		vn.Book = b
		vn.Flash, err = cache.NewFlash()
		if err != nil {
			return nil, err
		}
		mb := 256
		if v, ok := CacheMB[i]; ok {
			mb = v
		}
		vn.Cache, err = cache.New(800, mb)
		if err != nil {
			return nil, err
		}
		vn.Pipe = pipe.New(PipeSlots, PipeSlots)
		vn.G = gossip.VerifNewGossiper("node-"+a.Name, ledger.NoLog{}, time.Second, &a.W, wallet.NewVerifier(),
			&recAccounter{n: n, idx: i, b: b}, &recCache{Hippocampus: vn.Cache, n: n, idx: i}, vn.Flash, vn.Pipe, nil)
		vn.Srv = vn.G.Server()
	}
	// genesis on the first honest node, everybody else syncs from it
	first := -1
	for i, vn := range n.Nodes {
		if !vn.Adversary {
			first = i
			break
		}
	}
	gv, err := n.Nodes[first].Book.CreateGenesis("GENESIS", spice.Melange{Currency: 1000000}, []byte{}, n.Users[0].Addr)
	if err != nil {
		return nil, err
	}
	n.Genesis = gv
	for i, vn := range n.Nodes {
		if vn.Adversary || i == first {
			continue
		}
		cctx, cc := context.WithCancelCause(context.Background())
		vn.Book.LoadDag(cc, n.Nodes[first].Book.StreamDAG(cctx))
		cc(nil)
		if !vn.Book.DagLoaded() {
			return nil, fmt.Errorf("node %d did not load the genesis", i)
		}
	}
	for i, vn := range n.Nodes {
		if vn.Adversary {
			continue
		}
		for _, j := range adj[i] {
			vn.G.SetPeer(n.Nodes[j].Actor.Addr, "node-"+n.Nodes[j].Name, &stub{n: n, from: i, to: j})
		}
		vn.G.Run(nctx(ctx))
	}
	return n, nil
}

func nctx(ctx context.Context) context.Context { return ctx }

// Connect adds the peer table entries of a new edge i-j (as Announce / Discover do when a node joins).
func (n *Net) Connect(i, j int) {
	for _, p := range [][2]int{{i, j}, {j, i}} {
		a, b := p[0], p[1]
		if n.Nodes[a].Adversary {
			continue
		}
		n.Nodes[a].G.SetPeer(n.Nodes[b].Actor.Addr, "node-"+n.Nodes[b].Name, &stub{n: n, from: a, to: b})
	}
}

// Close stops the loops and releases the books and caches.
func (n *Net) Close() {
	n.stop()
	// release blocked senders
	n.mu.Lock()
	q := n.queue
	n.queue = nil
	n.mu.Unlock()
	for _, m := range q {
		select {
		case m.reply <- errors.New("network stopped"):
		default:
		}
	}
	for _, vn := range n.Nodes {
		if vn.Adversary {
			continue
		}
		vn.cancel()
		vn.Book.VerifClose()
		vn.Flash.Close()
		vn.Cache.Close()
	}
}

// ResetExecution clears the per-execution log.
func (n *Net) ResetExecution() {
	n.mu.Lock()
	n.Log = nil
	n.Order = nil
	for _, vn := range n.Nodes {
		vn.Inbox = nil
	}
	n.mu.Unlock()
}

// Events returns a copy of the log.
func (n *Net) Events() []Event {
	n.mu.Lock()
	defer n.mu.Unlock()
	return append([]Event{}, n.Log...)
}

// OrderString renders the delivery order of the execution.
func (n *Net) OrderString() string {
	n.mu.Lock()
	defer n.mu.Unlock()
	return fmt.Sprint(n.Order)
}
