// Package svc builds one real node with all three RPC services (notary, gossip, webhooks) constructed through the
// verif hooks and wired to the real ledger, caches, challenge provider and juggler; handlers are called directly.
package svc

import (
	"context"
	"crypto/sha256"
	"errors"
	"fmt"
	"sort"
	"sync"
	"time"

	"github.com/bartossh/Computantis/src/accountant"
	"github.com/bartossh/Computantis/src/cache"
	"github.com/bartossh/Computantis/src/dataprovider"
	"github.com/bartossh/Computantis/src/gossip"
	"github.com/bartossh/Computantis/src/notaryserver"
	"github.com/bartossh/Computantis/src/pipe"
	"github.com/bartossh/Computantis/src/protobufcompiled"
	"github.com/bartossh/Computantis/src/spice"
	"github.com/bartossh/Computantis/src/wallet"
	"github.com/bartossh/Computantis/src/webhooks"
	"github.com/bartossh/Computantis/src/webhooksserver"
	"google.golang.org/grpc"
	"google.golang.org/grpc/credentials/insecure"
	"google.golang.org/protobuf/types/known/emptypb"

	"verifharness/ledger"
)

type nopTele struct{}

func (nopTele) CreateUpdateObservableHistogram(name, description string) {}
func (nopTele) RecordHistogramTime(name string, t time.Duration) bool    { return true }
func (nopTele) RecordHistogramValue(name string, f float64) bool         { return true }

// PeerStub is a gossip peer played by the harness.
type PeerStub struct {
	mu       sync.Mutex
	Name     string
	Calls    int
	GetVrx   func(in *protobufcompiled.SignedHash) (*protobufcompiled.Vertex, error) // answer of GetVertex pulls
	Received []string
	TrxSeen  map[string]int // awaiting transaction hash -> copies received
}

func (s *PeerStub) Alive(ctx context.Context, in *emptypb.Empty, opts ...grpc.CallOption) (*protobufcompiled.AliveData, error) {
	return &protobufcompiled.AliveData{}, nil
}
func (s *PeerStub) LoadDag(ctx context.Context, in *emptypb.Empty, opts ...grpc.CallOption) (protobufcompiled.GossipAPI_LoadDagClient, error) {
	return nil, errors.New("not available")
}
func (s *PeerStub) Announce(ctx context.Context, in *protobufcompiled.ConnectionData, opts ...grpc.CallOption) (*emptypb.Empty, error) {
	return &emptypb.Empty{}, nil
}
func (s *PeerStub) Discover(ctx context.Context, in *protobufcompiled.ConnectionData, opts ...grpc.CallOption) (*protobufcompiled.ConnectedNodes, error) {
	return &protobufcompiled.ConnectedNodes{}, nil
}
func (s *PeerStub) GossipVrx(ctx context.Context, in *protobufcompiled.VrxMsgGossip, opts ...grpc.CallOption) (*emptypb.Empty, error) {
	s.mu.Lock()
	s.Calls++
	s.mu.Unlock()
	return &emptypb.Empty{}, nil
}
func (s *PeerStub) GossipTrx(ctx context.Context, in *protobufcompiled.TrxMsgGossip, opts ...grpc.CallOption) (*emptypb.Empty, error) {
	s.mu.Lock()
	s.Calls++
	if in != nil && in.Trx != nil {
		if s.TrxSeen == nil {
			s.TrxSeen = map[string]int{}
		}
		s.TrxSeen[string(in.Trx.Hash)]++
	}
	s.mu.Unlock()
	return &emptypb.Empty{}, nil
}

// TrxCopies tells how many times the peer was sent the awaiting transaction with the hash.
func (s *PeerStub) TrxCopies(hash []byte) int {
	s.mu.Lock()
	defer s.mu.Unlock()
	return s.TrxSeen[string(hash)]
}
func (s *PeerStub) GetVertex(ctx context.Context, in *protobufcompiled.SignedHash, opts ...grpc.CallOption) (*protobufcompiled.Vertex, error) {
	s.mu.Lock()
	f := s.GetVrx
	s.Calls++
	s.mu.Unlock()
	if f == nil {
		return nil, errors.New("unknown vertex")
	}
	return f(in)
}

// Rig is the node under test.
type Rig struct {
	Ctx      context.Context
	cancel   context.CancelFunc
	Node     *ledger.Actor
	Book     *accountant.AccountingBook
	Cache    *cache.Hippocampus
	Flash    *cache.Flashback
	Data     *dataprovider.Cache
	Pipe     *pipe.Juggler
	Hooks    *webhooks.Service
	Notary   protobufcompiled.NotaryAPIServer
	Gossip   protobufcompiled.GossipAPIServer
	G        *gossip.VerifGossiper
	Webhooks protobufcompiled.WebhooksAPIServer
	Users    []*ledger.Actor
	Peers    []*PeerStub
	PeerAct  []*ledger.Actor
	Genesis  accountant.Vertex
	Verifier wallet.Helper
}

// NoGenesis, while set, makes New build a node whose ledger is empty and not loaded (a joining node whose sync has
// not happened or was refused, serving requests all the same).
var NoGenesis bool

// New builds the rig: genesis paying users[0], challenge longevity in seconds, contract data limit.
func New(users int, longevity uint64, dataSize int) (*Rig, error) {
	ctx, cancel := context.WithCancel(context.Background())
	r := &Rig{Ctx: ctx, cancel: cancel, Node: ledger.NewActor("node"), Verifier: wallet.NewVerifier()}
	for i := 0; i < users; i++ {
		r.Users = append(r.Users, ledger.NewActor(fmt.Sprintf("U%d", i)))
	}
	var err error
	r.Book, err = accountant.NewAccountingBook(ctx, accountant.Config{Truncate: 1 << 50}, r.Verifier, &r.Node.W, ledger.NoLog{})
	if err != nil {
		return nil, err
	}
	if !NoGenesis {
		r.Genesis, err = r.Book.CreateGenesis("GENESIS", spice.Melange{Currency: 1000000}, []byte{}, r.Users[0].Addr)
		if err != nil {
			return nil, err
		}
	}
	if r.Cache, err = cache.New(4000, 512); err != nil {
		return nil, err
	}
	if r.Flash, err = cache.NewFlash(); err != nil {
		return nil, err
	}
	r.Data = dataprovider.New(ctx, dataprovider.Config{Longevity: longevity})
	r.Pipe = pipe.New(200, 200)
	r.Hooks = webhooks.New(ledger.NoLog{})
	r.Notary = notaryserver.VerifNewServer(notaryserver.Config{NodePublicURL: "node-url", DataSizeBytes: dataSize}, nil, r.Data, nopTele{}, ledger.NoLog{}, r.Verifier, r.Book, r.Cache, r.Flash, r.Pipe)
	r.G = gossip.VerifNewGossiper("node-url", ledger.NoLog{}, time.Second, &r.Node.W, r.Verifier, r.Book, r.Cache, r.Flash, r.Pipe,
		[]grpc.DialOption{grpc.WithTransportCredentials(insecure.NewCredentials())})
	r.Gossip = r.G.Server()
	r.Webhooks = webhooksserver.VerifNewApp(ledger.NoLog{}, r.Verifier, r.Hooks)
	for i := 0; i < 2; i++ {
		p := &PeerStub{Name: fmt.Sprintf("P%d", i)}
		a := ledger.NewActor(p.Name)
		r.Peers = append(r.Peers, p)
		r.PeerAct = append(r.PeerAct, a)
		r.G.SetPeer(a.Addr, "peer-"+p.Name, p)
	}
	// the consumers of the juggler (the gossip origin loops) run as in production
	r.G.Run(ctx)
	return r, nil
}

func (r *Rig) Close() {
	r.cancel()
	r.Book.VerifClose()
	r.Cache.Close()
	r.Flash.Close()
}

// StateDigest renders what C15 calls the ledger, the awaiting-transaction cache and the peer table.
// The orphan buffer is deliberately not part of it (a vertex that arrives before its parent is deferred, not admitted).
func (r *Rig) StateDigest(addresses []string) (string, error) {
	s, err := ledger.TakeSnap(r.Book)
	if err != nil {
		return "", err
	}
	s.Parked = nil
	h := sha256.New()
	h.Write([]byte(s.Digest()))
	for _, a := range addresses {
		trxs, _ := r.Cache.ReadTransactions(a)
		var hs []string
		for _, t := range trxs {
			hs = append(hs, ledger.HexFull(t.Hash))
		}
		sort.Strings(hs)
		fmt.Fprintf(h, "|A%s:%v", a, hs)
	}
	peers := r.G.Peers()
	var ps []string
	for a, u := range peers {
		ps = append(ps, a+"="+u)
	}
	sort.Strings(ps)
	fmt.Fprintf(h, "|P%v", ps)
	return fmt.Sprintf("%x", h.Sum(nil)), nil
}

// State is a decomposed state for comparisons that tolerate the one legitimate change a refused request may cause:
// a proposal that validates the tips drops a tentative tip that turns out invalid, even when the proposal itself fails.
type State struct {
	Snap  *ledger.Snap
	Rest  string
	Whole string
	// Await: awaiting cache entries as "address|transaction hash"; Peers: the rendered peer table
	Await map[string]bool
	Peers string
}

// OnlyAwaitingRemoved reports whether b differs from a only by awaiting cache entries that disappeared, and lists them.
func OnlyAwaitingRemoved(a, b *State) (bool, []string) {
	if a.Snap.Digest() != b.Snap.Digest() || a.Peers != b.Peers {
		return false, nil
	}
	for k := range b.Await {
		if !a.Await[k] {
			return false, nil
		}
	}
	var gone []string
	for k := range a.Await {
		if !b.Await[k] {
			gone = append(gone, k)
		}
	}
	return len(gone) > 0, gone
}

func (r *Rig) State(addresses []string) (*State, error) {
	s, err := ledger.TakeSnap(r.Book)
	if err != nil {
		return nil, err
	}
	s.Parked = nil
	h := sha256.New()
	await := map[string]bool{}
	for _, a := range addresses {
		trxs, _ := r.Cache.ReadTransactions(a)
		var hs []string
		for _, t := range trxs {
			// the entry is its hash and its content: an awaiting transaction whose fields change (a receiver signature
			// attached, data altered) is another entry
			c := sha256.New()
			fmt.Fprintf(c, "%s|%s|%s|%d|%d|%d|", t.Subject, t.IssuerAddress, t.ReceiverAddress, t.CreatedAt.UnixNano(), t.Spice.Currency, t.Spice.SupplementaryCurrency)
			c.Write(t.Data)
			c.Write([]byte{0})
			c.Write(t.IssuerSignature)
			c.Write([]byte{0})
			c.Write(t.ReceiverSignature)
			key := ledger.HexFull(t.Hash) + fmt.Sprintf("/content-%x", c.Sum(nil)[:6])
			hs = append(hs, key)
			await[a+"|"+key] = true
		}
		sort.Strings(hs)
		fmt.Fprintf(h, "|A%s:%v", a, hs)
	}
	peers := r.G.Peers()
	var ps []string
	for a, u := range peers {
		ps = append(ps, a+"="+u)
	}
	sort.Strings(ps)
	fmt.Fprintf(h, "|P%v", ps)
	rest := fmt.Sprintf("%x", h.Sum(nil))
	return &State{Snap: s, Rest: rest, Whole: s.Digest() + rest, Await: await, Peers: fmt.Sprint(ps)}, nil
}

// SameOrOnlyTipsDropped reports whether b equals a, or differs only by tentative tips (and their index entries) that were removed.
func SameOrOnlyTipsDropped(a, b *State) (bool, string) {
	if a.Whole == b.Whole {
		return true, ""
	}
	if a.Rest != b.Rest {
		var gone, came []string
		for k := range a.Await {
			if !b.Await[k] {
				gone = append(gone, k[len(k)-34:])
			}
		}
		for k := range b.Await {
			if !a.Await[k] {
				came = append(came, k[len(k)-34:])
			}
		}
		return false, fmt.Sprintf("awaiting cache or peer table differ (awaiting entries gone %v, new %v; peer table before %s after %s)", gone, came, a.Peers, b.Peers)
	}
	for h := range b.Snap.Live {
		if _, ok := a.Snap.Live[h]; !ok {
			return false, "vertex " + ledger.Hex(h) + " appeared"
		}
	}
	removed := map[ledger.H]bool{}
	for h := range a.Snap.Live {
		if _, ok := b.Snap.Live[h]; !ok {
			removed[h] = true
		}
	}
	// every removed vertex had no surviving child: it was a tip, or sat below removed tips only
	for h := range removed {
		for c := range a.Snap.Live[h].Children {
			if !removed[c] {
				return false, "a vertex with surviving children was removed"
			}
		}
	}
	for t, vh := range b.Snap.Index {
		if a.Snap.Index[t] != vh {
			return false, "index entry appeared or changed"
		}
	}
	for t, vh := range a.Snap.Index {
		if _, ok := b.Snap.Index[t]; !ok && !removed[vh] {
			return false, "index entry of a surviving vertex removed"
		}
	}
	if len(a.Snap.Stored) != len(b.Snap.Stored) || len(a.Snap.Funds) != len(b.Snap.Funds) {
		return false, "checkpoint changed"
	}
	return true, "tips dropped"
}

// Sign builds a SignedHash over data by actor a.
func Sign(a *ledger.Actor, data []byte) *protobufcompiled.SignedHash {
	d, s := a.W.Sign(data)
	return &protobufcompiled.SignedHash{Address: a.Addr, Data: data, Hash: d[:], Signature: s}
}
