package checks

import (
	"fmt"
	"math"
	"math/big"
	"math/rand"
	"time"
	"verifharness/ledger"

	"github.com/bartossh/Computantis/src/spice"

	"verifharness/core"
)

// C05 — spice arithmetic is exact, atomic and canonical (arithmetic part; the ledger ingress part is in c05_ledger.go).

var (
	bigE18    = new(big.Int).SetUint64(spice.MaxAmountPerSupplementaryCurrency)
	bigMaxVal = func() *big.Int {
		v := new(big.Int).SetUint64(math.MaxUint64)
		v.Mul(v, bigE18)
		v.Add(v, new(big.Int).SetUint64(spice.MaxAmountPerSupplementaryCurrency-1))
		return v
	}()
)

const e18 = uint64(spice.MaxAmountPerSupplementaryCurrency)

func melVal(m spice.Melange) *big.Int {
	v := new(big.Int).SetUint64(m.Currency)
	v.Mul(v, bigE18)
	v.Add(v, new(big.Int).SetUint64(m.SupplementaryCurrency))
	return v
}

func canonical(m spice.Melange) bool { return m.SupplementaryCurrency < e18 }

func melStr(m spice.Melange) string {
	return fmt.Sprintf("%d.%018d", m.Currency, m.SupplementaryCurrency)
}

var c05Cur = []uint64{0, 1, 2, e18 - 2, e18 - 1, e18, e18 + 1, 1<<63 - 1, 1 << 63, math.MaxUint64 - e18, math.MaxUint64 - e18 + 1, math.MaxUint64 - 1, math.MaxUint64}
var c05Sup = []uint64{0, 1, 2, e18 / 2, e18 - 2, e18 - 1}

func c05Class(x uint64) string {
	switch {
	case x == 0:
		return "0"
	case x <= 2:
		return "s"
	case x >= math.MaxUint64-2:
		return "M"
	case x >= e18-2 && x <= e18+1:
		return "e"
	case x >= 1<<63-1 && x <= 1<<63:
		return "h"
	case x >= math.MaxUint64-e18-2:
		return "m"
	default:
		return "r"
	}
}

func c05Key(op string, outcome string, ops ...spice.Melange) string {
	k := op + "/" + outcome
	for _, m := range ops {
		k += "/" + c05Class(m.Currency) + c05Class(m.SupplementaryCurrency)
	}
	return k
}

type c05Case struct {
	Op     string `json:"op"`
	Amount string `json:"amount"`
	From   string `json:"from,omitempty"`
	To     string `json:"to"`
	Err    string `json:"err"`
	FromAf string `json:"from_after,omitempty"`
	ToAf   string `json:"to_after"`
}

// c05Supply checks one Supply call against the big integer reference.
func c05Supply(r *core.Result, m, a spice.Melange) {
	r.Eval(1)
	before := m
	want := new(big.Int).Add(melVal(m), melVal(a))
	possible := want.Cmp(bigMaxVal) <= 0
	err := m.Supply(a)
	cs := c05Case{Op: "Supply", Amount: melStr(a), To: melStr(before), ToAf: melStr(m)}
	if err != nil {
		cs.Err = err.Error()
	}
	carry := before.SupplementaryCurrency+a.SupplementaryCurrency >= e18
	outcome := "ok"
	if err != nil {
		outcome = "fail"
	}
	if carry || err != nil || m.Currency == math.MaxUint64 {
		r.Nontriv(c05Key("supply", fmt.Sprintf("%s/carry=%v", outcome, carry), before, a))
	}
	switch {
	case err == nil && !possible:
		r.Violate("C05", "supply/success-on-overflow", fmt.Sprintf("Supply(%s) on %s succeeded giving %s, the exact sum %s exceeds the representable maximum", melStr(a), melStr(before), melStr(m), want), cs)
	case err == nil && (melVal(m).Cmp(want) != 0 || !canonical(m)):
		r.Violate("C05", "supply/inexact", fmt.Sprintf("Supply(%s) on %s gave %s, exact sum is %s", melStr(a), melStr(before), melStr(m), want), cs)
	case err != nil && m != before:
		r.Violate("C05", "supply/failed-but-changed", fmt.Sprintf("Supply(%s) on %s failed (%v) but left %s", melStr(a), melStr(before), err, melStr(m)), cs)
	case err != nil && possible:
		r.Violate("C05", "supply/spurious-failure", fmt.Sprintf("Supply(%s) on %s failed (%v) although the exact sum %s is representable", melStr(a), melStr(before), err, want), cs)
	}
	r.Sample(4, cs)
}

// c05Transfer checks one Transfer (or Drain) call against the big integer reference.
func c05Transfer(r *core.Result, a, from, to spice.Melange, viaDrain bool) {
	r.Eval(1)
	f0, t0 := from, to
	wantTo := new(big.Int).Add(melVal(to), melVal(a))
	wantFrom := new(big.Int).Sub(melVal(from), melVal(a))
	possible := wantFrom.Sign() >= 0 && wantTo.Cmp(bigMaxVal) <= 0
	var err error
	op := "Transfer"
	if viaDrain {
		op = "Drain"
		err = from.Drain(a, &to)
	} else {
		err = spice.Transfer(a, &from, &to)
	}
	cs := c05Case{Op: op, Amount: melStr(a), From: melStr(f0), To: melStr(t0), FromAf: melStr(from), ToAf: melStr(to)}
	if err != nil {
		cs.Err = err.Error()
	}
	carry := t0.SupplementaryCurrency+a.SupplementaryCurrency >= e18
	borrow := a.SupplementaryCurrency > f0.SupplementaryCurrency
	outcome := "ok"
	if err != nil {
		outcome = "fail"
	}
	if carry || borrow || err != nil {
		r.Nontriv(c05Key("transfer", fmt.Sprintf("%s/c=%v/b=%v", outcome, carry, borrow), a, f0, t0))
	}
	switch {
	case err == nil && !possible:
		r.Violate("C05", "transfer/success-when-impossible", fmt.Sprintf("%s(%s) from %s to %s succeeded giving from=%s to=%s although funds are insufficient or the receiver overflows", op, melStr(a), melStr(f0), melStr(t0), melStr(from), melStr(to)), cs)
	case err == nil && (melVal(from).Cmp(wantFrom) != 0 || melVal(to).Cmp(wantTo) != 0 || !canonical(from) || !canonical(to)):
		r.Violate("C05", "transfer/inexact", fmt.Sprintf("%s(%s) from %s to %s gave from=%s to=%s, exact is from=%s to=%s", op, melStr(a), melStr(f0), melStr(t0), melStr(from), melStr(to), wantFrom, wantTo), cs)
	case err != nil && (from != f0 || to != t0):
		r.Violate("C05", "transfer/failed-but-changed", fmt.Sprintf("%s(%s) from %s to %s failed (%v) but left from=%s to=%s", op, melStr(a), melStr(f0), melStr(t0), err, melStr(from), melStr(to)), cs)
	case err != nil && possible:
		r.Violate("C05", "transfer/spurious-failure", fmt.Sprintf("%s(%s) from %s to %s failed (%v) although it is possible", op, melStr(a), melStr(f0), melStr(t0), err), cs)
	}
	r.Sample(8, cs)
}

// c05Observers: the read-only operations agree with the exact value: empty iff the value is zero, canonical iff the
// supplementary part is below 10^18, a clone is equal, the encoded form decodes to the same amount.
func c05Observers(r *core.Result, m spice.Melange) {
	r.Eval(1)
	v := melVal(m)
	mm := m
	if got := mm.Empty(); got != (v.Sign() == 0) {
		r.Violate("C05", "observer/empty", fmt.Sprintf("Empty() of %s (exact value %s) = %v", melStr(m), v, got), nil)
	}
	if got := m.IsCanonical(); got != (m.SupplementaryCurrency < e18) {
		r.Violate("C05", "observer/canonical", fmt.Sprintf("IsCanonical() of %s = %v", melStr(m), got), nil)
	}
	if c := m.Clone(); c != m {
		r.Violate("C05", "observer/clone", fmt.Sprintf("Clone() of %s = %s", melStr(m), melStr(c)), nil)
	}
	if mm != m {
		r.Violate("C05", "observer/changed-operand", fmt.Sprintf("a read-only operation changed %s to %s", melStr(m), melStr(mm)), nil)
	}
	if b, err := mm.Encode(); err == nil {
		if d, err := spice.Decode(b); err != nil || d != m {
			r.Violate("C05", "observer/encode-decode", fmt.Sprintf("Decode(Encode(%s)) = %s err=%v", melStr(m), melStr(d), err), nil)
		}
	}
	if m.Currency+m.SupplementaryCurrency < m.Currency || m.Currency^m.SupplementaryCurrency == 0 && m.Currency != 0 {
		r.Nontriv("observer/" + c05Class(m.Currency) + c05Class(m.SupplementaryCurrency))
	}
}

func c05New(r *core.Result, c, s uint64) {
	r.Eval(1)
	m := spice.New(c, s)
	want := new(big.Int).SetUint64(c)
	want.Mul(want, bigE18)
	want.Add(want, new(big.Int).SetUint64(s))
	if want.Cmp(bigMaxVal) > 0 || s >= 2*e18 {
		return // not representable canonically: no claim
	}
	if s >= e18 {
		r.Nontriv("new/" + c05Class(c) + c05Class(s))
	}
	if melVal(m).Cmp(want) != 0 || !canonical(m) {
		r.Violate("C05", "new/value-not-preserved", fmt.Sprintf("New(%d,%d) = %s, exact value %s", c, s, melStr(m), want), nil)
	}
}

func c05RandU64(rng *rand.Rand, sup bool) uint64 {
	switch rng.Intn(10) {
	case 0, 1:
		set := c05Cur
		if sup {
			set = c05Sup
		}
		return set[rng.Intn(len(set))]
	case 2:
		return uint64(rng.Intn(1000))
	case 3:
		if sup {
			return e18 - 1 - uint64(rng.Intn(1000))
		}
		return math.MaxUint64 - uint64(rng.Intn(1000))
	default:
		if sup {
			return rng.Uint64() % e18
		}
		if rng.Intn(2) == 0 {
			return rng.Uint64()
		}
		return rng.Uint64() >> uint(rng.Intn(64))
	}
}

func c05RandMel(rng *rand.Rand) spice.Melange {
	return spice.Melange{Currency: c05RandU64(rng, false), SupplementaryCurrency: c05RandU64(rng, true)}
}

func c05Worker(w *core.WorkerCtx) {
	r := w.R
	// Batch 0: the exhaustive boundary grid. Other batches: random cases and sequences.
	if w.Batch == 0 {
		var mels []spice.Melange
		for _, c := range c05Cur {
			for _, s := range c05Sup {
				mels = append(mels, spice.Melange{Currency: c, SupplementaryCurrency: s})
			}
		}
		for _, m := range mels {
			c05Observers(r, m)
			// amounts whose two parts add up to 2^64, or are equal: the parts are never to be combined as machine words
			c05Observers(r, spice.Melange{Currency: -m.SupplementaryCurrency, SupplementaryCurrency: m.SupplementaryCurrency})
			c05Observers(r, spice.Melange{Currency: m.SupplementaryCurrency, SupplementaryCurrency: m.SupplementaryCurrency})
			for _, a := range mels {
				c05Supply(r, m, a)
			}
		}
		for _, a := range mels {
			for _, f := range mels {
				for _, t := range mels {
					c05Transfer(r, a, f, t, false)
					c05Transfer(r, a, f, t, true) // the same through Drain, in to a sink that holds something already
				}
			}
		}
		for _, a := range mels {
			for _, f := range mels {
				c05Transfer(r, a, f, spice.Melange{}, true)
			}
		}
		for _, c := range c05Cur {
			for _, s := range append(append([]uint64{}, c05Sup...), e18, e18+1, 2*e18-1) {
				c05New(r, c, s)
			}
		}
		r.Count("grid_points", len(mels)*len(mels)*len(mels)+2*len(mels)*len(mels))
		return
	}
	rng := core.Rand(w.Seed, "C05", w.Batch)
	n := w.Pick(40_000, 1_500_000)
	for i := 0; i < n; i++ {
		switch rng.Intn(4) {
		case 0:
			m := c05RandMel(rng)
			c05Observers(r, m)
			c05Observers(r, spice.Melange{Currency: -m.SupplementaryCurrency, SupplementaryCurrency: m.SupplementaryCurrency})
			c05Supply(r, m, c05RandMel(rng))
		case 1:
			c05Transfer(r, c05RandMel(rng), c05RandMel(rng), c05RandMel(rng), rng.Intn(2) == 0)
		case 2:
			// near-equal operands: amount close to the source, receiver close to the top
			f := c05RandMel(rng)
			a := f
			switch rng.Intn(3) {
			case 0:
				a.SupplementaryCurrency = (a.SupplementaryCurrency + 1) % e18
			case 1:
				if a.Currency > 0 {
					a.Currency--
					a.SupplementaryCurrency = e18 - 1
				}
			}
			t := spice.Melange{Currency: math.MaxUint64 - a.Currency, SupplementaryCurrency: (e18 - a.SupplementaryCurrency + uint64(rng.Intn(3)) + e18 - 1) % e18}
			c05Transfer(r, a, f, t, false)
			c05Transfer(r, a, f, t, true)
			c05Transfer(r, f, f, t, true) // the whole source drained in to a sink near the top
			c05Supply(r, t, a)
		case 3:
			c05New(r, c05RandU64(rng, false), rng.Uint64()%(2*e18))
		}
	}
	// sequences over 4 accounts: the total stays constant and every account follows the reference
	seqs := w.Pick(300, 20_000)
	for s := 0; s < seqs; s++ {
		acc := make([]spice.Melange, 4)
		ref := make([]*big.Int, 4)
		for i := range acc {
			if rng.Intn(2) == 0 {
				acc[i] = c05RandMel(rng)
			}
			ref[i] = melVal(acc[i])
		}
		total := new(big.Int)
		for _, v := range ref {
			total.Add(total, v)
		}
		steps := 20 + rng.Intn(180)
		okSteps := 0
		for k := 0; k < steps; k++ {
			i, j := rng.Intn(4), rng.Intn(4)
			if i == j {
				continue
			}
			var a spice.Melange
			switch rng.Intn(4) {
			case 0:
				a = acc[i]
			case 1:
				a = spice.Melange{Currency: acc[i].Currency / 2, SupplementaryCurrency: acc[i].SupplementaryCurrency}
			case 2:
				a = spice.Melange{Currency: 0, SupplementaryCurrency: c05RandU64(rng, true)}
			default:
				a = c05RandMel(rng)
			}
			r.Eval(1)
			err := spice.Transfer(a, &acc[i], &acc[j])
			if err == nil {
				okSteps++
				ref[i].Sub(ref[i], melVal(a))
				ref[j].Add(ref[j], melVal(a))
			}
			sum := new(big.Int)
			bad := false
			for x := range acc {
				sum.Add(sum, melVal(acc[x]))
				if melVal(acc[x]).Cmp(ref[x]) != 0 || !canonical(acc[x]) {
					bad = true
				}
			}
			if bad || sum.Cmp(total) != 0 {
				r.Violate("C05", "sequence/value-created-or-destroyed", fmt.Sprintf("after step %d (Transfer %s from #%d to #%d, err=%v) accounts %v differ from the reference %v (total %s, expected %s)", k, melStr(a), i, j, err, acc, ref, sum, total), nil)
				break
			}
		}
		if okSteps > 3 {
			r.Nontriv(fmt.Sprintf("seq/%d/%d", s%50, okSteps/10))
		}
	}
	r.Count("sequences", seqs)
}

func init() {
	core.Register(&core.Check{
		Spec: core.Spec{
			Prop:        "C05",
			Rule:        "Every Supply/Drain/Transfer/New call is compared with math/big arithmetic on currency*10^18+supplementary: success iff the operation is possible, exact result, canonical sides, untouched operands on failure. Batch 0 enumerates the full product of 13 currency x 6 supplementary boundary values for amount, source and receiver (exhaustive for that grid); other batches draw PRNG operands (uniform, shifted, boundary-biased, near-equal) and 4-account transfer sequences whose total must stay constant. Ledger part: non-canonical amounts are offered to every ledger entry point and must never appear in a snapshot. Non-trivial = carry, borrow, overflow or insufficient-funds cases; distinct by (operation, outcome, carry/borrow flags, boundary class of every operand). The ledger ingress offers carry the non-canonical amounts with and without data (a contract carrying spice is a transfer), and one batch runs a ledger whose 2^63 supply hops through four wallets and is checkpointed (value neither created nor destroyed). Ledger level: wallets owning amounts on both sides of the seam between the two parts of the currency (whole units only, fractions only, fraction 10^18-1) propose one smallest unit more than they own and then exactly what they own; a confirmed overspend is value created. One batch drains a wallet to exactly zero between two truncations and probes it: a balance of zero is a balance. The exhaustive grid also runs through Drain with a non-empty sink. Wallets whose turnover passes 2^64 with transfers to self: a reported balance is the exact net flow, a refusal is allowed. The read-only operations (Empty, IsCanonical, Clone, Encode/Decode) against the exact value, also for amounts whose parts add up to 2^64; paid contracts carrying such amounts through a ledger. The interrupted-truncation scenario under the value oracle.",
			Assumptions: []string{"operands of the arithmetic oracle are canonical (supplementary < 10^18); non-canonical operands are only judged at the ledger boundary", "math/big is the trusted reference"},
			MinEvals:    100_000, MinNontriv: 50,
		},
		Plan: func(tier string) core.Plan {
			if tier == "thorough" {
				return core.Plan{Batches: 13, Parallel: 13, Timeout: 30 * time.Minute}
			}
			return core.Plan{Batches: 4, Parallel: 4, Timeout: 5 * time.Minute}
		},
		Worker: func(w *core.WorkerCtx) {
			if w.Batch == w.Batches-1 {
				c05LedgerWorker(w)
				return
			}
			if w.Batch == w.Batches-3 {
				// a wallet drained to exactly zero between two truncations, then overspend probes: a balance of zero is a
				// balance (the checkpoint of the first truncation must not outlive the second)
				c06Drained(w, []string{"C05"})
				// a truncation cancelled half way (some vertices stored, the funds not yet), then completed ones: what the
				// interrupted attempt had stored still counts - value is neither created nor destroyed by a retry
				longScenario(w, []string{"C05"}, 1003, ledger.LongOpts{Nodes: 1, Size: 1035, Truncations: 2, Between: 150, PostOps: 40, Interrupt: true})
			}
			if w.Batch == w.Batches-2 {
				// a ledger history with amounts near 2^63 hopping through several wallets and being checkpointed: no
				// value may be created or destroyed (checkpoint funds = net flow, balances unchanged, supply conserved)
				rng := core.Rand(w.Seed, "C05whale", w.Batch)
				longScenario(w, []string{"C05"}, 700, ledger.LongOpts{Nodes: 1, Size: 1015 + rng.Intn(40), Truncations: 1, PostOps: 20, Whale: true})
			}
			c05Worker(w)
		},
	})
}
