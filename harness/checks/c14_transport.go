package checks

import (
	"context"
	"errors"
	"fmt"
	"github.com/bartossh/Computantis/src/transformers"
	"net"
	"sort"
	"strings"
	"time"
	"verifharness/svc"

	"github.com/bartossh/Computantis/src/accountant"
	"github.com/bartossh/Computantis/src/cache"
	"github.com/bartossh/Computantis/src/gossip"
	"github.com/bartossh/Computantis/src/pipe"
	"github.com/bartossh/Computantis/src/protobufcompiled"
	"github.com/bartossh/Computantis/src/spice"
	"github.com/bartossh/Computantis/src/wallet"
	"google.golang.org/grpc"
	"google.golang.org/grpc/credentials/insecure"
	"google.golang.org/grpc/test/bufconn"
	"google.golang.org/protobuf/types/known/emptypb"

	"verifharness/core"
	"verifharness/ledger"
)

// streamPeer serves a fixed list of vertices as its DAG (a real gRPC server on an in-memory listener).
type streamPeer struct {
	protobufcompiled.UnimplementedGossipAPIServer
	stream []*accountant.Vertex
	// failAfter >= 0: the peer's call fails after that many vertices were sent; badAt >= 0: the vertex at that position
	// goes out as a wire vertex the receiving side cannot accept (its hash is cut short)
	failAfter, badAt int
}

func (p *streamPeer) LoadDag(_ *emptypb.Empty, stream protobufcompiled.GossipAPI_LoadDagServer) error {
	for i, v := range p.stream {
		if p.failAfter >= 0 && i == p.failAfter {
			return errors.New("the peer gave up in the middle of the stream")
		}
		pv := gossip.VerifVertexToProtoVertex(v)
		if p.badAt >= 0 && i == p.badAt {
			pv.Hash = pv.Hash[:7]
		}
		if err := stream.Send(pv); err != nil {
			return err
		}
	}
	if p.failAfter >= len(p.stream) {
		return errors.New("the peer failed at the end of the stream")
	}
	return nil
}

// syncJoiner starts a fresh node and lets it sync through the real client from a peer configured as given. It returns the
// joiner's ledger (still open), whether the sync call returned within 30 s, and a function that releases everything.
func syncJoiner(p *streamPeer) (book *accountant.AccountingBook, returned bool, release func()) {
	return syncJoinerFrom(p)
}

// syncJoinerFrom: the same against any implementation of the gossip service (a scripted peer, or a real node's own).
func syncJoinerFrom(p protobufcompiled.GossipAPIServer) (book *accountant.AccountingBook, returned bool, release func()) {
	lis := bufconn.Listen(1 << 22)
	srv := grpc.NewServer()
	protobufcompiled.RegisterGossipAPIServer(srv, p)
	go srv.Serve(lis)
	a := ledger.NewActor("joiner")
	ctx, cancel := context.WithCancel(context.Background())
	book, err := accountant.NewAccountingBook(ctx, accountant.Config{Truncate: 1 << 50}, wallet.NewVerifier(), &a.W, ledger.NoLog{})
	if err != nil {
		cancel()
		srv.Stop()
		return nil, false, func() {}
	}
	fl, _ := cache.NewFlash()
	hc, _ := cache.New(800, 64)
	g := gossip.VerifNewGossiper("joiner", ledger.NoLog{}, time.Second, &a.W, wallet.NewVerifier(), book, hc, fl, pipe.New(10, 10),
		[]grpc.DialOption{grpc.WithTransportCredentials(insecure.NewCredentials()), grpc.WithContextDialer(func(ctx context.Context, s string) (net.Conn, error) { return lis.DialContext(ctx) })})
	done := make(chan struct{})
	go func() {
		defer close(done)
		defer func() { recover() }()
		g.UpdateDag(ctx, "passthrough:///bufnet")
	}()
	select {
	case <-done:
		returned = true
	case <-time.After(30 * time.Second):
	}
	return book, returned, func() {
		srv.Stop()
		cancel()
		go book.VerifClose() // (never wait for a possibly wedged ledger)
		if fl != nil {
			fl.Close()
		}
		if hc != nil {
			hc.Close()
		}
	}
}

// syncOverTransport lets a fresh node sync through the real client side of the gossip service (dial, LoadDag stream,
// the service's own mapping and hand-over to the ledger) from a peer that serves the given vertices.
// awaitLoaded: the sync client returns when the stream has ended; the ledger finishes loading in a goroutine of its own
// and marks itself loaded a moment later. Polls for that mark for at most max.
func awaitLoaded(book *accountant.AccountingBook, max time.Duration) bool {
	for waited := time.Duration(0); ; waited += 5 * time.Millisecond {
		if book.DagLoaded() {
			return true
		}
		if waited >= max {
			return false
		}
		time.Sleep(5 * time.Millisecond)
	}
}

// (expectLoaded: how long the loaded mark is waited for - a verdict 'not loaded' on a clean stream is held back for ten
// seconds, a malformed stream is given 300 ms to be marked loaded by mistake)
func syncOverTransport(st []*accountant.Vertex, expectLoaded bool) (snap *ledger.Snap, loaded bool, panicked any, ok bool) {
	lis := bufconn.Listen(1 << 22)
	srv := grpc.NewServer()
	protobufcompiled.RegisterGossipAPIServer(srv, &streamPeer{stream: st, failAfter: -1, badAt: -1})
	go srv.Serve(lis)
	defer srv.Stop()
	a := ledger.NewActor("joiner")
	ctx, cancel := context.WithCancel(context.Background())
	defer cancel()
	book, err := accountant.NewAccountingBook(ctx, accountant.Config{Truncate: 1 << 50}, wallet.NewVerifier(), &a.W, ledger.NoLog{})
	if err != nil {
		return nil, false, nil, false
	}
	defer book.VerifClose()
	fl, err1 := cache.NewFlash()
	hc, err2 := cache.New(800, 64)
	if err1 != nil || err2 != nil {
		return nil, false, nil, false
	}
	defer fl.Close()
	defer hc.Close()
	g := gossip.VerifNewGossiper("joiner", ledger.NoLog{}, time.Second, &a.W, wallet.NewVerifier(), book, hc, fl, pipe.New(10, 10),
		[]grpc.DialOption{grpc.WithTransportCredentials(insecure.NewCredentials()), grpc.WithContextDialer(func(ctx context.Context, s string) (net.Conn, error) { return lis.DialContext(ctx) })})
	done := make(chan struct{})
	go func() {
		defer close(done)
		defer func() {
			if p := recover(); p != nil {
				panicked = p
			}
		}()
		g.UpdateDag(ctx, "passthrough:///bufnet")
	}()
	select {
	case <-done:
	case <-time.After(30 * time.Second):
		return nil, false, nil, false
	}
	wait := 300 * time.Millisecond
	if expectLoaded {
		wait = 10 * time.Second
	}
	if panicked == nil {
		awaitLoaded(book, wait)
	}
	s, err := ledger.TakeSnap(book)
	if err != nil {
		return nil, false, panicked, false
	}
	return s, book.DagLoaded(), panicked, true
}

// c14RealTransport: the sync as a joining node really performs it - through the client side of the gossip service - from a
// peer that serves (a) the recorded stream of a real ledger: the node must end loaded with exactly those vertices and
// parent links; (b) that stream with one malformation (the same list as for the direct loads): the node must end not
// loaded.
func c14RealTransport(w *core.WorkerCtx) {
	rng := core.Rand(w.Seed, "C14transport", w.Batch)
	desc := fmt.Sprintf("c14 sync through the real gossip client seed=%d batch=%d", w.Seed, w.Batch)
	w.Mark("%s", desc)
	world := ledger.NewWorld(rng, w.R, []string{"C14"}, allSnapOracles, desc)
	defer world.Close()
	d, err := ledger.Setup(world, ledger.Profile{Nodes: 2, Users: 4, SupplyClass: 0, Delivery: "delayed", PContract: 0.2})
	if err != nil {
		w.R.Inconc("setup failed: " + err.Error())
		return
	}
	d.P.Steps = 30
	d.Run()
	src := world.Nodes[0]
	st := recordStream(src)
	ssnap, _ := ledger.TakeSnap(src.Book)
	if ssnap == nil || len(st) < 6 {
		w.R.Note("real transport: the peer's ledger is too small")
		return
	}
	// (a) the clean stream
	got, loaded, pan, ok := syncOverTransport(cloneStream(st), true)
	world.EvalFor("C14", 1)
	w.R.Count("c14_real_transport_syncs", 1)
	switch {
	case !ok:
		w.R.Inconc("real transport: the sync did not finish")
		return
	case pan != nil:
		world.Violate("C14", "sync-failed/real-transport", fmt.Sprintf("the sync client panicked: %v", pan))
	case !loaded:
		world.Violate("C14", "sync-failed/real-transport", fmt.Sprintf("a clean stream of %d vertices served over the real transport left the node not loaded", len(st)))
	default:
		if len(got.Live) != len(ssnap.Live) {
			world.Violate("C14", "synced-ledger-differs/real-transport", fmt.Sprintf("the peer holds %d vertices, the node synced over the real transport %d", len(ssnap.Live), len(got.Live)))
		}
		for h, l := range ssnap.Live {
			gl, okv := got.Live[h]
			if !okv {
				world.Violate("C14", "synced-ledger-differs/real-transport", fmt.Sprintf("vertex %s of the peer is missing on the synced node", ledger.Hex(h)))
				break
			}
			if ledger.Fingerprint(&gl.V) != ledger.Fingerprint(&l.V) || fmt.Sprint(len(gl.Parents)) != fmt.Sprint(len(l.Parents)) {
				world.Violate("C14", "synced-ledger-differs/real-transport", fmt.Sprintf("vertex %s differs on the synced node (content or parent links)", ledger.Hex(h)))
				break
			}
		}
	}
	world.NontrivFor("C14", fmt.Sprintf("real-transport/clean/live%d", bucketN(len(st))))
	// (b) malformed streams
	for ci, c := range c14Corruptions {
		if !w.Thorough() && ci%2 == 1 && c.name != "duplicate-vertex" {
			continue
		}
		cs := c.make(world, rng, cloneStream(st))
		if cs == nil {
			continue
		}
		w.Mark("real transport: corruption %s on a stream of %d", c.name, len(st))
		_, loaded, pan, ok := syncOverTransport(cs, false)
		if !ok {
			continue
		}
		world.EvalFor("C14", 1)
		w.R.Count("c14_real_transport_corrupted_streams", 1)
		world.NontrivFor("C14", "real-transport/corruption/"+c.name)
		if pan != nil {
			world.Violate("C14", "sync-client-panicked/"+c.name, fmt.Sprintf("the sync client panicked on a stream corrupted by %s: %v", c.name, pan))
		} else if loaded {
			world.Violate("C14", "malformed-stream-loaded/real-transport/"+c.name, fmt.Sprintf("a stream of %d vertices corrupted by %s, served over the real transport, left the node marked as loaded", len(st), c.name))
		}
	}
	_ = spice.Melange{}
}

// c14ServedByGossiper: the peer is a whole node and serves the DAG through its own gossip service. Its ledger changes
// by every way a ledger changes - gossip in order, a vertex gossiped before its parent and admitted later by the orphan
// buffer, proposals through its notary - and after every change a fresh node syncs from it through the real client: it
// must report loaded and hold exactly the vertices the peer holds at that moment.
func c14ServedByGossiper(w *core.WorkerCtx) {
	r := w.R
	rig, err := svc.New(4, 60, 2048)
	if err != nil {
		r.Inconc("cannot build the node: " + err.Error())
		return
	}
	defer rig.Close()
	ctx := context.Background()
	u := rig.Users
	syncs := 0
	liveSet := func(s *ledger.Snap) string {
		var hs []string
		for h := range s.Live {
			hs = append(hs, ledger.Hex(h))
		}
		sort.Strings(hs)
		return strings.Join(hs, ",")
	}
	check := func(when string) bool {
		for attempt := 0; attempt < 4; attempt++ {
			want, err := ledger.TakeSnap(rig.Book)
			if err != nil {
				return false
			}
			w.Mark("c14 served by gossiper: sync %s", when)
			book, returned, release := syncJoinerFrom(rig.Gossip)
			if book == nil {
				release()
				return false
			}
			if !returned {
				release()
				r.Eval(1)
				r.Violate("C14", "sync-failed/served-by-gossiper", "the sync "+when+" did not return within 30 s", nil)
				return false
			}
			loaded := awaitLoaded(book, 10*time.Second)
			got, err := ledger.TakeSnap(book)
			release()
			after, err2 := ledger.TakeSnap(rig.Book)
			if err != nil || err2 != nil {
				return false
			}
			if liveSet(want) != liveSet(after) {
				// the peer's replay ticker admitted a parked vertex while it served: no fixed ledger to compare with
				r.Count("c14_syncs_repeated_because_the_peer_moved", 1)
				continue
			}
			syncs++
			r.Eval(1)
			r.Count("c14_syncs_from_a_real_gossip_service", 1)
			r.Nontriv("served-by-gossiper/" + when)
			if !loaded {
				r.Violate("C14", "sync-failed/served-by-gossiper", fmt.Sprintf("the sync %s left the node not loaded (the peer holds %d vertices)", when, len(want.Live)), nil)
				return false
			}
			for h := range want.Live {
				if _, ok := got.Live[h]; !ok {
					r.Violate("C14", "synced-ledger-differs/served-by-gossiper", fmt.Sprintf("after the sync %s the node misses vertex %s which the peer holds (peer %d vertices, node %d)", when, ledger.Hex(h), len(want.Live), len(got.Live)), nil)
					return false
				}
			}
			if len(got.Live) != len(want.Live) {
				r.Violate("C14", "synced-ledger-differs/served-by-gossiper", fmt.Sprintf("after the sync %s the node holds %d vertices, the peer %d", when, len(got.Live), len(want.Live)), nil)
				return false
			}
			return true
		}
		return true
	}
	send := func(v *accountant.Vertex) {
		rig.Flash.RemoveAddress(string(v.Hash[:]))
		rig.Gossip.GossipVrx(ctx, &protobufcompiled.VrxMsgGossip{Vertex: gossip.VerifVertexToProtoVertex(v)})
	}
	tipOf := func() (ledger.H, uint64) {
		s, _ := ledger.TakeSnap(rig.Book)
		var tip ledger.H
		var wgt uint64
		for h := range s.Leaves {
			if v, ok := s.Vertex(h); ok && v.Weight >= wgt {
				tip, wgt = h, v.Weight
			}
		}
		return tip, wgt
	}
	if !check("of the fresh ledger") {
		return
	}
	for round := 0; round < w.Pick(2, 6); round++ {
		// gossip in order
		tip, wgt := tipOf()
		t1 := ledger.ForgeTrx(u[0], u[1].Addr, fmt.Sprintf("in order %d", round), []byte("c"), spice.Melange{}, time.Now().Add(-time.Minute))
		v1 := ledger.ForgeVertex(rig.PeerAct[0], t1, tip, tip, wgt+1, time.Now().Add(-time.Second))
		send(&v1)
		if !check("after a vertex gossiped in order") {
			return
		}
		// child before parent: parked; the parent; a sync; the orphan buffer admits the child; a sync
		pt := ledger.ForgeTrx(u[0], u[2].Addr, fmt.Sprintf("parent %d", round), []byte("p"), spice.Melange{}, time.Now().Add(-time.Minute))
		pv := ledger.ForgeVertex(rig.PeerAct[1], pt, v1.Hash, v1.Hash, wgt+2, time.Now().Add(-time.Second))
		ct := ledger.ForgeTrx(u[0], u[3].Addr, fmt.Sprintf("child %d", round), []byte("c"), spice.Melange{}, time.Now().Add(-time.Minute))
		cv := ledger.ForgeVertex(rig.PeerAct[0], ct, pv.Hash, pv.Hash, wgt+3, time.Now().Add(-time.Second))
		send(&cv)
		send(&pv)
		if !check("after the parent of a parked vertex arrived") {
			return
		}
		for k := 0; k < 200; k++ {
			if _, err := rig.Book.ReadVertex(ctx, cv.Hash); err == nil {
				break
			}
			rig.Book.VerifRetryOne(ctx)
			time.Sleep(2 * time.Millisecond)
		}
		if !check("after the orphan buffer admitted the parked vertex") {
			return
		}
		// a proposal through the notary
		nt := ledger.ForgeTrx(u[0], u[1].Addr, fmt.Sprintf("notary %d", round), nil, spice.Melange{SupplementaryCurrency: uint64(1 + round)}, time.Now().Add(-time.Minute))
		if p, err := transformers.TrxToProtoTrx(nt); err == nil {
			rig.Notary.Propose(ctx, p)
		}
		if !check("after a proposal through the notary") {
			return
		}
	}
	_ = syncs
}
