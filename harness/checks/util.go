package checks

import (
	"strings"

	"github.com/bartossh/Computantis/src/wallet"
)

func containsAny(s string, subs ...string) bool {
	for _, x := range subs {
		if strings.Contains(s, x) {
			return true
		}
	}
	return false
}

func walletVerifier() wallet.Helper { return wallet.NewVerifier() }
