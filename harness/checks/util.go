package checks

import "strings"

func containsAny(s string, subs ...string) bool {
	for _, x := range subs {
		if strings.Contains(s, x) {
			return true
		}
	}
	return false
}
