package checks

import (
	"runtime"
	"strings"

	"github.com/bartossh/Computantis/src/wallet"
)

func containsAny(s string, subs ...string) bool {
	for _, x := range subs {
		if strings.Contains(s, x) {
			return true
		}
	}
	return false
}

func walletVerifier() wallet.Helper { return wallet.NewVerifier() }

func runtimeStack(buf []byte) int { return runtime.Stack(buf, false) }
