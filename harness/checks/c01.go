package checks

import (
	"fmt"

	"github.com/bartossh/Computantis/src/spice"

	"verifharness/core"
	"verifharness/ledger"
)

// c01Witness is the fixed history of the known finding confirmed-overdraft/issuer-overdrawn-in-checkpoint:
// a wallet double spends on two branches (C02 known finding), both spends get checkpointed, the checkpoint cannot
// carry the debt, and a later spend of fresh funds is confirmed although the wallet's whole history does not cover it.
func c01Witness(w *core.WorkerCtx) {
	rng := core.Rand(w.Seed, "C01w")
	desc := "c01 fixed witness: W holds 10, two harness-sealed vertices spend the 10 on the same parent, both confirmed by a merge, 1010 more vertices, truncation, W is funded 10 again and spends 10"
	world := ledger.NewWorld(rng, w.R, []string{"C01"}, allSnapOracles, desc)
	defer world.Close()
	_, err := ledger.Setup(world, ledger.Profile{Nodes: 1, Users: 5, SupplyClass: 0, Delivery: "lockstep"})
	if err != nil {
		w.R.Inconc("witness setup failed: " + err.Error())
		return
	}
	n := world.Nodes[0]
	u := world.Users
	f := world.NewTrx(u[0], u[1].Addr, spice.Melange{Currency: 10}, nil)
	fv, err := world.Propose(n, &f, "fund W")
	if err != nil {
		w.R.Inconc("witness funding failed")
		return
	}
	ta := world.NewTrx(u[1], u[2].Addr, spice.Melange{Currency: 10}, nil)
	tb := world.NewTrx(u[1], u[3].Addr, spice.Melange{Currency: 10}, nil)
	va := ledger.ForgeVertex(world.Sealers[0], ta, fv.Hash, fv.Hash, fv.Weight+1, world.Now())
	vb := ledger.ForgeVertex(world.Sealers[1], tb, fv.Hash, fv.Hash, fv.Weight+1, world.Now())
	if world.Deliver(n, &va, "W->X 10 on branch A") != nil || world.Deliver(n, &vb, "W->Y 10 on branch B") != nil {
		w.R.Inconc("witness branches were not admitted")
		return
	}
	world.Quiet = true
	for i := 0; i < 1012; i++ {
		t := world.NewTrx(u[0], u[4].Addr, spice.Melange{SupplementaryCurrency: uint64(1 + i%9)}, nil)
		if _, err := world.Propose(n, &t, "grow"); err != nil && i < 3 {
			world.Logf("grow step failed: %v", err)
		}
	}
	world.Quiet = false
	world.Observe(n, ledger.OpInfo{Kind: "milestone", OK: true})
	if err := world.Truncate(n); err != nil {
		w.R.Inconc("witness truncation failed: " + err.Error())
		return
	}
	if _, ok := n.Prev.Stored[va.Hash]; !ok {
		w.R.Note("witness: the double spend was not checkpointed by the truncation")
	}
	r := world.NewTrx(u[0], u[1].Addr, spice.Melange{Currency: 10}, nil)
	world.Propose(n, &r, "W funded again")
	s := world.NewTrx(u[1], u[4].Addr, spice.Melange{Currency: 10}, nil)
	_, serr := world.Propose(n, &s, "W spends the fresh funds")
	for i := 0; i < 2; i++ {
		m := world.NewTrx(u[0], u[2].Addr, spice.Melange{}, []byte("confirm"))
		world.Propose(n, &m, "confirm")
	}
	// the known finding ends here: the checkpoint holds 0 for W (debt 10 clamped), W received 10 and spent 10. A
	// further spend has nothing behind it in the node's own books either and must not be confirmed (it would be if the
	// checkpoint had kept W's inflow and forgotten its spends)
	s2 := world.NewTrx(u[1], u[4].Addr, spice.Melange{Currency: 10}, nil)
	world.Propose(n, &s2, "W spends 10 more")
	for i := 0; i < 2; i++ {
		m := world.NewTrx(u[0], u[2].Addr, spice.Melange{}, []byte("confirm"))
		world.Propose(n, &m, "confirm")
	}
	world.EvalFor("C01", 1)
	world.NontrivFor("C01", "witness/issuer-overdrawn-in-checkpoint")
	tr := world.Trace
	if len(tr) > 8 {
		tr = tr[len(tr)-8:]
	}
	w.R.Sample(5, map[string]any{"witness": desc, "spend_after_truncation_result": fmt.Sprint(serr), "last_operations": tr})
}

// c01RootTip: a tentative tip whose declared parents have all been checkpointed by a truncation (it hangs on old
// vertices and was not built upon yet) is a root of the live graph. It still has to pass the funds test - against
// everything checkpointed, its history - before it is built upon. Two such tips: one whose issuer never held anything
// (must be dropped) and one that the checkpoint covers (may be confirmed).
func c01RootTip(w *core.WorkerCtx) {
	rng := core.Rand(w.Seed, "C01root")
	desc := "c01 root tip: 1040-vertex chain, two harness-sealed side tips on the 5th vertex (one overdrawing, one covered), truncation from the main tip, then proposals"
	world := ledger.NewWorld(rng, w.R, []string{"C01"}, allSnapOracles, desc)
	defer world.Close()
	d, err := ledger.Setup(world, ledger.Profile{Nodes: 1, Users: 5, SupplyClass: 0, Delivery: "lockstep"})
	if err != nil {
		w.R.Inconc("root tip setup failed: " + err.Error())
		return
	}
	n := world.Nodes[0]
	u := world.Users
	var old ledger.H
	var oldW uint64
	world.Quiet = true
	for i := 0; i < 1040; i++ {
		t := world.NewTrx(u[0], u[1+i%2].Addr, spice.Melange{SupplementaryCurrency: uint64(1 + i%9)}, nil)
		v, err := world.Propose(n, &t, "grow")
		if err == nil && i == 4 {
			old, oldW = v.Hash, v.Weight
		}
	}
	world.Quiet = false
	world.Observe(n, ledger.OpInfo{Kind: "milestone", OK: true})
	// u[4] never receives anything; u[1] holds a little, all of it in vertices that get checkpointed or stay live
	bad := world.NewTrx(u[4], u[3].Addr, spice.Melange{Currency: 7}, nil)
	badV := ledger.ForgeVertex(world.Sealers[0], bad, old, old, oldW+1, world.Now())
	good := world.NewTrx(u[1], u[3].Addr, spice.Melange{SupplementaryCurrency: 1}, nil)
	goodV := ledger.ForgeVertex(world.Sealers[1], good, old, old, oldW+1, world.Now())
	if err := world.Deliver(n, &badV, "overdrawing side tip on an old vertex"); err != nil {
		w.R.Inconc("root tip scenario: side tip refused: " + err.Error())
		return
	}
	world.Deliver(n, &goodV, "covered side tip on an old vertex")
	for attempt := 0; attempt < 12; attempt++ {
		world.TruncateChecked(n, d, false)
		if _, ok := n.Prev.Stored[old]; ok {
			break
		}
	}
	if _, ok := n.Prev.Stored[old]; !ok {
		w.R.Note("root tip scenario: the old vertex was not checkpointed")
		return
	}
	_, stillTip := n.Prev.Leaves[badV.Hash]
	for i := 0; i < 4; i++ {
		t := world.NewTrx(u[0], u[2].Addr, spice.Melange{SupplementaryCurrency: uint64(3 + i)}, nil)
		world.Propose(n, &t, "after the truncation")
	}
	_, live := n.Prev.Live[badV.Hash]
	world.EvalFor("C01", 1)
	world.NontrivFor("C01", fmt.Sprintf("root-tip/was-tip=%v/still-live=%v", stillTip, live))
	tr := world.Trace
	if len(tr) > 8 {
		tr = tr[len(tr)-8:]
	}
	w.R.Sample(5, map[string]any{"scenario": desc, "overdrawing_root_tip_still_in_the_ledger": live, "last_operations": tr})
}

// c01TruncationRace: a wallet X received 10 and spent 8 long ago; 1030 vertices later it spends 3 more in a tentative
// tip (not built upon yet). A truncation starts from that tip while six clients propose: whichever proposal first
// validates the tip - before, during or after the cut - must count the checkpointed part of X's history exactly once
// and drop the tip.
func c01TruncationRace(w *core.WorkerCtx, report []string) {
	rng := core.Rand(w.Seed, "C01race")
	desc := "c01 truncation race: X received 10 and spent 8 (both get checkpointed), tentative tip X spends 3, truncation racing with 24 proposals"
	world := ledger.NewWorld(rng, w.R, report, allSnapOracles, desc)
	defer world.Close()
	d, err := ledger.Setup(world, ledger.Profile{Nodes: 1, Users: 5, SupplyClass: 0, Delivery: "lockstep"})
	if err != nil {
		w.R.Inconc("truncation race setup failed: " + err.Error())
		return
	}
	n := world.Nodes[0]
	u := world.Users
	f := world.NewTrx(u[0], u[4].Addr, spice.Melange{Currency: 10}, nil)
	s1 := world.NewTrx(u[4], u[1].Addr, spice.Melange{Currency: 8}, nil)
	if _, err := world.Propose(n, &f, "fund X with 10"); err != nil {
		w.R.Inconc("truncation race: funding failed")
		return
	}
	if _, err := world.Propose(n, &s1, "X spends 8"); err != nil {
		w.R.Inconc("truncation race: first spend failed")
		return
	}
	world.Quiet = true
	for i := 0; i < 1030; i++ {
		t := world.NewTrx(u[0], u[1+i%3].Addr, spice.Melange{SupplementaryCurrency: uint64(1 + i%9)}, nil)
		world.Propose(n, &t, "grow")
	}
	world.Quiet = false
	world.Observe(n, ledger.OpInfo{Kind: "milestone", OK: true})
	s2 := world.NewTrx(u[4], u[2].Addr, spice.Melange{Currency: 3}, nil)
	tv, err := world.Propose(n, &s2, "X spends 3 (tentative tip, not covered)")
	if err != nil {
		w.R.Inconc("truncation race: the tentative spend was refused: " + err.Error())
		return
	}
	world.TruncateChecked(n, d, true)
	for i := 0; i < 3; i++ {
		t := world.NewTrx(u[0], u[2].Addr, spice.Melange{SupplementaryCurrency: uint64(3 + i)}, nil)
		world.Propose(n, &t, "after the truncation")
	}
	_, live := n.Prev.Live[tv.Hash]
	_, stored := n.Prev.Stored[s1.Hash]
	// conservation over everything confirmed (C02): X must not have spent more than it received
	world.CheckConservation(n)
	for _, p := range report {
		world.EvalFor(p, 1)
		world.NontrivFor(p, fmt.Sprintf("truncation-race/overdrawing-tip-still-live=%v/checkpoint=%v", live, len(n.Prev.Stored) > 0 || stored))
	}
	w.R.Count("truncation_race_scenarios", 1)
}
