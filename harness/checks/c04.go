package checks

import (
	"bytes"
	"context"
	"fmt"
	"github.com/bartossh/Computantis/src/gossip"
	"github.com/bartossh/Computantis/src/protobufcompiled"
	"github.com/bartossh/Computantis/src/serializer"
	"github.com/bartossh/Computantis/src/transaction"
	"github.com/bartossh/Computantis/src/transformers"
	"math/big"
	"math/rand"
	"strings"
	"time"
	"verifharness/svc"

	"github.com/bartossh/Computantis/src/accountant"
	"github.com/bartossh/Computantis/src/spice"
	"github.com/bartossh/Computantis/src/wallet"

	"verifharness/core"
	"verifharness/ledger"
)

// C04 — tamper evidence: altered vertices and transactions are never admitted.

type mutant struct {
	v     accountant.Vertex
	class string // signature class of the mutation (field + kind)
	desc  string
}

type byteField struct {
	name  string
	fixed bool // length must be preserved ([32]byte)
	get   func(v *accountant.Vertex) []byte
	set   func(v *accountant.Vertex, b []byte)
}

var c04ByteFields = []byteField{
	{"vertex.signer_address", false, func(v *accountant.Vertex) []byte { return []byte(v.SignerPublicAddress) }, func(v *accountant.Vertex, b []byte) { v.SignerPublicAddress = string(b) }},
	{"vertex.signature", false, func(v *accountant.Vertex) []byte { return v.Signature }, func(v *accountant.Vertex, b []byte) { v.Signature = b }},
	{"vertex.hash", true, func(v *accountant.Vertex) []byte { return v.Hash[:] }, func(v *accountant.Vertex, b []byte) { copy(v.Hash[:], b) }},
	{"vertex.left_parent", true, func(v *accountant.Vertex) []byte { return v.LeftParentHash[:] }, func(v *accountant.Vertex, b []byte) { copy(v.LeftParentHash[:], b) }},
	{"vertex.right_parent", true, func(v *accountant.Vertex) []byte { return v.RightParentHash[:] }, func(v *accountant.Vertex, b []byte) { copy(v.RightParentHash[:], b) }},
	{"trx.issuer_address", false, func(v *accountant.Vertex) []byte { return []byte(v.Transaction.IssuerAddress) }, func(v *accountant.Vertex, b []byte) { v.Transaction.IssuerAddress = string(b) }},
	{"trx.receiver_address", false, func(v *accountant.Vertex) []byte { return []byte(v.Transaction.ReceiverAddress) }, func(v *accountant.Vertex, b []byte) { v.Transaction.ReceiverAddress = string(b) }},
	{"trx.subject", false, func(v *accountant.Vertex) []byte { return []byte(v.Transaction.Subject) }, func(v *accountant.Vertex, b []byte) { v.Transaction.Subject = string(b) }},
	{"trx.data", false, func(v *accountant.Vertex) []byte { return v.Transaction.Data }, func(v *accountant.Vertex, b []byte) { v.Transaction.Data = b }},
	{"trx.issuer_signature", false, func(v *accountant.Vertex) []byte { return v.Transaction.IssuerSignature }, func(v *accountant.Vertex, b []byte) { v.Transaction.IssuerSignature = b }},
	{"trx.receiver_signature", false, func(v *accountant.Vertex) []byte { return v.Transaction.ReceiverSignature }, func(v *accountant.Vertex, b []byte) { v.Transaction.ReceiverSignature = b }},
	{"trx.hash", true, func(v *accountant.Vertex) []byte { return v.Transaction.Hash[:] }, func(v *accountant.Vertex, b []byte) { copy(v.Transaction.Hash[:], b) }},
}

type intField struct {
	name string
	get  func(v *accountant.Vertex) uint64
	set  func(v *accountant.Vertex, x uint64)
}

var c04IntFields = []intField{
	{"vertex.weight", func(v *accountant.Vertex) uint64 { return v.Weight }, func(v *accountant.Vertex, x uint64) { v.Weight = x }},
	{"vertex.created_at", func(v *accountant.Vertex) uint64 { return uint64(v.CreatedAt.UnixNano()) }, func(v *accountant.Vertex, x uint64) { v.CreatedAt = time.Unix(0, int64(x)) }},
	{"trx.created_at", func(v *accountant.Vertex) uint64 { return uint64(v.Transaction.CreatedAt.UnixNano()) }, func(v *accountant.Vertex, x uint64) { v.Transaction.CreatedAt = time.Unix(0, int64(x)) }},
	{"trx.currency", func(v *accountant.Vertex) uint64 { return v.Transaction.Spice.Currency }, func(v *accountant.Vertex, x uint64) { v.Transaction.Spice.Currency = x }},
	{"trx.supplementary", func(v *accountant.Vertex) uint64 { return v.Transaction.Spice.SupplementaryCurrency }, func(v *accountant.Vertex, x uint64) { v.Transaction.Spice.SupplementaryCurrency = x }},
}

func sameSignedFields(a, b *accountant.Vertex) bool {
	return ledger.Fingerprint(a) == ledger.Fingerprint(b)
}

// c04Mutants derives mutants of base; other is a second valid vertex (for swaps), foreign another wallet.
func c04Mutants(rng *rand.Rand, base, other *accountant.Vertex, foreign *ledger.Actor, thorough bool) []mutant {
	var out []mutant
	add := func(class, desc string, f func(v *accountant.Vertex)) {
		m := *ledger.CloneVertex(base)
		f(&m)
		if sameSignedFields(&m, base) {
			return // identity: not a mutation
		}
		if strings.HasPrefix(class, "trx.receiver_signature/") && len(m.Transaction.ReceiverSignature) == 0 && len(base.Transaction.ReceiverSignature) > 0 {
			// whatever the mutation was called (emptied, truncated to nothing, swapped with a vertex that has none): the
			// receiver's signature was taken off, the class of the listed finding
			class = "receiver-signature-stripped"
		}
		out = append(out, mutant{m, class, desc})
	}
	for _, bf := range c04ByteFields {
		bf := bf
		orig := bf.get(base)
		n := len(orig)
		// bit flips
		if n > 0 {
			positions := []int{0, n - 1, n / 2}
			for i := 0; i < 3; i++ {
				positions = append(positions, rng.Intn(n))
			}
			if thorough {
				for i := 0; i < n; i++ {
					positions = append(positions, i)
				}
			}
			for _, p := range positions {
				p := p
				bit := byte(1) << uint(rng.Intn(8))
				add(bf.name+"/bit-flip", fmt.Sprintf("bit flip in %s at byte %d", bf.name, p), func(v *accountant.Vertex) {
					b := append([]byte{}, bf.get(v)...)
					b[p] ^= bit
					bf.set(v, b)
				})
			}
			add(bf.name+"/two-bit-flip", "two bit flips in "+bf.name, func(v *accountant.Vertex) {
				b := append([]byte{}, bf.get(v)...)
				b[rng.Intn(n)] ^= 1 << uint(rng.Intn(8))
				b[rng.Intn(n)] ^= 1 << uint(rng.Intn(8))
				bf.set(v, b)
			})
			add(bf.name+"/byte-replaced", "byte replaced in "+bf.name, func(v *accountant.Vertex) {
				b := append([]byte{}, bf.get(v)...)
				b[rng.Intn(n)] = byte(rng.Intn(256))
				bf.set(v, b)
			})
			add(bf.name+"/random-k-flips", "several bit flips in "+bf.name, func(v *accountant.Vertex) {
				b := append([]byte{}, bf.get(v)...)
				for k := 0; k < 3+rng.Intn(6); k++ {
					b[rng.Intn(n)] ^= 1 << uint(rng.Intn(8))
				}
				bf.set(v, b)
			})
			add(bf.name+"/zeroed", bf.name+" zeroed", func(v *accountant.Vertex) { bf.set(v, make([]byte, n)) })
		}
		if !bf.fixed {
			if n > 0 {
				add(bf.name+"/truncated", bf.name+" truncated by one byte", func(v *accountant.Vertex) { bf.set(v, append([]byte{}, orig[:n-1]...)) })
				add(bf.name+"/truncated-front", bf.name+" without its first byte", func(v *accountant.Vertex) { bf.set(v, append([]byte{}, orig[1:]...)) })
				add(bf.name+"/emptied", bf.name+" emptied", func(v *accountant.Vertex) { bf.set(v, []byte{}) })
			}
			add(bf.name+"/extended", bf.name+" extended by one byte", func(v *accountant.Vertex) { bf.set(v, append(append([]byte{}, orig...), byte('1'+rng.Intn(8)))) })
			add(bf.name+"/extended-zero", bf.name+" extended by a zero byte", func(v *accountant.Vertex) { bf.set(v, append(append([]byte{}, orig...), 0)) })
		}
		// swapped with the other valid vertex
		add(bf.name+"/swapped-with-other-vertex", bf.name+" taken from another valid vertex", func(v *accountant.Vertex) { bf.set(v, append([]byte{}, bf.get(other)...)) })
	}
	for _, inf := range c04IntFields {
		inf := inf
		x := inf.get(base)
		for _, d := range []uint64{1, 2, 1 << 8, 1 << 20, 1 << 32, 1 << 63, 1000000000} {
			d := d
			add(inf.name+"/plus", fmt.Sprintf("%s + %d", inf.name, d), func(v *accountant.Vertex) { inf.set(v, x+d) })
			add(inf.name+"/minus", fmt.Sprintf("%s - %d", inf.name, d), func(v *accountant.Vertex) { inf.set(v, x-d) })
		}
		add(inf.name+"/bit-flip", "bit flip in "+inf.name, func(v *accountant.Vertex) { inf.set(v, x^(1<<uint(rng.Intn(64)))) })
		add(inf.name+"/zero", inf.name+" = 0", func(v *accountant.Vertex) { inf.set(v, 0) })
		add(inf.name+"/swapped-with-other-vertex", inf.name+" taken from another valid vertex", func(v *accountant.Vertex) { inf.set(v, inf.get(other)) })
	}
	// bytes moved across adjacent field boundaries of the signed transaction message
	t := base.Transaction
	if len(t.Subject) > 1 {
		add("boundary-shift/subject|data", "last byte of subject moved to the front of data", func(v *accountant.Vertex) {
			v.Transaction.Subject = t.Subject[:len(t.Subject)-1]
			v.Transaction.Data = append([]byte{t.Subject[len(t.Subject)-1]}, t.Data...)
		})
	}
	if len(t.Data) > 0 {
		add("boundary-shift/subject|data", "first byte of data moved to the end of subject", func(v *accountant.Vertex) {
			v.Transaction.Subject = t.Subject + string(t.Data[:1])
			v.Transaction.Data = append([]byte{}, t.Data[1:]...)
		})
		add("boundary-shift/data|issuer", "last byte of data moved to the front of the issuer address", func(v *accountant.Vertex) {
			v.Transaction.Data = append([]byte{}, t.Data[:len(t.Data)-1]...)
			v.Transaction.IssuerAddress = string(t.Data[len(t.Data)-1:]) + t.IssuerAddress
		})
	}
	add("boundary-shift/data|issuer", "first byte of the issuer address moved to the end of data", func(v *accountant.Vertex) {
		v.Transaction.Data = append(append([]byte{}, t.Data...), t.IssuerAddress[0])
		v.Transaction.IssuerAddress = t.IssuerAddress[1:]
	})
	add("boundary-shift/issuer|receiver", "last byte of the issuer address moved to the front of the receiver address", func(v *accountant.Vertex) {
		v.Transaction.IssuerAddress = t.IssuerAddress[:len(t.IssuerAddress)-1]
		v.Transaction.ReceiverAddress = t.IssuerAddress[len(t.IssuerAddress)-1:] + t.ReceiverAddress
	})
	add("boundary-shift/issuer|receiver", "first byte of the receiver address moved to the end of the issuer address", func(v *accountant.Vertex) {
		v.Transaction.IssuerAddress = t.IssuerAddress + t.ReceiverAddress[:1]
		v.Transaction.ReceiverAddress = t.ReceiverAddress[1:]
	})
	add("boundary-shift/subject|data", "subject emptied in to data", func(v *accountant.Vertex) {
		v.Transaction.Data = append([]byte(t.Subject), t.Data...)
		v.Transaction.Subject = ""
	})
	// signatures and addresses of another wallet
	add("foreign/issuer-signature-by-wrong-key-over-right-message", "issuer signature made by another wallet over the same message", func(v *accountant.Vertex) {
		_, v.Transaction.IssuerSignature = foreign.W.Sign(ledger.TrxMessage(&v.Transaction))
	})
	add("foreign/issuer-address-replaced", "issuer address replaced by another wallet's", func(v *accountant.Vertex) { v.Transaction.IssuerAddress = foreign.Addr })
	add("foreign/receiver-address-replaced", "receiver address replaced by another wallet's", func(v *accountant.Vertex) { v.Transaction.ReceiverAddress = foreign.Addr })
	add("foreign/sealer-address-replaced", "sealer address replaced by another wallet's", func(v *accountant.Vertex) { v.SignerPublicAddress = foreign.Addr })
	add("foreign/sealing-signature-by-wrong-key", "sealing signature made by another wallet over the same message", func(v *accountant.Vertex) {
		_, v.Signature = foreign.W.Sign(ledger.VertexMessage(v))
	})
	add("foreign/right-key-other-message", "issuer signature of another valid transaction of the same issuer", func(v *accountant.Vertex) {
		if other.Transaction.IssuerAddress == v.Transaction.IssuerAddress {
			v.Transaction.IssuerSignature = append([]byte{}, other.Transaction.IssuerSignature...)
		}
	})
	add("foreign/whole-transaction-swapped", "transaction of another valid vertex under this vertex's hash and seal", func(v *accountant.Vertex) { v.Transaction = ledger.CloneVertex(other).Transaction })
	if len(t.ReceiverSignature) > 0 {
		add("receiver-signature-stripped", "receiver signature removed from a countersigned transaction", func(v *accountant.Vertex) { v.Transaction.ReceiverSignature = []byte{} })
		add("receiver-signature-stripped", "receiver signature set to nil", func(v *accountant.Vertex) { v.Transaction.ReceiverSignature = nil })
		add("receiver-signature/replaced-by-issuer-signature", "receiver signature replaced by the issuer signature", func(v *accountant.Vertex) {
			v.Transaction.ReceiverSignature = append([]byte{}, t.IssuerSignature...)
		})
		add("receiver-signature/by-wrong-key", "receiver signature made by another wallet", func(v *accountant.Vertex) {
			_, v.Transaction.ReceiverSignature = foreign.W.Sign(ledger.TrxMessage(&v.Transaction))
		})
	} else {
		add("receiver-signature/garbage-added", "a garbage receiver signature added", func(v *accountant.Vertex) { v.Transaction.ReceiverSignature = bytes.Repeat([]byte{7}, 64) })
		add("receiver-signature/foreign-added", "a receiver signature by a wallet that is not the receiver added", func(v *accountant.Vertex) {
			_, v.Transaction.ReceiverSignature = foreign.W.Sign(ledger.TrxMessage(&v.Transaction))
		})
	}
	return out
}

// c04Offer offers the mutant and requires rejection with an unchanged ledger.
func c04Offer(world *ledger.World, n *ledger.Node, m *mutant, state string) {
	before := n.Prev
	v := m.v
	err := world.Deliver(n, &v, "mutant "+m.class)
	world.EvalFor("C04", 1)
	world.NontrivFor("C04", m.class+"/"+state)
	if err == nil {
		world.Violate("C04", "accepted/"+m.class, fmt.Sprintf("a vertex altered by [%s] was accepted by a node that %s", m.desc, state))
		return
	}
	after := n.Prev
	if !n.BackgroundMayAct(before) && !n.BackgroundMayAct(after) && before.Digest() != after.Digest() {
		world.Violate("C04", "rejected-but-ledger-changed/"+m.class, fmt.Sprintf("a vertex altered by [%s] was rejected (%v) but the ledger changed: %s", m.desc, err, ledger.DigestDiff(before, after)))
	}
	for _, p := range after.Parked {
		if ledger.Fingerprint(&p.Vertex) == ledger.Fingerprint(&m.v) {
			world.Violate("C04", "parked/"+m.class, fmt.Sprintf("a vertex altered by [%s] was parked for replay", m.desc))
		}
	}
}

// c04Propose: the transaction of a mutant handed to the ledger's own sealing entry (CreateLeaf, what the notary calls
// after its own checks). Judged only when the transaction itself was altered in a signed field and is not simply
// another valid transaction (the whole transaction of the other base vertex, or a countersigned one with the receiver's
// signature taken off, which is a valid issuer-signed transaction for the ledger).
func c04Propose(world *ledger.World, n *ledger.Node, m *mutant, base, other *accountant.Vertex) {
	t, bt := &m.v.Transaction, &base.Transaction
	same := func(a, b *transaction.Transaction) bool {
		return a.Hash == b.Hash && bytes.Equal(ledger.TrxMessage(a), ledger.TrxMessage(b)) && bytes.Equal(a.IssuerSignature, b.IssuerSignature) && a.IssuerAddress == b.IssuerAddress && a.ReceiverAddress == b.ReceiverAddress
	}
	if same(t, &other.Transaction) {
		return
	}
	if same(t, bt) && (bytes.Equal(t.ReceiverSignature, bt.ReceiverSignature) || len(t.ReceiverSignature) == 0) {
		return
	}
	before := n.Prev
	tt := *t
	v, err := world.Propose(n, &tt, "transaction of mutant "+m.class)
	world.EvalFor("C04", 1)
	world.Res.Count("c04_mutant_transactions_offered_for_sealing", 1)
	world.NontrivFor("C04", m.class+"/propose")
	if err == nil {
		world.Violate("C04", "accepted/propose/"+m.class, fmt.Sprintf("a transaction altered by [%s] was sealed by the node (vertex %s)", m.desc, ledger.Hex(v.Hash)))
		return
	}
	after := n.Prev
	if !n.BackgroundMayAct(before) && !n.BackgroundMayAct(after) && before.Digest() != after.Digest() {
		world.Violate("C04", "rejected-but-ledger-changed/propose/"+m.class, fmt.Sprintf("a transaction altered by [%s] was refused (%v) but the ledger changed: %s", m.desc, err, ledger.DigestDiff(before, after)))
	}
}

// c04Service: the same mutation engine on transactions that enter a whole node (notary, gossip, awaiting cache, real
// ledger) as awaiting contracts or proposals: through gossip.GossipTrx and notary.Propose. An altered transaction must
// leave neither the ledger nor the awaiting lists changed - whatever the handler answers (a repeated hash is answered
// without an error by the duplicate suppression, so every mutant gets a base transaction of its own).
func c04Service(w *core.WorkerCtx) {
	r := w.R
	rng := core.Rand(w.Seed, "C04svc", w.Batch)
	rig, err := svc.New(4, 60, 2048)
	if err != nil {
		r.Inconc("cannot build the node: " + err.Error())
		return
	}
	defer rig.Close()
	ctx := context.Background()
	u := rig.Users
	foreign := ledger.NewActor("foreign")
	for i := 1; i < len(u); i++ {
		t := ledger.ForgeTrx(u[0], u[i].Addr, fmt.Sprintf("fund %d", i), nil, spice.Melange{Currency: 1000}, time.Now().Add(-time.Minute))
		if p, err := transformers.TrxToProtoTrx(t); err == nil {
			rig.Notary.Propose(ctx, p)
		}
	}
	var gen accountant.Vertex
	if s, err := ledger.TakeSnap(rig.Book); err == nil {
		for _, l := range s.Live {
			gen = l.V
			break
		}
	}
	// fixed cases: whatever the node seals itself must pass the vertex verification every receiving node applies.
	// A transfer proposed with a junk receiver signature (the notary checks the issuer), and an awaiting contract with
	// a junk receiver signature (gossiped or proposed) that its receiver rejects, which seals it.
	unverifiable := func(tag, path string) {
		sn, err := ledger.TakeSnap(rig.Book)
		if err != nil {
			return
		}
		for h, l := range sn.Live {
			v := l.V
			if h == gen.Hash {
				continue
			}
			if err := rig.Book.VerifVerifyVertex(&v); err != nil {
				r.Violate("C04", "unverifiable-vertex-sealed/"+tag, fmt.Sprintf("%s: the node's ledger holds vertex %s, which its own vertex verification (the one every receiving node applies) refuses: %v", path, ledger.Hex(h), err), nil)
			}
		}
		r.Eval(1)
		r.Nontriv("service/sealed-vertices-verify/" + tag)
	}
	for ji, junk := range [][]byte{{0}, bytes.Repeat([]byte{7}, 64)} {
		t := ledger.ForgeTrx(u[1], u[2].Addr, fmt.Sprintf("junk receiver signature %d", ji), nil, spice.Melange{SupplementaryCurrency: 5}, time.Now().Add(-time.Minute))
		t.ReceiverSignature = junk
		if p, err := transformers.TrxToProtoTrx(t); err == nil {
			w.Mark("c04 service: transfer with a %d byte junk receiver signature through notary.Propose", len(junk))
			rig.Notary.Propose(ctx, p)
			unverifiable("propose-junk-receiver-signature", "notary.Propose of a transfer with a junk receiver signature")
		}
		c := ledger.ForgeTrx(u[1], u[2].Addr, fmt.Sprintf("contract with a junk receiver signature %d", ji), []byte("contract"), spice.Melange{}, time.Now().Add(-time.Minute))
		c.ReceiverSignature = junk
		if p, err := transformers.TrxToProtoTrx(c); err == nil {
			w.Mark("c04 service: contract with a %d byte junk receiver signature, then Reject", len(junk))
			if ji == 0 {
				rig.Notary.Propose(ctx, p)
			} else {
				rig.Gossip.GossipTrx(ctx, &protobufcompiled.TrxMsgGossip{Trx: p})
			}
			rig.Notary.Reject(ctx, svc.Sign(u[2], c.Hash[:]))
			unverifiable("reject-junk-receiver-signature", "notary.Reject of an awaiting contract with a junk receiver signature")
			rig.Cache.RemoveAwaitedTransaction(c.Hash, u[2].Addr)
		}
	}
	// stripping the receiver's signature at the moment it is required: Confirm of an awaiting contract without (nil,
	// empty, one zero byte) the receiver's signature must be refused; the contract stays awaiting, the ledger unchanged
	for si, stripped := range [][]byte{nil, {}, {0}} {
		c := ledger.ForgeTrx(u[1], u[2].Addr, fmt.Sprintf("confirm without the receiver's signature %d", si), []byte("contract"), spice.Melange{SupplementaryCurrency: 3}, time.Now().Add(-time.Minute))
		p, err := transformers.TrxToProtoTrx(c)
		if err != nil {
			continue
		}
		if _, err := rig.Notary.Propose(ctx, p); err != nil {
			continue
		}
		before, _ := rig.State([]string{u[1].Addr, u[2].Addr})
		cp, _ := transformers.TrxToProtoTrx(c)
		cp.ReceiverSignature = stripped
		w.Mark("c04 service: Confirm with a stripped receiver signature (%d bytes)", len(stripped))
		_, cerr := rig.Notary.Confirm(ctx, cp)
		time.Sleep(300 * time.Microsecond)
		after, _ := rig.State([]string{u[1].Addr, u[2].Addr})
		r.Eval(1)
		r.Nontriv(fmt.Sprintf("service/confirm-stripped/%d/refused=%v", len(stripped), cerr != nil))
		if before != nil && after != nil {
			if ok, why := svc.SameOrOnlyTipsDropped(before, after); !ok {
				r.Violate("C04", "accepted/service/receiver-signature-stripped-at-confirm", fmt.Sprintf("Confirm of an awaiting contract with the receiver's signature stripped (%d bytes left; answer: %v) changed the node's state: %s", len(stripped), cerr, why), nil)
			}
		}
		rig.Notary.Reject(ctx, svc.Sign(u[2], c.Hash[:]))
	}
	c04Wire(w, rig, rng, foreign)
	n := w.Pick(120, 1200)
	seq := 0
	mkBase := func(kind int) transaction.Transaction {
		seq++
		var data []byte
		amt := spice.Melange{SupplementaryCurrency: uint64(1 + rng.Intn(1000))}
		switch kind % 3 {
		case 0:
			data, amt = []byte(fmt.Sprintf("contract %d", seq)), spice.Melange{}
		case 1:
			data = []byte(fmt.Sprintf("contract with spice %d", seq))
		}
		return ledger.ForgeTrx(u[1+seq%2], u[3-seq%2].Addr, fmt.Sprintf("svc base %d", seq), data, amt, time.Now().Add(-time.Minute))
	}
	for k := 0; k < n; k++ {
		bt := mkBase(k)
		ot := mkBase(k + 1)
		base := ledger.ForgeVertex(rig.PeerAct[0], bt, gen.Hash, gen.Hash, 2, time.Now().Add(-time.Second))
		other := ledger.ForgeVertex(rig.PeerAct[1], ot, gen.Hash, gen.Hash, 2, time.Now().Add(-time.Second))
		muts := c04Mutants(rng, &base, &other, foreign, false)
		// keep the mutants that alter the transaction itself
		var tm []*mutant
		for i := range muts {
			vv := base
			vv.Transaction = muts[i].v.Transaction
			if ledger.Fingerprint(&vv) == ledger.Fingerprint(&base) {
				continue
			}
			if strings.HasPrefix(muts[i].class, "boundary-shift") || muts[i].class == "receiver-signature-stripped" {
				continue // the two known findings, judged on the gossip path of vertices
			}
			if ok, _ := ledger.TrxAuthentic(&muts[i].v.Transaction); ok {
				continue // another valid transaction put in the place of this one: on its own it is not an alteration
			}
			tm = append(tm, &muts[i])
		}
		if len(tm) == 0 {
			continue
		}
		m := tm[(k*7+rng.Intn(3))%len(tm)]
		mt := m.v.Transaction
		p, err := transformers.TrxToProtoTrx(mt)
		if err != nil {
			r.Count("c04_service_mutants_refused_by_the_converter", 1)
			continue
		}
		addrs := []string{bt.IssuerAddress, bt.ReceiverAddress, mt.IssuerAddress, mt.ReceiverAddress, foreign.Addr}
		before, err := rig.State(addrs)
		if err != nil {
			r.Inconc("cannot read the node's state: " + err.Error())
			return
		}
		entry := []string{"gossip.GossipTrx", "notary.Propose"}[k%2]
		w.Mark("c04 service mutant %d: %s through %s", k, m.class, entry)
		var cerr error
		if k%2 == 0 {
			_, cerr = rig.Gossip.GossipTrx(ctx, &protobufcompiled.TrxMsgGossip{Trx: p})
		} else {
			_, cerr = rig.Notary.Propose(ctx, p)
		}
		time.Sleep(300 * time.Microsecond) // handlers finish parts of their work in goroutines
		after, err := rig.State(addrs)
		if err != nil {
			r.Inconc("cannot read the node's state: " + err.Error())
			return
		}
		r.Eval(1)
		r.Count("c04_service_mutants", 1)
		r.Nontriv(fmt.Sprintf("service/%s/%s/refused=%v", entry, m.class, cerr != nil))
		// an awaiting contract is not expected to carry the receiver's signature yet (the handlers verify the issuer and
		// the receiver's own Confirm replaces the field): an altered receiver signature alone is judged by the ledger only
		rs := bt
		rs.ReceiverSignature = mt.ReceiverSignature
		onlyReceiverSig := len(trxDiff(&rs, &mt)) == 0
		if onlyReceiverSig && before.Snap.Digest() == after.Snap.Digest() {
			if before.Rest != after.Rest {
				r.Count("c04_service_awaiting_entries_with_an_altered_receiver_signature", 1)
				rig.Cache.RemoveAwaitedTransaction(mt.Hash, mt.ReceiverAddress)
			}
			continue
		}
		if ok, why := svc.SameOrOnlyTipsDropped(before, after); !ok {
			r.Violate("C04", "accepted/service/"+m.class, fmt.Sprintf("a transaction altered by [%s] was handed to %s (answer: %v): the node's state changed: %s", m.desc, entry, cerr, why), nil)
			// take it out again so that later cases start clean
			rig.Cache.RemoveAwaitedTransaction(mt.Hash, mt.ReceiverAddress)
		}
	}
}

// c04Wire: altered vertices on the way they really arrive: as wire messages through the gossip service, whose own
// mapping stands between the message and the ledger's verification. The engine's mutants, and rewrites that only exist
// on the wire: the two parts of the amount shifted against each other by k whole units (currency - k, supplementary +
// k*10^18, with wrap-around), which denote the same value to anything that normalises amounts.
func c04Wire(w *core.WorkerCtx, rig *svc.Rig, rng *rand.Rand, foreign *ledger.Actor) {
	r := w.R
	ctx := context.Background()
	u := rig.Users
	offer := func(pv *protobufcompiled.Vertex, class, desc string) {
		before, err := rig.State(nil)
		if err != nil {
			return
		}
		rig.Flash.RemoveAddress(string(pv.Hash))
		w.Mark("c04 wire mutant %s", class)
		_, cerr := rig.Gossip.GossipVrx(ctx, &protobufcompiled.VrxMsgGossip{Vertex: pv})
		after, err := rig.State(nil)
		if err != nil {
			return
		}
		r.Eval(1)
		r.Count("c04_wire_mutants", 1)
		r.Nontriv(fmt.Sprintf("wire/%s/refused=%v", class, cerr != nil))
		if before.Snap.Digest() != after.Snap.Digest() {
			if ok, why := svc.SameOrOnlyTipsDropped(before, after); !ok {
				r.Violate("C04", "accepted/wire/"+class, fmt.Sprintf("a vertex altered by [%s] arrived as a wire message at the gossip service (answer: %v): the ledger changed: %s", desc, cerr, why), nil)
			}
		}
		for _, p := range mustParked(rig) {
			if bytes.Equal(p[:], pv.Hash) && class != "" {
				// (an altered copy must not wait in the orphan buffer either; the originals used here have known parents)
				r.Violate("C04", "parked/wire/"+class, fmt.Sprintf("a vertex altered by [%s] was parked for replay", desc), nil)
			}
		}
	}
	for bi := 0; bi < w.Pick(6, 40); bi++ {
		s, err := ledger.TakeSnap(rig.Book)
		if err != nil {
			return
		}
		var tip ledger.H
		var wgt uint64
		for h := range s.Leaves {
			if v, ok := s.Vertex(h); ok && v.Weight >= wgt {
				tip, wgt = h, v.Weight
			}
		}
		amt := []spice.Melange{{Currency: 3, SupplementaryCurrency: 7}, {SupplementaryCurrency: 5}, {Currency: 1}, {Currency: 2, SupplementaryCurrency: ledger.E18 - 1}}[bi%4]
		var data []byte
		if bi%3 == 1 {
			data = []byte("contract with spice")
		}
		bt := ledger.ForgeTrx(u[1+bi%2], u[3-bi%2].Addr, fmt.Sprintf("wire base %d", bi), data, amt, time.Now().Add(-time.Minute))
		ot := ledger.ForgeTrx(u[1+bi%2], u[0].Addr, fmt.Sprintf("wire other %d", bi), []byte("other"), spice.Melange{SupplementaryCurrency: 77}, time.Now().Add(-time.Minute))
		base := ledger.ForgeVertex(rig.PeerAct[0], bt, tip, tip, wgt+1, time.Now().Add(-time.Second))
		other := ledger.ForgeVertex(rig.PeerAct[1], ot, tip, tip, wgt+1, time.Now().Add(-time.Second))
		// amounts shifted across the seam, on the wire only
		for _, k := range []uint64{1, 2, 3, 9, 17, 18} {
			if amt.SupplementaryCurrency > ^uint64(0)-k*ledger.E18 {
				continue
			}
			pv := gossip.VerifVertexToProtoVertex(&base)
			pv.Transaction.Spice.Currency = amt.Currency - k // wraps below zero
			pv.Transaction.Spice.SupplementaryCurrency = amt.SupplementaryCurrency + k*ledger.E18
			offer(pv, fmt.Sprintf("amount-shifted-across-the-seam/k%d", k), fmt.Sprintf("currency - %d, supplementary + %d*10^18", k, k))
		}
		muts := c04Mutants(rng, &base, &other, foreign, false)
		for mi := 0; mi < len(muts) && mi < 400; mi += 1 + rng.Intn(9) {
			m := &muts[mi]
			if strings.HasPrefix(m.class, "boundary-shift") || m.class == "receiver-signature-stripped" {
				continue
			}
			offer(gossip.VerifVertexToProtoVertex(&m.v), m.class, m.desc)
		}
		// the original is fine
		pv := gossip.VerifVertexToProtoVertex(&base)
		rig.Flash.RemoveAddress(string(pv.Hash))
		if _, err := rig.Gossip.GossipVrx(ctx, &protobufcompiled.VrxMsgGossip{Vertex: pv}); err != nil {
			r.Note("c04 wire: the unaltered vertex was refused: " + err.Error())
		}
	}
}

// mustParked lists the hashes waiting in the orphan buffer of the rig's ledger.
func mustParked(rig *svc.Rig) []ledger.H {
	s, err := ledger.TakeSnap(rig.Book)
	if err != nil {
		return nil
	}
	var out []ledger.H
	for _, p := range s.Parked {
		out = append(out, p.Vertex.Hash)
	}
	return out
}

func c04Worker(w *core.WorkerCtx) {
	if w.Batch == 0 {
		c04Addresses(w)
	}
	if w.Batch == 1 || (w.Thorough() && w.Batch%8 == 1) {
		c04Service(w)
	}
	if w.Batch == 2 || (w.Thorough() && w.Batch%8 == 2) {
		// a fourth state of knowledge: the node verified the original and dropped it
		c09DroppedThenTampered(w, []string{"C04"})
	}
	rng := core.Rand(w.Seed, "C04", w.Batch)
	desc := fmt.Sprintf("c04 mutation engine seed=%d batch=%d", w.Seed, w.Batch)
	world := ledger.NewWorld(rng, w.R, []string{"C04"}, allSnapOracles, desc)
	defer world.Close()
	d, err := ledger.Setup(world, ledger.Profile{Nodes: 3, Users: 4, SupplyClass: []int{0, 3, 5}[w.Batch%3], Delivery: "lockstep", PBoundary: 0.3})
	if err != nil {
		w.R.Inconc("setup failed: " + err.Error())
		return
	}
	_ = d
	fresh, holder, parker := world.Nodes[0], world.Nodes[1], world.Nodes[2]
	u := world.Users
	foreign := ledger.NewActor("foreign")
	// a little valid history known to every node: every user gets an eighth of the supply, and the harness keeps
	// the books so that no base vertex overdraws (the supply classes near 2^64 are left out: inflow to the genesis
	// receiver would overflow its gross inflow, which the code refuses by design)
	fund := new(big.Int).Div(ledger.Val(ledger.SupplyClasses[[]int{0, 3, 5}[w.Batch%3]]), big.NewInt(8))
	left := map[string]*big.Int{}
	for i := 1; i < len(u); i++ {
		left[u[i].Addr] = new(big.Int).Set(fund)
	}
	afford := func(from *ledger.Actor, want spice.Melange) spice.Melange {
		l := left[from.Addr]
		wv := ledger.Val(want)
		if l.Cmp(wv) < 0 {
			wv = new(big.Int).Div(l, big.NewInt(2))
		}
		l.Sub(l, wv)
		return ledger.FromVal(wv)
	}
	var lastTip accountant.Vertex
	for i := 1; i < len(u); i++ {
		t := world.NewTrx(u[0], u[i].Addr, ledger.FromVal(fund), nil)
		v, err := world.Propose(fresh, &t, "fund")
		if err != nil {
			w.R.Inconc("funding failed")
			return
		}
		world.Deliver(holder, &v, "net")
		world.Deliver(parker, &v, "net")
		lastTip = v
	}
	bases := w.Pick(4, 24)
	kinds := []string{"spice", "contract", "countersigned", "equal-parents-boundary", "data+spice", "self-transfer"}
	for bi := 0; bi < bases; bi++ {
		kind := kinds[(bi+w.Batch)%len(kinds)]
		from, to := u[1+rng.Intn(len(u)-1)], u[rng.Intn(len(u))]
		for to == from && kind != "self-transfer" {
			to = u[rng.Intn(len(u))]
		}
		amt := spice.Melange{Currency: 0, SupplementaryCurrency: uint64(1 + rng.Intn(1000))}
		var data []byte
		switch kind {
		case "contract":
			amt = spice.Melange{}
			data = []byte(fmt.Sprintf("contract data %d", rng.Int63()))
		case "countersigned":
			data = []byte(fmt.Sprintf("countersigned contract %d", rng.Int63()))
		case "equal-parents-boundary":
			amt = spice.Melange{Currency: 1, SupplementaryCurrency: ledger.E18 - 1}
		case "data+spice":
			data = []byte{0, 1, 2, 0xff, 0xfe}
		case "self-transfer":
			to = from
		}
		amt = afford(from, amt)
		if amt.Currency == 0 && amt.SupplementaryCurrency == 0 && len(data) == 0 {
			data = []byte("out of funds")
		}
		if to != from {
			if l, ok := left[to.Addr]; ok {
				l.Add(l, ledger.Val(amt))
			}
		}
		t := world.NewTrx(from, to.Addr, amt, data)
		if kind == "countersigned" {
			ledger.CounterSign(&t, to)
		}
		sealer := world.Sealers[bi%2]
		// a parent unknown to the parker node yet, known to the other two
		pt := world.NewTrx(u[0], u[1].Addr, spice.Melange{SupplementaryCurrency: 1}, nil)
		parent := ledger.ForgeVertex(world.Sealers[(bi+1)%2], pt, lastTip.Hash, lastTip.Hash, lastTip.Weight+1, world.Now())
		if err := world.Deliver(fresh, &parent, "parent"); err != nil {
			w.R.Inconc("cannot extend the history: " + err.Error())
			return
		}
		world.Deliver(holder, &parent, "parent")
		base := ledger.ForgeVertex(sealer, t, parent.Hash, parent.Hash, parent.Weight+1, world.Now())
		ot := world.NewTrx(from, u[0].Addr, spice.Melange{SupplementaryCurrency: 77}, []byte("other"))
		other := ledger.ForgeVertex(world.Sealers[(bi+1)%2], ot, parent.Hash, parent.Hash, parent.Weight+1, world.Now())
		w.Mark("base %d kind %s", bi, kind)
		// the base vertex is valid: the holder admits it
		if err := world.Deliver(holder, &base, "original"); err != nil {
			w.R.Inconc(fmt.Sprintf("the unmutated %s vertex was refused: %v", kind, err))
			continue
		}
		// the parker sees the original before its parent (parked), then the parent
		perr := world.Deliver(parker, &base, "original before its parent")
		if !ledger.IsParked(perr) {
			w.R.Note(fmt.Sprintf("original was not parked on the parker node: %v", perr))
		}
		world.Deliver(parker, &parent, "parent")
		muts := c04Mutants(rng, &base, &other, foreign, w.Thorough())
		// alias addresses: the decoded form of an address with another version byte, re-encoded
		for fi, f := range []func(v *accountant.Vertex) *string{
			func(v *accountant.Vertex) *string { return &v.SignerPublicAddress },
			func(v *accountant.Vertex) *string { return &v.Transaction.IssuerAddress },
			func(v *accountant.Vertex) *string { return &v.Transaction.ReceiverAddress },
		} {
			mv := *ledger.CloneVertex(&base)
			fp := f(&mv)
			if raw, err := serializer.Base58Decode([]byte(*fp)); err == nil && len(raw) > 0 {
				raw[0] ^= byte(1 + rng.Intn(255))
				*fp = string(serializer.Base58Encode(raw))
				muts = append(muts, mutant{mv, fmt.Sprintf("address-alias/field%d", fi), "an address replaced by its re-encoding under another version byte"})
			}
		}
		w.R.Count("c04_base_vertices", 1)
		w.R.Count("c04_mutants", len(muts))
		for mi := range muts {
			m := &muts[mi]
			c04Offer(world, fresh, m, "knows the parents but never saw the original")
			c04Propose(world, fresh, m, &base, &other)
			c04Offer(world, holder, m, "already holds the original")
			c04Offer(world, parker, m, "has the original parked and its parent admitted")
		}
		// addresses replaced by the address of the very node the vertex is offered to
		for _, nd := range []*ledger.Node{fresh, holder, parker} {
			for vi, f := range []func(v *accountant.Vertex){
				func(v *accountant.Vertex) { v.SignerPublicAddress = nd.Actor.Addr },
				func(v *accountant.Vertex) { v.SignerPublicAddress = nd.Actor.Addr; v.Transaction.Spice.Currency += 5 },
				func(v *accountant.Vertex) { v.Transaction.IssuerAddress = nd.Actor.Addr },
				func(v *accountant.Vertex) { v.Transaction.ReceiverAddress = nd.Actor.Addr },
				func(v *accountant.Vertex) {
					// a fresh transaction hash too, so that no 'already known' shortcut applies
					v.SignerPublicAddress = nd.Actor.Addr
					v.Transaction.Subject += "!"
					v.Transaction.Hash[0] ^= 1
					v.Hash[0] ^= 1
				},
			} {
				mv := *ledger.CloneVertex(&base)
				f(&mv)
				m := mutant{mv, fmt.Sprintf("own-node-address/variant%d", vi), fmt.Sprintf("an address replaced by the receiving node's own address (variant %d)", vi)}
				c04Offer(world, nd, &m, "is named by the altered vertex")
			}
		}
		if bi == 0 && w.Batch == 0 {
			for i := 0; i < len(muts) && i < 400; i += 67 {
				w.R.Sample(8, map[string]any{"base_kind": kind, "mutation": muts[i].desc, "class": muts[i].class})
			}
		}
		// let the parked original in, the fresh node learns it too, and the history goes on from it
		for i := 0; i < 3; i++ {
			world.Retry(parker)
		}
		world.Deliver(fresh, &base, "original")
		lastTip = base
	}
	c04Sync(w, world, holder, rng, foreign)
}

// c04Sync: the third way in to a ledger. The holder's own DAG stream is offered to fresh nodes with one vertex altered
// (the same mutation engine), at the end of the stream, right before it, in the middle and near the start. Whatever
// the loader reports, the altered vertex must not be part of the node's ledger, and a node that reports itself
// loaded holds none.
func c04Sync(w *core.WorkerCtx, world *ledger.World, src *ledger.Node, rng *rand.Rand, foreign *ledger.Actor) {
	ctx, cancel := context.WithCancel(context.Background())
	var stream []*accountant.Vertex
	for v := range src.Book.StreamDAG(ctx) {
		stream = append(stream, ledger.CloneVertex(v))
	}
	cancel()
	if len(stream) < 6 {
		w.R.Note("c04 sync: the stream is too short")
		return
	}
	loads := w.Pick(14, 60)
	for li := 0; li < loads; li++ {
		pos := len(stream) - 1
		switch li % 7 {
		case 1, 4:
			pos = len(stream) - 2
		case 2:
			pos = len(stream) / 2
		case 5:
			pos = 1 + rng.Intn(len(stream)-1)
		}
		if pos < 1 {
			pos = 1
		}
		base := stream[pos]
		if base.Hash == world.Genesis.Hash {
			continue
		}
		other := stream[pos-1]
		muts := c04Mutants(rng, base, other, foreign, false)
		if len(muts) == 0 {
			continue
		}
		m := &muts[rng.Intn(len(muts))]
		if ledger.Fingerprint(&m.v) == ledger.Fingerprint(base) {
			continue
		}
		if strings.HasPrefix(m.class, "boundary-shift") || m.class == "receiver-signature-stripped" {
			continue // the two known findings about what verification itself accepts: judged on the gossip path
		}
		alt := make([]*accountant.Vertex, len(stream))
		copy(alt, stream)
		mv := m.v
		alt[pos] = &mv
		w.Mark("c04 sync load %d: position %d of %d, mutation %s", li, pos, len(stream), m.class)
		nd, loaded, cause := world.AddLoadedNode(fmt.Sprintf("c04-loaded-%d", li), alt, false)
		if nd == nil {
			w.R.Inconc("c04 sync: cannot create a node")
			return
		}
		s, err := ledger.TakeSnap(nd.Book)
		holds := false
		if err == nil {
			for _, l := range s.Live {
				if ledger.Fingerprint(&l.V) == ledger.Fingerprint(&mv) {
					holds = true
				}
			}
		}
		world.Logf("sync of a stream of %d vertices with vertex %d altered by [%s] => loaded=%v cause=%v holds-altered=%v", len(stream), pos, m.desc, loaded, cause, holds)
		world.EvalFor("C04", 1)
		world.NontrivFor("C04", fmt.Sprintf("sync/%s/from-end%d/loaded=%v", m.class, min(len(stream)-1-pos, 3), loaded))
		w.R.Count("c04_sync_loads", 1)
		if holds {
			world.Violate("C04", "accepted/sync/"+m.class, fmt.Sprintf("a stream of %d vertices whose vertex %d was altered by [%s] was offered to a joining node (reports loaded=%v): the altered vertex is in its ledger", len(stream), pos, m.desc, loaded))
		}
		world.CloseNode(nd)
	}
}

// c04Addresses: wallet addresses are self-checking.
func c04Addresses(w *core.WorkerCtx) {
	rng := core.Rand(w.Seed, "C04addr")
	h := wallet.NewVerifier()
	const alphabet = "123456789ABCDEFGHJKLMNPQRSTUVWXYZabcdefghijkmnopqrstuvwxyz"
	n := w.Pick(6, 60)
	for i := 0; i < n; i++ {
		a := ledger.NewActor("a")
		addr := a.Addr
		key, err := h.AddressToPubKey(addr)
		if err != nil || !bytes.Equal(key, a.W.Public) {
			w.R.Violate("C04", "address/own-address-does-not-resolve", fmt.Sprintf("address %s resolves to err=%v", addr, err), nil)
			continue
		}
		check := func(class, mutated string) {
			if mutated == addr {
				return
			}
			w.R.Eval(1)
			w.R.Nontriv("address/" + class)
			k, err := func() (k []byte, err error) {
				defer func() {
					if p := recover(); p != nil {
						err = fmt.Errorf("panic: %v", p)
					}
				}()
				kk, e := h.AddressToPubKey(mutated)
				return kk, e
			}()
			if err == nil && !bytes.Equal(k, a.W.Public) {
				w.R.Violate("C04", "address/corrupted-address-resolves-to-another-key/"+class, fmt.Sprintf("address %s corrupted to %s (%s) resolves to a different key", addr, mutated, class), nil)
			} else if err == nil {
				// "a corrupted address is rejected": a different string must not be taken for the wallet's address
				w.R.Violate("C04", "address/corrupted-address-accepted/"+class, fmt.Sprintf("address %s corrupted to %s (%s) is accepted and resolves to the key of the original", addr, mutated, class), nil)
			}
			w.R.Count("c04_address_mutants", 1)
		}
		// mutations of the decoded form (version byte, key bytes, checksum bytes), re-encoded
		if raw, err := serializer.Base58Decode([]byte(addr)); err == nil {
			for p := 0; p < len(raw); p++ {
				bits := []uint{uint(rng.Intn(8))}
				if p == 0 || p >= len(raw)-4 || w.Thorough() {
					bits = []uint{0, 1, 2, 3, 4, 5, 6, 7}
				}
				for _, bit := range bits {
					m := append([]byte{}, raw...)
					m[p] ^= 1 << bit
					cls := "decoded-key-byte-flip"
					if p == 0 {
						cls = "decoded-version-byte-flip"
					} else if p >= len(raw)-4 {
						cls = "decoded-checksum-byte-flip"
					}
					check(cls, string(serializer.Base58Encode(m)))
				}
			}
			for _, v := range []byte{1, 2, 0x7f, 0x80, 0xff} {
				m := append([]byte{}, raw...)
				m[0] = v
				check("decoded-version-byte-replaced", string(serializer.Base58Encode(m)))
			}
			check("decoded-byte-appended", string(serializer.Base58Encode(append(append([]byte{}, raw...), 0))))
			check("decoded-byte-prepended", string(serializer.Base58Encode(append([]byte{0}, raw...))))
		}
		positions := rng.Perm(len(addr))
		if !w.Thorough() && len(positions) > 12 {
			positions = positions[:12]
		}
		for _, p := range positions {
			for _, c := range alphabet {
				check("substitution", addr[:p]+string(c)+addr[p+1:])
			}
			if p+1 < len(addr) {
				b := []byte(addr)
				b[p], b[p+1] = b[p+1], b[p]
				check("transposition", string(b))
			}
			b := []byte(addr)
			if b[p] >= 'a' && b[p] <= 'z' {
				b[p] -= 32
			} else if b[p] >= 'A' && b[p] <= 'Z' {
				b[p] += 32
			}
			check("case-change", string(b))
			check("deletion", addr[:p]+addr[p+1:])
			check("insertion", addr[:p]+string(alphabet[rng.Intn(len(alphabet))])+addr[p:])
		}
		check("leading-1-inserted", "1"+addr)
		if addr[0] == '1' {
			check("leading-1-removed", addr[1:])
		}
		check("truncated", addr[:len(addr)-1])
		check("empty", "")
		check("non-base58", addr[:5]+"0OIl"+addr[9:])
		if i == 0 {
			w.R.Sample(9, map[string]any{"address": addr, "mutations": "every base58 substitution, transposition, case change, deletion, insertion at sampled positions; leading-1 insert/remove"})
		}
	}
}

func init() {
	core.Register(&core.Check{
		Spec: core.Spec{
			Prop:        "C04",
			Rule:        "Mutation engine over valid base vertices (spice, contract, countersigned, boundary amount, data+spice, self transfer; re-created on a growing history). Mutations: 1/2/k bit flips, byte replacement, zeroing, truncation/extension/emptying of every byte-valued field; +-1..2^63 and bit flips on weight, both timestamps and both amount parts; bytes moved across subject|data, data|issuer, issuer|receiver boundaries; every field swapped with another valid vertex; signatures/addresses of a foreign wallet (wrong key over the right message, right key over another message); receiver signature stripped, replaced, forged, added. Identity mutations are discarded. Every mutant is offered through AddLeaf to three nodes: one that knows the parents but never saw the original, one that holds the original, one that has the original parked behind its parent: it must be refused, leave the ledger digest unchanged and not be parked. Addresses: every base58 substitution, transposition, case change, deletion, insertion at sampled positions, leading-1 insertion/removal, and every bit flip / replacement of the decoded version, key and checksum bytes re-encoded, must fail to resolve (a corrupted address is rejected, not taken for the original); vertices carrying such an alias as sealer, issuer or receiver are mutants like any other. Non-trivial = every mutant; distinct by (field, mutation kind, node state). Sync path: the holder's own DAG stream with one vertex altered by the same engine (last, last but one, middle, PRNG position) is loaded in to fresh nodes; whatever the loader reports, the altered vertex must not be in the ledger. Service level: the engine's transaction mutants through gossip.GossipTrx and notary.Propose of a whole node (each mutant on a base transaction of its own, because repeated hashes are answered by the duplicate suppression): ledger and awaiting lists must not change; fixed cases: a transfer and an awaiting contract with a junk receiver signature (through Propose, GossipTrx, Reject) - every vertex the node seals itself must pass its own vertex verification. Wire level: the engine's mutants and rewrites that exist only on the wire (the two amount fields shifted against each other by k whole units, with wrap-around) arrive as messages at the gossip service of a whole node; the ledger must not change and nothing altered may be parked. Confirm of an awaiting contract with the receiver's signature stripped (absent, empty, one zero byte) must be refused. A fourth state of knowledge: the node verified the original, admitted it as a tentative tip and dropped it; altered copies under the genuine hash and signatures must be refused all the same. Harness clock aligned to microseconds so that sub-microsecond moves of the transaction time stay judged. The transaction of every mutant with an altered transaction is also handed to the ledger's own sealing entry (CreateLeaf).",
			Assumptions: []string{"ed25519 and sha256 are not broken; a vertex completely re-sealed by another node is a new vertex, not a mutation", ledgerAssume},
			MinEvals:    3000, MinNontriv: 100,
		},
		Plan:   ledgerPlan(8, 28),
		Worker: c04Worker,
	})
}
