package checks

import (
	"context"
	"fmt"
	"math/rand"
	"sort"
	"strings"
	"sync"
	"time"

	"github.com/bartossh/Computantis/src/protobufcompiled"
	"github.com/bartossh/Computantis/src/spice"
	"github.com/bartossh/Computantis/src/transformers"

	"verifharness/core"
	"verifharness/ledger"
	"verifharness/svc"
)

// C16 — contracts need the receiver; reads need proof of key ownership.

type c16trx struct {
	p        *protobufcompiled.Transaction // issuer-signed wire form
	issuer   *ledger.Actor
	receiver *ledger.Actor
	contract bool
	hash     ledger.H
}

type c16model struct {
	awaiting   map[ledger.H]*c16trx
	unsure     map[ledger.H]bool // awaiting state not determined by the model after an admissible failure
	authorised map[ledger.H]bool // a Confirm with a verifying receiver signature or a Reject signed by the receiver was issued
	known      map[ledger.H]*c16trx
	challenge  map[string][]byte // latest challenge per address
	issuedAt   map[string]time.Time
}

type c16env struct {
	w    *core.WorkerCtx
	rig  *svc.Rig
	rng  *rand.Rand
	m    *c16model
	ctx  context.Context
	seq  int
	log  []string
	desc string
	// rejSeq counts the dishonest Reject calls (every second one uses a receiver signature made for another purpose)
	rejSeq int
}

func (e *c16env) logf(f string, a ...any) {
	if len(e.log) < 400 {
		e.log = append(e.log, fmt.Sprintf(f, a...))
	}
}

func (e *c16env) violate(sig, detail string) {
	l := e.log
	if len(l) > 50 {
		l = l[len(l)-50:]
	}
	e.w.R.Violate("C16", sig, detail, map[string]any{"sequence": e.desc, "calls": append([]string{}, l...)})
}

func (e *c16env) users() []*ledger.Actor { return e.rig.Users }

func (e *c16env) newTrx(contract bool) *c16trx {
	e.seq++
	u := e.users()
	from := u[e.rng.Intn(len(u)-1)] // the last user is the dishonest one and holds nothing
	to := u[e.rng.Intn(len(u)-1)]
	for to == from {
		to = u[e.rng.Intn(len(u)-1)]
	}
	sp := spice.Melange{SupplementaryCurrency: uint64(1 + e.rng.Intn(1000))}
	var data []byte
	if contract {
		data = []byte(fmt.Sprintf("contract %d-%d", e.w.Batch, e.seq))
		if e.rng.Intn(2) == 0 {
			sp = spice.Melange{}
		}
		if e.seq%5 == 3 {
			// data is data, whatever it reads like: a line end, blanks and tabs, a single zero byte (with spice: there is
			// something to seal either way)
			data = [][]byte{[]byte("\n"), []byte(" \t\r\n "), {0}, []byte(" ")}[(e.seq/5)%4]
			sp = spice.Melange{SupplementaryCurrency: uint64(1 + e.seq%100)}
		}
	}
	t := ledger.ForgeTrx(from, to.Addr, fmt.Sprintf("s%d", e.seq), data, sp, time.Now().Add(-time.Minute).Add(time.Duration(e.seq)*time.Microsecond))
	p, _ := transformers.TrxToProtoTrx(t)
	ct := &c16trx{p: p, issuer: from, receiver: to, contract: contract, hash: t.Hash}
	e.m.known[t.Hash] = ct
	return ct
}

// state digest of ledger and awaiting listings (for "invalid requests change nothing")
func (e *c16env) state() *svc.State {
	var addrs []string
	for _, u := range e.users() {
		addrs = append(addrs, u.Addr)
	}
	s, _ := e.rig.State(addrs)
	return s
}

// afterCall runs the oracles that hold after every call.
func (e *c16env) afterCall() {
	s, err := ledger.TakeSnap(e.rig.Book)
	if err != nil {
		return
	}
	e.w.R.Eval(1)
	seen := map[ledger.H]int{}
	for _, l := range s.Live {
		t := l.V.Transaction
		seen[t.Hash]++
		if len(t.Data) > 0 && l.V.Hash != e.rig.Genesis.Hash {
			if !e.m.authorised[t.Hash] {
				e.violate("contract-sealed-without-receiver", fmt.Sprintf("transaction %s carries data and is in the ledger although no Confirm with a valid receiver signature and no Reject signed by the receiver was ever issued for it", ledger.Hex(t.Hash)))
			}
		}
	}
	for h, c := range seen {
		if c > 1 {
			e.violate("sealed-more-than-once", fmt.Sprintf("transaction %s is sealed in %d vertices", ledger.Hex(h), c))
		}
	}
}

func (e *c16env) waitingList(a *ledger.Actor) ([]string, error) {
	e.rig.Flash.RemoveAddress(a.Addr)
	blob, err := e.rig.Notary.Data(e.ctx, &protobufcompiled.Address{Public: a.Addr})
	if err != nil {
		return nil, err
	}
	e.m.challenge[a.Addr] = blob.Blob
	e.m.issuedAt[a.Addr] = time.Now()
	res, err := e.rig.Notary.Waiting(e.ctx, svc.Sign(a, blob.Blob))
	if err != nil {
		return nil, err
	}
	var hs []string
	for _, t := range res.Array {
		hs = append(hs, fmt.Sprintf("%x", t.Hash))
	}
	sort.Strings(hs)
	return hs, nil
}

// checkWaiting compares the Waiting answer of every honest user with the model.
func (e *c16env) checkWaiting() {
	for _, a := range e.users() {
		got, err := e.waitingList(a)
		var want []string
		unsure := false
		for h, t := range e.m.awaiting {
			if t.issuer == a || t.receiver == a {
				if e.m.unsure[h] {
					unsure = true
				}
				want = append(want, ledger.HexFull(h))
			}
		}
		for h := range e.m.unsure {
			if t := e.m.known[h]; t != nil && (t.issuer == a || t.receiver == a) {
				unsure = true
			}
		}
		sort.Strings(want)
		e.w.R.Eval(1)
		if err != nil {
			if len(want) > 0 && !unsure && !strings.Contains(err.Error(), "thrott") {
				e.violate("waiting-list-differs", fmt.Sprintf("Waiting for %s with a valid signed challenge returned %v, the model holds %d awaiting transactions", a.Name, err, len(want)))
			}
			continue
		}
		if !unsure && strings.Join(got, ",") != strings.Join(want, ",") {
			e.violate("waiting-list-differs", fmt.Sprintf("Waiting for %s lists %d transactions, the model (saved and neither confirmed nor rejected) holds %d", a.Name, len(got), len(want)))
		}
	}
}

// resync adopts the node's awaiting state for transactions whose fate the model could not determine.
func (e *c16env) resync() {
	for h := range e.m.unsure {
		t := e.m.known[h]
		if t == nil {
			continue
		}
		got, err := e.waitingList(t.receiver)
		present := false
		if err == nil {
			for _, x := range got {
				if x == ledger.HexFull(h) {
					present = true
				}
			}
		}
		if present {
			e.m.awaiting[h] = t
		} else {
			delete(e.m.awaiting, h)
		}
	}
	e.m.unsure = map[ledger.H]bool{}
}

// step performs one client call (honest or dishonest) and judges it.
func (e *c16env) step() {
	r := e.rng
	u := e.users()
	dishonest := u[len(u)-1]
	var pending []*c16trx
	for _, t := range e.m.awaiting {
		pending = append(pending, t)
	}
	sort.Slice(pending, func(i, j int) bool { return string(pending[i].hash[:]) < string(pending[j].hash[:]) })
	kind := r.Intn(16)
	e.w.R.Count("c16_calls", 1)
	expectInvalid := func(name string, f func() error) {
		before := e.state()
		err := f()
		after := e.state()
		e.logf("%s (invalid signature) => %v", name, err)
		e.w.R.Nontriv("invalid/" + name)
		if err == nil {
			e.violate("invalid-signature-accepted/"+name, name+" with a signature the harness knows to be invalid returned success")
		}
		if before != nil && after != nil {
			if ok, why := svc.SameOrOnlyTipsDropped(before, after); !ok {
				e.violate("invalid-request-changed-state/"+name, fmt.Sprintf("%s with an invalid signature changed the node: %s", name, why))
			}
		}
	}
	switch {
	case kind < 3: // honest proposal
		t := e.newTrx(kind != 0)
		_, err := e.rig.Notary.Propose(e.ctx, t.p)
		e.logf("Propose %s contract=%v %s->%s => %v", ledger.Hex(t.hash), t.contract, t.issuer.Name, t.receiver.Name, err)
		if err == nil && t.contract {
			e.m.awaiting[t.hash] = t
		}
		if err != nil && t.contract {
			e.violate("valid-contract-proposal-refused", fmt.Sprintf("a correctly signed contract proposal was refused: %v", err))
		}
		e.w.R.Nontriv(fmt.Sprintf("propose/contract=%v/ok=%v", t.contract, err == nil))
	case kind == 3 && len(pending) > 0: // the same proposal again while it is awaited
		t := pending[r.Intn(len(pending))]
		_, err := e.rig.Notary.Propose(e.ctx, t.p)
		e.logf("Propose again %s (awaiting) => %v", ledger.Hex(t.hash), err)
		e.w.R.Nontriv(fmt.Sprintf("propose-again/ok=%v", err == nil))
	case kind == 4 || kind == 5: // honest confirm
		if len(pending) == 0 {
			return
		}
		t := pending[r.Intn(len(pending))]
		tt, _ := transformers.ProtoTrxToTrx(t.p)
		ledger.CounterSign(&tt, t.receiver)
		p, _ := transformers.TrxToProtoTrx(tt)
		e.m.authorised[t.hash] = true
		_, err := e.rig.Notary.Confirm(e.ctx, p)
		e.logf("Confirm %s by receiver %s => %v", ledger.Hex(t.hash), t.receiver.Name, err)
		if err == nil {
			delete(e.m.awaiting, t.hash)
		} else {
			e.m.unsure[t.hash] = true // the entry is taken off before sealing; a ledger-level failure leaves it gone
		}
		e.w.R.Nontriv(fmt.Sprintf("confirm/ok=%v", err == nil))
	case kind == 6: // honest reject
		if len(pending) == 0 {
			return
		}
		t := pending[r.Intn(len(pending))]
		e.m.authorised[t.hash] = true
		_, err := e.rig.Notary.Reject(e.ctx, svc.Sign(t.receiver, t.hash[:]))
		e.logf("Reject %s by receiver %s => %v", ledger.Hex(t.hash), t.receiver.Name, err)
		if err == nil {
			delete(e.m.awaiting, t.hash)
		} else {
			e.m.unsure[t.hash] = true
		}
		e.w.R.Nontriv(fmt.Sprintf("reject/ok=%v", err == nil))
	case kind == 7: // dishonest confirm: signed by somebody who is not the receiver, or receiver signature over other content
		if len(pending) == 0 {
			return
		}
		t := pending[r.Intn(len(pending))]
		tt, _ := transformers.ProtoTrxToTrx(t.p)
		variant := r.Intn(7)
		switch variant {
		case 4: // the proposal replayed as it is: no receiver signature at all
			tt.ReceiverSignature = nil
		case 5: // an empty, non-nil signature
			tt.ReceiverSignature = []byte{}
		case 6: // a single byte
			tt.ReceiverSignature = []byte{0}
		case 0:
			ledger.CounterSign(&tt, dishonest)
		case 1:
			ledger.CounterSign(&tt, t.issuer)
			if t.issuer == t.receiver {
				return
			}
		case 2:
			other := tt
			other.Subject += "x"
			ledger.CounterSign(&other, t.receiver)
			tt.ReceiverSignature = other.ReceiverSignature
		default:
			tt.ReceiverSignature = tt.IssuerSignature
			if t.issuer == t.receiver {
				return
			}
		}
		p, _ := transformers.TrxToProtoTrx(tt)
		expectInvalid(fmt.Sprintf("Confirm/variant%d", variant), func() error { _, err := e.rig.Notary.Confirm(e.ctx, p); return err })
	case kind == 8: // dishonest reject: signed by a wallet that is not the receiver (its own valid signature), or broken signature
		if len(pending) == 0 {
			return
		}
		t := pending[r.Intn(len(pending))]
		variant := r.Intn(3)
		var req *protobufcompiled.SignedHash
		switch variant {
		case 0:
			req = svc.Sign(dishonest, t.hash[:])
		case 1:
			if t.issuer == t.receiver {
				return
			}
			req = svc.Sign(t.issuer, t.hash[:])
		default:
			req = svc.Sign(dishonest, t.hash[:])
			req.Address = t.receiver.Addr // cross wired: receiver's address, stranger's signature
		}
		e.rejSeq++
		if e.rejSeq%2 == 0 {
			// a signature the receiver really made, for another purpose: over a message that begins with the contract's
			// hash (its counter-signature of another transaction whose subject starts with those bytes), or over a
			// truncated hash. It authorises nothing about this contract.
			variant = 3 + (e.rejSeq/2+1)%2
			if variant == 3 {
				req = svc.Sign(t.receiver, append(append([]byte{}, t.hash[:]...), []byte(" and the rest of another message the receiver signed")...))
			} else {
				req = svc.Sign(t.receiver, t.hash[:31])
			}
		}
		expectInvalid(fmt.Sprintf("Reject/variant%d", variant), func() error { _, err := e.rig.Notary.Reject(e.ctx, req); return err })
	case kind == 9: // dishonest proposal: signature by another key, or content changed after signing
		t := e.newTrx(r.Intn(2) == 0)
		variant := r.Intn(3)
		p := proto16Clone(t.p)
		switch variant {
		case 0:
			ft := ledger.ForgeTrx(dishonest, t.receiver.Addr, p.Subject, p.Data, spice.Melange{Currency: p.Spice.Currency, SupplementaryCurrency: p.Spice.SupplementaryCurrency}, time.Unix(0, int64(p.CreatedAt)))
			p.IssuerSignature = ft.IssuerSignature // dishonest key over the right fields except the issuer
		case 1:
			p.Spice.Currency += 1000
		default:
			p.ReceiverAddress = dishonest.Addr
		}
		expectInvalid(fmt.Sprintf("Propose/variant%d", variant), func() error { _, err := e.rig.Notary.Propose(e.ctx, p); return err })
	case kind == 10: // read attempts without proof of key ownership
		victim := u[r.Intn(len(u)-1)]
		e.rig.Flash.RemoveAddress(victim.Addr)
		variant := r.Intn(8)
		var req *protobufcompiled.SignedHash
		rpc := []string{"Waiting", "TransactionsInDAG", "Balance"}[r.Intn(3)]
		blob, _ := e.rig.Notary.Data(e.ctx, &protobufcompiled.Address{Public: victim.Addr})
		e.m.challenge[victim.Addr] = blob.Blob
		switch variant {
		case 0: // the victim's challenge signed by the attacker, claiming the victim's address
			req = svc.Sign(dishonest, blob.Blob)
			req.Address = victim.Addr
		case 1: // the attacker's own challenge presented for the victim's address
			own, _ := e.rig.Notary.Data(e.ctx, &protobufcompiled.Address{Public: dishonest.Addr})
			req = svc.Sign(dishonest, own.Blob)
			req.Address = victim.Addr
		case 2: // a stale challenge: valid signature of the victim over a challenge that has been re-issued since
			old := blob.Blob
			e.rig.Notary.Data(e.ctx, &protobufcompiled.Address{Public: victim.Addr})
			req = svc.Sign(victim, old)
			if rpc == "Balance" {
				return
			}
		case 3: // never issued data
			junk := make([]byte, 128)
			r.Read(junk)
			req = svc.Sign(victim, junk)
			if rpc == "Balance" {
				return
			}
		case 6: // the victim's own (replayable, never expiring) balance proof - its signature over its address - sent to
			// an endpoint that demands a signed challenge
			if rpc == "Balance" {
				rpc = "TransactionsInDAG"
			}
			req = svc.Sign(victim, []byte(victim.Addr))
		case 7: // a challenge signed for one read endpoint is single use for... no: the victim's signature over the
			// challenge issued to ANOTHER address (cross-wired)
			own, _ := e.rig.Notary.Data(e.ctx, &protobufcompiled.Address{Public: dishonest.Addr})
			req = svc.Sign(victim, own.Blob)
			if rpc == "Balance" {
				return
			}
		case 4: // balance of the victim asked with the attacker's signature over the victim's address
			rpc = "Balance"
			req = svc.Sign(dishonest, []byte(victim.Addr))
			req.Address = victim.Addr
		default: // balance: the attacker's valid signature over its own address, address field swapped
			rpc = "Balance"
			req = svc.Sign(dishonest, []byte(dishonest.Addr))
			req.Address = victim.Addr
		}
		var err error
		var got any
		switch rpc {
		case "Waiting":
			got, err = e.rig.Notary.Waiting(e.ctx, req)
		case "TransactionsInDAG":
			got, err = e.rig.Notary.TransactionsInDAG(e.ctx, req)
		default:
			got, err = e.rig.Notary.Balance(e.ctx, req)
		}
		e.logf("%s for %s by an unauthorised caller (variant %d) => %v", rpc, victim.Name, variant, err)
		e.w.R.Nontriv(fmt.Sprintf("unauthorised-read/%s/variant%d", rpc, variant))
		if err == nil {
			e.violate(fmt.Sprintf("read-without-key-ownership/%s/variant%d", rpc, variant), fmt.Sprintf("%s returned data (%T) for address %s to a caller that did not sign a current challenge of that address with its key", rpc, got, victim.Name))
		}
	case kind == 11: // honest reads
		a := u[r.Intn(len(u)-1)]
		e.rig.Flash.RemoveAddress(a.Addr)
		_, err := e.rig.Notary.Balance(e.ctx, svc.Sign(a, []byte(a.Addr)))
		e.logf("Balance of %s with its own key => %v", a.Name, err)
		e.rig.Flash.RemoveAddress(a.Addr)
		blob, _ := e.rig.Notary.Data(e.ctx, &protobufcompiled.Address{Public: a.Addr})
		_, err2 := e.rig.Notary.TransactionsInDAG(e.ctx, svc.Sign(a, blob.Blob))
		e.logf("TransactionsInDAG of %s with a signed current challenge => %v", a.Name, err2)
		if err2 != nil && !strings.Contains(err2.Error(), "thrott") {
			e.violate("authorised-read-refused/TransactionsInDAG", fmt.Sprintf("a correctly authorised history read was refused: %v", err2))
		}
		e.w.R.Nontriv("authorised-read")
	case kind == 12: // saved lookup
		var hs []ledger.H
		for h := range e.m.known {
			hs = append(hs, h)
		}
		if len(hs) == 0 {
			return
		}
		sort.Slice(hs, func(i, j int) bool { return string(hs[i][:]) < string(hs[j][:]) })
		h := hs[r.Intn(len(hs))]
		a := u[r.Intn(len(u)-1)]
		_, err := e.rig.Notary.Saved(e.ctx, svc.Sign(a, h[:]))
		e.logf("Saved %s => %v", ledger.Hex(h), err)
	default:
		e.checkWaiting()
	}
	e.afterCall()
}

func proto16Clone(p *protobufcompiled.Transaction) *protobufcompiled.Transaction {
	var sp *protobufcompiled.Spice
	if p.Spice != nil {
		sp = &protobufcompiled.Spice{Currency: p.Spice.Currency, SupplementaryCurrency: p.Spice.SupplementaryCurrency}
	}
	return &protobufcompiled.Transaction{Subject: p.Subject, Data: append([]byte{}, p.Data...), Hash: append([]byte{}, p.Hash...), CreatedAt: p.CreatedAt,
		ReceiverAddress: p.ReceiverAddress, IssuerAddress: p.IssuerAddress, ReceiverSignature: append([]byte{}, p.ReceiverSignature...),
		IssuerSignature: append([]byte{}, p.IssuerSignature...), Spice: sp}
}

// concurrent duplicates: k goroutines confirm / reject / propose the same transaction from a barrier
func (e *c16env) concurrent() {
	t := e.newTrx(true)
	if _, err := e.rig.Notary.Propose(e.ctx, t.p); err != nil {
		return
	}
	e.m.awaiting[t.hash] = t
	e.m.authorised[t.hash] = true
	tt, _ := transformers.ProtoTrxToTrx(t.p)
	ledger.CounterSign(&tt, t.receiver)
	cp, _ := transformers.TrxToProtoTrx(tt)
	k := 2 + e.rng.Intn(7)
	errs := make([]error, k)
	kinds := make([]string, k)
	var wg sync.WaitGroup
	start := make(chan struct{})
	for i := 0; i < k; i++ {
		wg.Add(1)
		kinds[i] = []string{"confirm", "confirm", "reject", "propose"}[e.rng.Intn(4)]
		go func(i int) {
			defer wg.Done()
			<-start
			switch kinds[i] {
			case "confirm":
				_, errs[i] = e.rig.Notary.Confirm(e.ctx, proto16Clone(cp))
			case "reject":
				_, errs[i] = e.rig.Notary.Reject(e.ctx, svc.Sign(t.receiver, t.hash[:]))
			default:
				_, errs[i] = e.rig.Notary.Propose(e.ctx, proto16Clone(t.p))
			}
		}(i)
	}
	close(start)
	wg.Wait()
	oks := 0
	for i := range errs {
		if errs[i] == nil && kinds[i] != "propose" {
			oks++
		}
	}
	e.logf("concurrent block on %s: %v => %d sealing calls succeeded", ledger.Hex(t.hash), kinds, oks)
	e.w.R.Count("c16_concurrent_blocks", 1)
	e.w.R.Nontriv(fmt.Sprintf("concurrent/k%d/oks%d", k, oks))
	if oks > 1 {
		e.violate("sealed-more-than-once/concurrent-success", fmt.Sprintf("%d concurrent confirm/reject calls of one transaction reported success", oks))
	}
	e.m.unsure[t.hash] = true
	time.Sleep(2 * time.Millisecond)
	e.afterCall()
	e.resync()
}

func c16Worker(w *core.WorkerCtx) {
	rng := core.Rand(w.Seed, "C16", w.Batch)
	seqs := w.Pick(12, 200)
	for si := 0; si < seqs; si++ {
		rig, err := svc.New(5, 60, 2048)
		if err != nil {
			w.R.Inconc("cannot build the node: " + err.Error())
			return
		}
		e := &c16env{w: w, rig: rig, rng: rng, ctx: context.Background(), desc: fmt.Sprintf("c16 sequence %d batch %d seed %d", si, w.Batch, w.Seed),
			m: &c16model{awaiting: map[ledger.H]*c16trx{}, unsure: map[ledger.H]bool{}, authorised: map[ledger.H]bool{}, known: map[ledger.H]*c16trx{}, challenge: map[string][]byte{}, issuedAt: map[string]time.Time{}}}
		w.Mark("%s", e.desc)
		// fund the honest users
		for i := 1; i < 4; i++ {
			t := ledger.ForgeTrx(rig.Users[0], rig.Users[i].Addr, fmt.Sprintf("fund %d", i), nil, spice.Melange{Currency: 1000}, time.Now().Add(-time.Minute))
			p, _ := transformers.TrxToProtoTrx(t)
			rig.Notary.Propose(e.ctx, p)
		}
		n := 20 + rng.Intn(60)
		for i := 0; i < n; i++ {
			e.step()
			if len(e.m.unsure) > 0 {
				e.resync()
			}
			if i%15 == 14 {
				e.concurrent()
			}
		}
		e.checkWaiting()
		e.afterCall()
		w.R.Count("c16_sequences", 1)
		if si == 0 && w.Batch == 0 {
			l := e.log
			if len(l) > 14 {
				l = l[:14]
			}
			w.R.Sample(3, map[string]any{"sequence": e.desc, "first_calls": l})
		}
		rig.Close()
	}
	if w.Batch == 0 {
		c16Expired(w)
	}
}

// c16Expired: a challenge signed correctly but presented after its longevity (1 s) must be refused.
// Only the safe direction depends on the clock: the harness sleeps longer than the longevity.
func c16Expired(w *core.WorkerCtx) {
	rig, err := svc.New(3, 1, 2048)
	if err != nil {
		return
	}
	defer rig.Close()
	ctx := context.Background()
	a := rig.Users[1]
	blob, err := rig.Notary.Data(ctx, &protobufcompiled.Address{Public: a.Addr})
	if err != nil {
		return
	}
	req := svc.Sign(a, blob.Blob)
	if _, err := rig.Notary.Waiting(ctx, req); err != nil && !strings.Contains(err.Error(), "no") && !strings.Contains(err.Error(), "process") {
		w.R.Note("fresh challenge refused: " + err.Error())
	}
	time.Sleep(1300 * time.Millisecond)
	for _, rpc := range []string{"Waiting", "TransactionsInDAG"} {
		rig.Flash.RemoveAddress(a.Addr)
		var err error
		if rpc == "Waiting" {
			_, err = rig.Notary.Waiting(ctx, req)
		} else {
			_, err = rig.Notary.TransactionsInDAG(ctx, req)
		}
		w.R.Eval(1)
		w.R.Nontriv("expired-challenge/" + rpc)
		if err == nil {
			w.R.Violate("C16", "read-without-key-ownership/"+rpc+"/expired-challenge", rpc+" accepted a challenge 1.3 s after it was issued with a longevity of 1 s", nil)
		}
	}
}

func init() {
	core.Register(&core.Check{
		Spec: core.Spec{
			Prop:        "C16",
			Rule:        "PRNG call sequences (20-80 calls plus a barrier-started concurrent block every 15 calls) by 4 honest clients and one dishonest client against the real notary handlers on a real node, with a reference state machine kept by the harness (awaiting set, receiver authorisations issued, latest challenge per address). Calls: honest propose (spice / contract), repeated proposal of an awaited contract, confirm with a verifying receiver signature, reject signed by the receiver, dishonest confirm (stranger's / issuer's signature, receiver's signature over other content, issuer signature copied), dishonest reject (stranger, issuer, cross-wired address), dishonest propose (wrong key, content changed after signing), reads without key ownership (victim's challenge signed by the attacker, attacker's challenge for the victim's address, re-issued / never issued / expired challenge, balance with a foreign signature or swapped address), honest reads. After every call: every data-carrying transaction in the ledger snapshot has a receiver authorisation issued before; no transaction in two vertices; a call with a signature known to be invalid returns an error and leaves ledger and awaiting listings unchanged (dropping an invalid tentative tip is the one tolerated change); unauthorised reads return no data; Waiting answers equal the model's awaiting set per address; at most one of several concurrent confirm/reject calls of one transaction succeeds. Ledger-level refusals are always admissible (validator style). Non-trivial = every call; distinct by (call kind, variant, outcome). Dishonest Confirm variants include an absent, an empty and a one byte receiver signature. Awaiting entries are compared by hash and content (a refused request must not alter a stored contract, e.g. attach a signature to it). Dishonest Reject also with a genuine receiver signature made for another purpose: over the hash followed by other text, over a truncated hash. Contracts whose data are blank bytes, with spice.",
			Assumptions: []string{"expiry is only tested in the safe direction (the harness outwaits a 1 s longevity by 0.3 s)", "the read throttle is cleared by the harness before reads; a throttle error is always admissible"},
			MinEvals:    300, MinNontriv: 25,
		},
		Plan: func(tier string) core.Plan {
			if tier == "thorough" {
				return core.Plan{Batches: 12, Parallel: 12, Timeout: 60 * time.Minute}
			}
			return core.Plan{Batches: 4, Parallel: 4, Timeout: 10 * time.Minute}
		},
		Worker: c16Worker,
	})
}
