package checks

import (
	"errors"
	"fmt"
	"time"

	"github.com/bartossh/Computantis/src/accountant"
	"github.com/bartossh/Computantis/src/spice"
	"github.com/bartossh/Computantis/src/transaction"

	"verifharness/core"
	"verifharness/ledger"
)

// c03Concurrent: micro-histories in which the same transaction or vertex is offered concurrently through
// the same and different entry points, with the window between the pre-lock checks and the locked insert widened.
func c03Concurrent(w *core.WorkerCtx) {
	rounds := w.Pick(3, 12)
	for round := 0; round < rounds; round++ {
		rng := core.Rand(w.Seed, "C03c", w.Batch, round)
		desc := fmt.Sprintf("c03-concurrent seed=%d batch=%d round=%d", w.Seed, w.Batch, round)
		w.Mark("%s", desc)
		world := ledger.NewWorld(rng, w.R, []string{"C03"}, allSnapOracles, desc)
		world.SlowVerify = 400 * time.Microsecond
		p := ledger.Profile{Nodes: 1, Users: 4, SupplyClass: 0, Delivery: "lockstep", PBoundary: 0.2}
		d, err := ledger.Setup(world, p)
		if err != nil {
			w.R.Inconc("setup failed: " + err.Error())
			world.Close()
			continue
		}
		n := world.Nodes[0]
		u := world.Users
		// fund
		for i := 1; i < len(u); i++ {
			t := world.NewTrx(u[0], u[i].Addr, spice.Melange{Currency: 100}, nil)
			world.Propose(n, &t, "fund")
		}
		micro := w.Pick(25, 60)
		for m := 0; m < micro; m++ {
			k := 2 + rng.Intn(7)
			kind := rng.Intn(5)
			overdraft := rng.Intn(4) == 0
			amt := spice.Melange{Currency: uint64(1 + rng.Intn(3))}
			if overdraft {
				amt = spice.Melange{Currency: 1_000_000}
			}
			from := u[1+rng.Intn(len(u)-1)]
			to := u[(1+rng.Intn(len(u)-1))%len(u)]
			if to == from {
				to = u[0]
			}
			trx := world.NewTrx(from, to.Addr, amt, nil)
			snap := n.Prev
			var tips []ledger.H
			for h := range snap.Leaves {
				tips = append(tips, h)
			}
			if len(tips) == 0 {
				break
			}
			l := tips[rng.Intn(len(tips))]
			rr := tips[rng.Intn(len(tips))]
			wl, _ := snap.Vertex(l)
			wr, _ := snap.Vertex(rr)
			wgt := wl.Weight
			if wr.Weight > wgt {
				wgt = wr.Weight
			}
			wgt++
			sealers := []*ledger.Actor{world.Sealers[0], world.Sealers[1]}
			mkVertex := func(i int) accountant.Vertex {
				return ledger.ForgeVertex(sealers[i%2], trx, l, rr, wgt, world.Now())
			}
			errs := make([]error, k)
			var fns []func()
			same := mkVertex(0)
			var offered []accountant.Vertex
			for i := 0; i < k; i++ {
				i := i
				switch {
				case kind == 0: // the same transaction proposed k times
					fns = append(fns, func() {
						t := trx
						v, err := n.Book.CreateLeaf(world.Ctx, &t)
						errs[i] = err
						if err == nil {
							world.Hist.Add(&v)
						}
					})
				case kind == 1: // the same vertex delivered k times
					fns = append(fns, func() {
						c := ledger.CloneVertex(&same)
						errs[i] = n.Book.AddLeaf(world.Ctx, c)
					})
				case kind == 2: // different vertices wrapping the same transaction
					v := mkVertex(i)
					offered = append(offered, v)
					fns = append(fns, func() {
						c := ledger.CloneVertex(&v)
						world.Hist.Add(c)
						errs[i] = n.Book.AddLeaf(world.Ctx, c)
					})
				default: // proposed locally while vertices carrying it are delivered
					if i%2 == 0 {
						fns = append(fns, func() {
							t := trx
							v, err := n.Book.CreateLeaf(world.Ctx, &t)
							errs[i] = err
							if err == nil {
								world.Hist.Add(&v)
							}
						})
					} else {
						v := mkVertex(i)
						offered = append(offered, v)
						fns = append(fns, func() {
							c := ledger.CloneVertex(&v)
							world.Hist.Add(c)
							errs[i] = n.Book.AddLeaf(world.Ctx, c)
						})
					}
				}
			}
			world.Hist.Add(&same)
			world.Logf("micro-history kind=%d k=%d overdraft=%v trx=%s %s->%s %s", kind, k, overdraft, ledger.Hex(trx.Hash), from.Name, to.Name, ledger.MelStr(amt))
			world.Concurrent(n, fns)
			oks := 0
			for _, e := range errs {
				if e == nil {
					oks++
				}
			}
			world.Logf("  results: %d ok of %d", oks, k)
			w.R.Count("c03_concurrent_micro_histories", 1)
			world.EvalFor("C03", 1)
			world.NontrivFor("C03", fmt.Sprintf("micro/kind%d/k%d/overdraft=%v/oks=%d", kind, k, overdraft, min(oks, 2)))
			if m == 0 && round == 0 && w.Batch == 0 {
				w.R.Sample(6, map[string]any{"micro_history": fmt.Sprintf("kind=%d k=%d overdraft=%v", kind, k, overdraft), "ok_calls": oks})
			}
			// sequential follow-up: the same transaction again must now be refused when it is held, and must be
			// proposable again when its tentative vertex was dropped
			cur := n.Prev
			_, held := cur.Index[trx.Hash]
			t2 := trx
			_, err := world.Propose(n, &t2, "re-offer")
			if held && err == nil {
				// legitimate only when the held tentative vertex was dropped by this very call (overdraft): the snapshot oracle decides
				world.Logf("  re-offer of a held transaction succeeded (tentative vertex must have been dropped)")
			}
			if !held && errors.Is(err, accountant.ErrTrxInVertexAlreadyExists) {
				world.Violate("C03", "dropped-transaction-cannot-be-proposed-again", fmt.Sprintf("transaction %s is not indexed but proposing it again is refused as already existing", ledger.Hex(trx.Hash)))
			}
			// a merge proposal validates (and possibly drops) the tips
			mt := world.NewTrx(u[0], u[1].Addr, spice.Melange{}, []byte("merge"))
			world.Propose(n, &mt, "merge")
		}
		d.Run0()
		world.Close()
	}
	c03DropAndRepropose(w)
}

// c03DropAndRepropose: a transaction whose tentative vertex was dropped as invalid can be proposed again.
func c03DropAndRepropose(w *core.WorkerCtx) {
	rng := core.Rand(w.Seed, "C03d", w.Batch)
	desc := fmt.Sprintf("c03-drop-repropose seed=%d batch=%d", w.Seed, w.Batch)
	world := ledger.NewWorld(rng, w.R, []string{"C03"}, allSnapOracles, desc)
	defer world.Close()
	d, err := ledger.Setup(world, ledger.Profile{Nodes: 1, Users: 3, SupplyClass: 0, Delivery: "lockstep"})
	if err != nil {
		w.R.Inconc("setup failed: " + err.Error())
		return
	}
	_ = d
	n := world.Nodes[0]
	u := world.Users
	f := world.NewTrx(u[0], u[1].Addr, spice.Melange{Currency: 10}, nil)
	world.Propose(n, &f, "fund")
	for i := 0; i < w.Pick(10, 40); i++ {
		var over transaction.Transaction = world.NewTrx(u[1], u[2].Addr, spice.Melange{Currency: 1000 + uint64(i)}, nil)
		if _, err := world.Propose(n, &over, "overdraft"); err != nil {
			continue
		}
		mt := world.NewTrx(u[0], u[1].Addr, spice.Melange{}, []byte("merge"))
		world.Propose(n, &mt, "merge-drops-overdraft") // may fail: the proposal that drops a tip reports the tip's error
		cur := n.Prev
		if _, held := cur.Index[over.Hash]; held {
			continue // not dropped yet
		}
		world.EvalFor("C03", 1)
		world.NontrivFor("C03", "dropped-then-reproposed")
		_, err := world.Propose(n, &over, "re-propose-dropped")
		if errors.Is(err, accountant.ErrTrxInVertexAlreadyExists) {
			world.Violate("C03", "dropped-transaction-cannot-be-proposed-again", fmt.Sprintf("transaction %s was dropped with its tip but proposing it again is refused as already existing", ledger.Hex(over.Hash)))
		}
		w.R.Count("c03_dropped_reproposed", 1)
		world.Propose(n, &mt, "merge-again")
		mt2 := world.NewTrx(u[0], u[1].Addr, spice.Melange{}, []byte("merge2"))
		world.Propose(n, &mt2, "merge2")
	}
}
