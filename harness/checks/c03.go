package checks

import (
	"errors"
	"fmt"
	"os"
	"strings"
	"time"

	"github.com/bartossh/Computantis/src/accountant"
	"github.com/bartossh/Computantis/src/spice"
	"github.com/bartossh/Computantis/src/transaction"

	"verifharness/core"
	"verifharness/ledger"
)

// c03Concurrent: micro-histories in which the same transaction or vertex is offered concurrently through
// the same and different entry points, with the window between the pre-lock checks and the locked insert widened.
func c03Concurrent(w *core.WorkerCtx) {
	rounds := w.Pick(3, 12)
	for round := 0; round < rounds; round++ {
		rng := core.Rand(w.Seed, "C03c", w.Batch, round)
		desc := fmt.Sprintf("c03-concurrent seed=%d batch=%d round=%d", w.Seed, w.Batch, round)
		w.Mark("%s", desc)
		world := ledger.NewWorld(rng, w.R, []string{"C03"}, allSnapOracles, desc)
		world.SlowVerify = 400 * time.Microsecond
		p := ledger.Profile{Nodes: 1, Users: 4, SupplyClass: 0, Delivery: "lockstep", PBoundary: 0.2}
		d, err := ledger.Setup(world, p)
		if err != nil {
			w.R.Inconc("setup failed: " + err.Error())
			world.Close()
			continue
		}
		n := world.Nodes[0]
		u := world.Users
		// fund
		for i := 1; i < len(u); i++ {
			t := world.NewTrx(u[0], u[i].Addr, spice.Melange{Currency: 100}, nil)
			world.Propose(n, &t, "fund")
		}
		micro := w.Pick(25, 60)
		for m := 0; m < micro; m++ {
			k := 2 + rng.Intn(7)
			kind := rng.Intn(5)
			overdraft := rng.Intn(4) == 0
			amt := spice.Melange{Currency: uint64(1 + rng.Intn(3))}
			if overdraft {
				amt = spice.Melange{Currency: 1_000_000}
			}
			from := u[1+rng.Intn(len(u)-1)]
			to := u[(1+rng.Intn(len(u)-1))%len(u)]
			if to == from {
				to = u[0]
			}
			trx := world.NewTrx(from, to.Addr, amt, nil)
			snap := n.Prev
			var tips []ledger.H
			for h := range snap.Leaves {
				tips = append(tips, h)
			}
			if len(tips) == 0 {
				break
			}
			l := tips[rng.Intn(len(tips))]
			rr := tips[rng.Intn(len(tips))]
			wl, _ := snap.Vertex(l)
			wr, _ := snap.Vertex(rr)
			wgt := wl.Weight
			if wr.Weight > wgt {
				wgt = wr.Weight
			}
			wgt++
			sealers := []*ledger.Actor{world.Sealers[0], world.Sealers[1]}
			mkVertex := func(i int) accountant.Vertex {
				return ledger.ForgeVertex(sealers[i%2], trx, l, rr, wgt, world.Now())
			}
			errs := make([]error, k)
			var fns []func()
			same := mkVertex(0)
			var offered []accountant.Vertex
			for i := 0; i < k; i++ {
				i := i
				switch {
				case kind == 0: // the same transaction proposed k times
					fns = append(fns, func() {
						t := trx
						v, err := n.Book.CreateLeaf(world.Ctx, &t)
						errs[i] = err
						if err == nil {
							world.Hist.Add(&v)
						}
					})
				case kind == 1: // the same vertex delivered k times
					fns = append(fns, func() {
						c := ledger.CloneVertex(&same)
						errs[i] = n.Book.AddLeaf(world.Ctx, c)
					})
				case kind == 2: // different vertices wrapping the same transaction
					v := mkVertex(i)
					offered = append(offered, v)
					fns = append(fns, func() {
						c := ledger.CloneVertex(&v)
						world.Hist.Add(c)
						errs[i] = n.Book.AddLeaf(world.Ctx, c)
					})
				default: // proposed locally while vertices carrying it are delivered
					if i%2 == 0 {
						fns = append(fns, func() {
							t := trx
							v, err := n.Book.CreateLeaf(world.Ctx, &t)
							errs[i] = err
							if err == nil {
								world.Hist.Add(&v)
							}
						})
					} else {
						v := mkVertex(i)
						offered = append(offered, v)
						fns = append(fns, func() {
							c := ledger.CloneVertex(&v)
							world.Hist.Add(c)
							errs[i] = n.Book.AddLeaf(world.Ctx, c)
						})
					}
				}
			}
			world.Hist.Add(&same)
			world.Logf("micro-history kind=%d k=%d overdraft=%v trx=%s %s->%s %s", kind, k, overdraft, ledger.Hex(trx.Hash), from.Name, to.Name, ledger.MelStr(amt))
			world.Concurrent(n, fns)
			oks := 0
			for _, e := range errs {
				if e == nil {
					oks++
				}
			}
			world.Logf("  results: %d ok of %d", oks, k)
			w.R.Count("c03_concurrent_micro_histories", 1)
			world.EvalFor("C03", 1)
			world.NontrivFor("C03", fmt.Sprintf("micro/kind%d/k%d/overdraft=%v/oks=%d", kind, k, overdraft, min(oks, 2)))
			if m == 0 && round == 0 && w.Batch == 0 {
				w.R.Sample(6, map[string]any{"micro_history": fmt.Sprintf("kind=%d k=%d overdraft=%v", kind, k, overdraft), "ok_calls": oks})
			}
			// sequential follow-up: the same transaction again must now be refused when it is held, and must be
			// proposable again when its tentative vertex was dropped
			cur := n.Prev
			_, held := cur.Index[trx.Hash]
			t2 := trx
			_, err := world.Propose(n, &t2, "re-offer")
			if held && err == nil {
				// legitimate only when the held tentative vertex was dropped by this very call (overdraft): the snapshot oracle decides
				world.Logf("  re-offer of a held transaction succeeded (tentative vertex must have been dropped)")
			}
			if !held && errors.Is(err, accountant.ErrTrxInVertexAlreadyExists) {
				world.Violate("C03", "dropped-transaction-cannot-be-proposed-again", fmt.Sprintf("transaction %s is not indexed but proposing it again is refused as already existing", ledger.Hex(trx.Hash)))
			}
			// a merge proposal validates (and possibly drops) the tips
			mt := world.NewTrx(u[0], u[1].Addr, spice.Melange{}, []byte("merge"))
			world.Propose(n, &mt, "merge")
		}
		d.Run0()
		world.Close()
	}
	c03DropAndRepropose(w)
}

// c03DropAndRepropose: a transaction whose tentative vertex was dropped as invalid can be proposed again.
func c03DropAndRepropose(w *core.WorkerCtx) {
	rng := core.Rand(w.Seed, "C03d", w.Batch)
	desc := fmt.Sprintf("c03-drop-repropose seed=%d batch=%d", w.Seed, w.Batch)
	world := ledger.NewWorld(rng, w.R, []string{"C03"}, allSnapOracles, desc)
	defer world.Close()
	d, err := ledger.Setup(world, ledger.Profile{Nodes: 1, Users: 3, SupplyClass: 0, Delivery: "lockstep"})
	if err != nil {
		w.R.Inconc("setup failed: " + err.Error())
		return
	}
	_ = d
	n := world.Nodes[0]
	u := world.Users
	f := world.NewTrx(u[0], u[1].Addr, spice.Melange{Currency: 10}, nil)
	world.Propose(n, &f, "fund")
	for i := 0; i < w.Pick(10, 40); i++ {
		var over transaction.Transaction = world.NewTrx(u[1], u[2].Addr, spice.Melange{Currency: 1000 + uint64(i)}, nil)
		if _, err := world.Propose(n, &over, "overdraft"); err != nil {
			continue
		}
		mt := world.NewTrx(u[0], u[1].Addr, spice.Melange{}, []byte("merge"))
		world.Propose(n, &mt, "merge-drops-overdraft") // may fail: the proposal that drops a tip reports the tip's error
		cur := n.Prev
		if _, held := cur.Index[over.Hash]; held {
			continue // not dropped yet
		}
		world.EvalFor("C03", 1)
		world.NontrivFor("C03", "dropped-then-reproposed")
		_, err := world.Propose(n, &over, "re-propose-dropped")
		if errors.Is(err, accountant.ErrTrxInVertexAlreadyExists) {
			world.Violate("C03", "dropped-transaction-cannot-be-proposed-again", fmt.Sprintf("transaction %s was dropped with its tip but proposing it again is refused as already existing", ledger.Hex(over.Hash)))
		}
		w.R.Count("c03_dropped_reproposed", 1)
		world.Propose(n, &mt, "merge-again")
		mt2 := world.NewTrx(u[0], u[1].Addr, spice.Melange{}, []byte("merge2"))
		world.Propose(n, &mt2, "merge2")
	}
}

// concurrentDupChild: copies of one gossiped vertex V arrive at the same moment (all pass the look-ups made before the
// ledger lock) while a child of V is delivered as soon as V is visible, and the same transaction is proposed twice at
// once. The copies that lose are refused inside the locked section; a refused copy must take nothing with it: V, its
// edges and its index entry stay, and the child keeps a live parent. Judged by the snapshot oracles (C09 structure,
// C03 uniqueness/index) after every block.
func concurrentDupChild(w *core.WorkerCtx, report []string) {
	rng := core.Rand(w.Seed, "dupchild", w.Batch)
	desc := fmt.Sprintf("concurrent duplicates with a child seed=%d batch=%d", w.Seed, w.Batch)
	w.Mark("%s", desc)
	world := ledger.NewWorld(rng, w.R, report, allSnapOracles, desc)
	if w.Batch%2 == 0 {
		world.SlowRepeat = 3 * time.Millisecond
	} else {
		world.SlowVerify = 600 * time.Microsecond
	}
	defer world.Close()
	if _, err := ledger.Setup(world, ledger.Profile{Nodes: 1, Users: 4, SupplyClass: 0, Delivery: "lockstep"}); err != nil {
		w.R.Inconc("setup failed: " + err.Error())
		return
	}
	n := world.Nodes[0]
	u := world.Users
	for i := 1; i < len(u); i++ {
		t := world.NewTrx(u[0], u[i].Addr, spice.Melange{Currency: 100}, nil)
		world.Propose(n, &t, "fund")
	}
	rounds := w.Pick(40, 200)
	attached, refused, refusedLocked, refusedAfterChild := 0, 0, 0, 0
	for m := 0; m < rounds; m++ {
		snap := n.Prev
		var tip ledger.H
		var wgt uint64
		found := false
		for h := range snap.Leaves {
			if v, ok := snap.Vertex(h); ok && v.Weight >= wgt {
				tip, wgt, found = h, v.Weight, true
			}
		}
		if !found {
			break
		}
		from := u[1+m%3]
		var data []byte
		amt := spice.Melange{SupplementaryCurrency: uint64(1 + rng.Intn(50))}
		if m%3 == 0 {
			data, amt = []byte(fmt.Sprintf("contract %d", m)), spice.Melange{}
		}
		if m%5 == 4 {
			amt = spice.Melange{Currency: 1 << 30} // not covered: the child's arrival drops it, a later copy may bring it back
		}
		vt := world.NewTrx(from, u[1+(m+1)%3].Addr, amt, data)
		v := ledger.ForgeVertex(world.Sealers[0], vt, tip, tip, wgt+1, world.Now())
		ct := world.NewTrx(u[0], u[1+m%3].Addr, spice.Melange{SupplementaryCurrency: 1}, nil)
		c := ledger.ForgeVertex(world.Sealers[1], ct, v.Hash, v.Hash, wgt+2, world.Now())
		world.Hist.Add(&v)
		world.Hist.Add(&c)
		world.SlowAfterFirst(v.Hash)
		k := 2 + rng.Intn(4)
		errs := make([]error, k)
		doneAt := make([]time.Time, k)
		var childAt, childSeen time.Time
		var cerr error = errors.New("not offered")
		var fns []func()
		for i := 0; i < k; i++ {
			i := i
			// the copies arrive spread over two milliseconds: a late one still passes the look-ups when the first is
			// not through yet, and reaches the lock after the child
			late := time.Duration(0)
			if i > 0 && world.SlowRepeat == 0 {
				late = time.Duration(rng.Intn(2000)) * time.Microsecond
			}
			fns = append(fns, func() {
				if late > 0 {
					time.Sleep(late)
				}
				errs[i] = n.Book.AddLeaf(world.Ctx, ledger.CloneVertex(&v))
				doneAt[i] = time.Now()
			})
		}
		fns = append(fns, func() {
			for try := 0; try < 400; try++ {
				if _, err := n.Book.ReadVertex(world.Ctx, v.Hash); err == nil {
					childSeen = time.Now()
					cerr = n.Book.AddLeaf(world.Ctx, ledger.CloneVertex(&c))
					childAt = time.Now()
					return
				}
				time.Sleep(50 * time.Microsecond)
			}
		})
		// the same transaction proposed twice at the same moment
		pt := world.NewTrx(u[1+(m+2)%3], u[0].Addr, spice.Melange{SupplementaryCurrency: 2}, nil)
		perrs := []error{errors.New("not proposed"), errors.New("not proposed")}
		for i := 0; i < 2 && m%2 == 1; i++ {
			// (odd rounds only: a proposal holds the ledger lock for long and would queue every copy before the child)
			i := i
			fns = append(fns, func() {
				t := pt
				pv, err := n.Book.CreateLeaf(world.Ctx, &t)
				perrs[i] = err
				if err == nil {
					world.Hist.Add(&pv)
				}
			})
		}
		world.Logf("round %d: %d copies of vertex %s on tip %s, child %s, transaction %s proposed twice", m, k, ledger.Hex(v.Hash), ledger.Hex(tip), ledger.Hex(c.Hash), ledger.Hex(pt.Hash))
		t0 := time.Now()
		world.Concurrent(n, fns)
		oks := 0
		for i, e := range errs {
			switch {
			case e == nil:
				oks++
			case !errors.Is(e, accountant.ErrUnexpected) && (errors.Is(e, accountant.ErrLeafAlreadyExists) || errors.Is(e, accountant.ErrTrxInVertexAlreadyExists)):
				refused++ // by the look-ups made before the lock
			default:
				refusedLocked++
				if cerr == nil && doneAt[i].After(childAt) {
					refusedAfterChild++
				}
			}
		}
		if cerr == nil {
			attached++
		}
		if ledger.IsParked(cerr) {
			n.Orphans[c.Hash] = true
		}
		world.Logf("  results: %d of %d copies admitted, child => %v, proposals => %v / %v", oks, k, cerr, perrs[0], perrs[1])
		if os.Getenv("VERIF_DEBUG_DUP") != "" {
			tl := fmt.Sprintf("  timing (us): child seen %d done %d;", childSeen.Sub(t0).Microseconds(), childAt.Sub(t0).Microseconds())
			for i := range doneAt {
				tl += fmt.Sprintf(" copy%d done %d ok=%v;", i, doneAt[i].Sub(t0).Microseconds(), errs[i] == nil)
			}
			world.Logf("%s", tl)
		}
		for _, p := range report {
			world.EvalFor(p, 1)
			world.NontrivFor(p, fmt.Sprintf("dup-child/k%d/admitted%d/child-attached=%v/proposals-ok=%d", k, min(oks, 2), cerr == nil, b2i(perrs[0] == nil)+b2i(perrs[1] == nil)))
		}
		// (how many calls reported success is not judged: a vertex that was admitted and then dropped as an invalid tip by
		// the next arrival may legitimately be admitted again; the snapshot decides)
		for i := 0; i < 3; i++ {
			world.Retry(n)
		}
		mt := world.NewTrx(u[0], u[1].Addr, spice.Melange{}, []byte("merge"))
		world.Propose(n, &mt, "merge")
		mt2 := world.NewTrx(u[0], u[2].Addr, spice.Melange{}, []byte("merge"))
		world.Propose(n, &mt2, "merge")
	}
	if f := os.Getenv("VERIF_DEBUG_DUP"); f != "" && w.Batch == 0 {
		os.WriteFile(f, []byte(strings.Join(world.Trace, "\n")), 0o644)
	}
	if w.Batch == 0 {
		var res []string
		for _, l := range world.Trace {
			if strings.HasPrefix(l, "  results:") && len(res) < 12 {
				res = append(res, l)
			}
		}
		w.R.Sample(2, map[string]any{"workload": desc, "first_rounds": res})
	}
	w.R.Count("dup_child_rounds", rounds)
	w.R.Count("dup_child_children_attached", attached)
	w.R.Count("dup_child_copies_refused_by_the_lookups_before_the_lock", refused)
	w.R.Count("dup_child_copies_refused_inside_the_lock", refusedLocked)
	w.R.Count("dup_child_copies_refused_inside_the_lock_after_the_child_was_attached", refusedAfterChild)
}

func b2i(b bool) int {
	if b {
		return 1
	}
	return 0
}

// orphanReplayRace: a vertex V1 carrying transaction T arrives before its parent and is parked. The parent arrives. While
// the orphan buffer replays V1 (its look-ups pass, its signatures are being verified - slowly, it is a second
// verification of a marked digest), another node's vertex V2 carrying the same T is admitted. V1 then reaches the
// locked section and is refused there. T must stay indexed to V2, and T must not be sealed a second time afterwards.
func orphanReplayRace(w *core.WorkerCtx, report []string) {
	rng := core.Rand(w.Seed, "replayrace", w.Batch)
	desc := fmt.Sprintf("orphan replay racing with another vertex of the same transaction seed=%d batch=%d", w.Seed, w.Batch)
	w.Mark("%s", desc)
	world := ledger.NewWorld(rng, w.R, report, allSnapOracles, desc)
	world.SlowRepeat = 4 * time.Millisecond
	defer world.Close()
	if _, err := ledger.Setup(world, ledger.Profile{Nodes: 1, Users: 4, SupplyClass: 0, Delivery: "lockstep"}); err != nil {
		w.R.Inconc("setup failed: " + err.Error())
		return
	}
	n := world.Nodes[0]
	u := world.Users
	for i := 1; i < len(u); i++ {
		t := world.NewTrx(u[0], u[i].Addr, spice.Melange{Currency: 100}, nil)
		world.Propose(n, &t, "fund")
	}
	rounds := w.Pick(20, 100)
	lost := 0
	for m := 0; m < rounds; m++ {
		snap := n.Prev
		var tip ledger.H
		var wgt uint64
		found := false
		for h := range snap.Leaves {
			if v, ok := snap.Vertex(h); ok && v.Weight >= wgt {
				tip, wgt, found = h, v.Weight, true
			}
		}
		if !found {
			break
		}
		pt := world.NewTrx(u[0], u[1+m%3].Addr, spice.Melange{}, []byte(fmt.Sprintf("parent %d", m)))
		p := ledger.ForgeVertex(world.Sealers[0], pt, tip, tip, wgt+1, world.Now())
		var data []byte
		amt := spice.Melange{SupplementaryCurrency: uint64(1 + rng.Intn(50))}
		if m%2 == 0 {
			data, amt = []byte(fmt.Sprintf("contract %d", m)), spice.Melange{}
		}
		tt := world.NewTrx(u[1+m%3], u[1+(m+1)%3].Addr, amt, data)
		v1 := ledger.ForgeVertex(world.Sealers[1], tt, p.Hash, p.Hash, wgt+2, world.Now())
		v2 := ledger.ForgeVertex(world.Sealers[0], tt, p.Hash, p.Hash, wgt+2, world.Now())
		world.SlowAfterFirst(v1.Hash)
		if err := world.Deliver(n, &v1, "V1 before its parent"); !ledger.IsParked(err) {
			world.Logf("round %d: V1 was not parked: %v", m, err)
			continue
		}
		if err := world.Deliver(n, &p, "the parent"); err != nil {
			world.Logf("round %d: the parent was refused: %v", m, err)
			continue
		}
		world.Hist.Add(&v2)
		var rerr, v2err error
		var replayed bool
		world.Concurrent(n, []func(){
			func() { replayed, rerr = n.Book.VerifRetryOne(world.Ctx) },
			func() {
				time.Sleep(time.Duration(300+rng.Intn(1500)) * time.Microsecond)
				v2err = n.Book.AddLeaf(world.Ctx, ledger.CloneVertex(&v2))
			},
		})
		world.Logf("  round %d: replay of V1 (taken from the buffer: %v) => %v; V2 => %v", m, replayed, rerr, v2err)
		if replayed && rerr != nil && v2err == nil {
			lost++ // V1 lost the race for its transaction
		}
		for i := 0; i < 3; i++ {
			world.Retry(n)
		}
		// the transaction again, by proposal: it is sealed already
		t2 := tt
		if _, err := world.Propose(n, &t2, "the same transaction proposed afterwards"); err == nil {
			world.Logf("  round %d: the transaction was accepted again by proposal", m)
		}
		mt := world.NewTrx(u[0], u[1].Addr, spice.Melange{}, []byte("merge"))
		world.Propose(n, &mt, "merge")
		for _, pr := range report {
			world.EvalFor(pr, 1)
			world.NontrivFor(pr, fmt.Sprintf("replay-race/replayed=%v/v1-refused=%v/v2-admitted=%v", replayed, rerr != nil, v2err == nil))
		}
	}
	w.R.Count("replay_race_rounds", rounds)
	w.R.Count("replay_race_rounds_in_which_the_replayed_orphan_lost", lost)
}

// c09DroppedThenTampered: a node has verified a vertex, admitted it as a tentative tip and then dropped it (it overdraws).
// Altered copies of that very vertex - the genuine hash and signatures over another amount, receiver, data, parent -
// are offered afterwards, and the genuine one once more. Having seen the original verify must not help a copy: every
// vertex of the ledger recomputes from its own contents.
func c09DroppedThenTampered(w *core.WorkerCtx, report []string) {
	rng := core.Rand(w.Seed, "droppedtampered", w.Batch)
	desc := fmt.Sprintf("altered copies of a vertex the node verified and dropped earlier seed=%d batch=%d", w.Seed, w.Batch)
	w.Mark("%s", desc)
	world := ledger.NewWorld(rng, w.R, report, allSnapOracles, desc)
	defer world.Close()
	if _, err := ledger.Setup(world, ledger.Profile{Nodes: 1, Users: 4, SupplyClass: 0, Delivery: "lockstep"}); err != nil {
		w.R.Inconc("setup failed: " + err.Error())
		return
	}
	n := world.Nodes[0]
	u := world.Users
	f := world.NewTrx(u[0], u[1].Addr, spice.Melange{Currency: 100}, nil)
	world.Propose(n, &f, "fund")
	for round := 0; round < w.Pick(6, 30); round++ {
		s := n.Prev
		var tip ledger.H
		var wgt uint64
		found := false
		for h := range s.Leaves {
			if v, ok := s.Vertex(h); ok && v.Weight >= wgt {
				tip, wgt, found = h, v.Weight, true
			}
		}
		if !found {
			break
		}
		// the original overdraws (500 out of 100) and carries data in every second round
		var data []byte
		if round%2 == 1 {
			data = []byte("contract that overdraws")
		}
		ot := world.NewTrx(u[1], u[2].Addr, spice.Melange{Currency: 500}, data)
		orig := ledger.ForgeVertex(world.Sealers[round%2], ot, tip, tip, wgt+1, world.Now())
		if err := world.Deliver(n, &orig, "overdrawing original (tentative)"); err != nil {
			continue
		}
		for k := 0; k < 2; k++ {
			m := world.NewTrx(u[0], u[3].Addr, spice.Melange{}, []byte("judge the tip"))
			world.Propose(n, &m, "judge the tip")
		}
		if _, still := n.Prev.Vertex(orig.Hash); still {
			world.Logf("round %d: the overdrawing original was not dropped", round)
			continue
		}
		// altered copies under the genuine hash and signatures
		s = n.Prev
		for h := range s.Leaves {
			if v, ok := s.Vertex(h); ok {
				tip, wgt = h, v.Weight
			}
		}
		alter := []func(v *accountant.Vertex){
			func(v *accountant.Vertex) { v.Transaction.Spice.Currency = 50 },
			func(v *accountant.Vertex) {
				v.Transaction.ReceiverAddress = u[3].Addr
				v.Transaction.Spice.Currency = 5
			},
			func(v *accountant.Vertex) {
				v.Transaction.Spice = spice.Melange{}
				v.Transaction.Data = []byte("other data")
			},
			func(v *accountant.Vertex) {
				v.Transaction.Spice.Currency = 50
				v.LeftParentHash, v.RightParentHash = tip, tip
				v.Weight = wgt + 1
			},
		}
		for ai, a := range alter {
			c := *ledger.CloneVertex(&orig)
			a(&c)
			err := world.Deliver(n, &c, fmt.Sprintf("altered copy %d of the dropped original", ai))
			for _, p := range report {
				world.EvalFor(p, 1)
				world.NontrivFor(p, fmt.Sprintf("dropped-then-altered/variant%d/refused=%v", ai, err != nil))
			}
			if err == nil {
				world.Violate("C09", "not-self-authenticating/accepted-after-the-original-was-dropped", fmt.Sprintf("round %d: an altered copy (variant %d) of a vertex the node had verified and dropped was admitted under the original's hash and signatures", round, ai))
				world.Violate("C04", "accepted/dropped-original/variant"+fmt.Sprint(ai), fmt.Sprintf("round %d: an altered copy (variant %d) of a vertex the node had verified and dropped was admitted", round, ai))
			}
			m := world.NewTrx(u[0], u[3].Addr, spice.Melange{}, []byte("judge the tip"))
			world.Propose(n, &m, "judge the tip")
		}
	}
	w.R.Count("dropped_then_altered_scenarios", 1)
}

// c09ClockSkew: peers' clocks are not this node's clock. Vertices arrive whose creation time lies a little or a lot
// ahead of this node's clock (and far behind it); the node's next own vertices are sealed on top of them. Every created
// vertex must be in the graph with an edge from each declared parent, under the hash it was returned with.
func c09ClockSkew(w *core.WorkerCtx) {
	rng := core.Rand(w.Seed, "clockskew", w.Batch)
	desc := fmt.Sprintf("c09 parents from peers whose clocks run ahead or behind seed=%d batch=%d", w.Seed, w.Batch)
	w.Mark("%s", desc)
	world := ledger.NewWorld(rng, w.R, []string{"C09"}, allSnapOracles, desc)
	defer world.Close()
	if _, err := ledger.Setup(world, ledger.Profile{Nodes: 1, Users: 4, SupplyClass: 0, Delivery: "lockstep"}); err != nil {
		w.R.Inconc("setup failed: " + err.Error())
		return
	}
	n := world.Nodes[0]
	u := world.Users
	for round, skew := range []time.Duration{5 * time.Millisecond, 2 * time.Second, time.Hour, 30 * 24 * time.Hour, -400 * 24 * time.Hour, time.Millisecond, 10 * time.Second} {
		s := n.Prev
		var tip ledger.H
		var wgt uint64
		found := false
		for h := range s.Leaves {
			if v, ok := s.Vertex(h); ok && v.Weight >= wgt {
				tip, wgt, found = h, v.Weight, true
			}
		}
		if !found {
			break
		}
		t := world.NewTrx(u[0], u[1+round%3].Addr, spice.Melange{}, []byte(fmt.Sprintf("from a peer whose clock is off by %v", skew)))
		v := ledger.ForgeVertex(world.Sealers[round%2], t, tip, tip, wgt+1, time.Now().Add(skew))
		derr := world.Deliver(n, &v, fmt.Sprintf("vertex created %v from now", skew))
		// two local vertices on top
		for k := 0; k < 2; k++ {
			m := world.NewTrx(u[0], u[2].Addr, spice.Melange{SupplementaryCurrency: uint64(1 + k)}, nil)
			cv, err := world.Propose(n, &m, "local vertex on a parent from another clock")
			if err == nil {
				if _, ok := n.Prev.Live[cv.Hash]; !ok {
					world.Violate("C09", "created-not-in-dag", fmt.Sprintf("CreateLeaf returned vertex %s (parent created %v from now) but the graph does not hold it under that hash", ledger.Hex(cv.Hash), skew))
				}
			}
		}
		w.R.Count("c09_clock_skew_rounds_judged", 1)
		world.EvalFor("C09", 1)
		world.NontrivFor("C09", fmt.Sprintf("clock-skew/%v/admitted=%v", skew, derr == nil))
	}
}

// c09ForgedSeals: the seal of a vertex (hash and sealing signature over sealer, creation time, parents, weight and the
// transaction hash) is checked for every kind of transaction the vertex may carry - a plain transfer, a contract, a
// contract countersigned by its receiver, with and without spice. Copies whose seal does not recompute (one signed
// vertex field changed, hash or signature altered) are offered on known parents and before their parent.
func c09ForgedSeals(w *core.WorkerCtx) {
	rng := core.Rand(w.Seed, "forgedseals", w.Batch)
	desc := fmt.Sprintf("c09 vertices whose seal does not recompute, for every kind of transaction seed=%d batch=%d", w.Seed, w.Batch)
	w.Mark("%s", desc)
	world := ledger.NewWorld(rng, w.R, []string{"C09"}, allSnapOracles, desc)
	defer world.Close()
	if _, err := ledger.Setup(world, ledger.Profile{Nodes: 1, Users: 4, SupplyClass: 0, Delivery: "lockstep"}); err != nil {
		w.R.Inconc("setup failed: " + err.Error())
		return
	}
	n := world.Nodes[0]
	u := world.Users
	for i := 1; i < len(u); i++ {
		t := world.NewTrx(u[0], u[i].Addr, spice.Melange{Currency: 100}, nil)
		world.Propose(n, &t, "fund")
	}
	kinds := []string{"transfer", "contract", "countersigned", "countersigned+spice"}
	type alter struct {
		name string
		f    func(v *accountant.Vertex, older ledger.H)
	}
	alters := []alter{
		{"hash", func(v *accountant.Vertex, _ ledger.H) { v.Hash[5] ^= 0x10 }},
		{"signature", func(v *accountant.Vertex, _ ledger.H) { v.Signature[7] ^= 0x01 }},
		{"weight", func(v *accountant.Vertex, _ ledger.H) { v.Weight += 1 << 40 }},
		{"created-at", func(v *accountant.Vertex, _ ledger.H) { v.CreatedAt = v.CreatedAt.Add(time.Second) }},
		{"left-parent", func(v *accountant.Vertex, older ledger.H) { v.LeftParentHash = older }},
		{"sealer", func(v *accountant.Vertex, _ ledger.H) { v.SignerPublicAddress = world.Sealers[1].Addr }},
	}
	for round := 0; round < w.Pick(2, 8); round++ {
		for _, kind := range kinds {
			for _, al := range alters {
				s := n.Prev
				var tip, older ledger.H
				var wgt uint64
				found := false
				for h := range s.Leaves {
					if v, ok := s.Vertex(h); ok && v.Weight >= wgt {
						tip, wgt, found = h, v.Weight, true
					}
				}
				if !found {
					return
				}
				if tv, ok := s.Vertex(tip); ok {
					older = tv.LeftParentHash
				}
				from, to := u[1+rng.Intn(3)], u[1+rng.Intn(3)]
				if from == to {
					to = u[0]
				}
				var t transaction.Transaction
				switch kind {
				case "transfer":
					t = world.NewTrx(from, to.Addr, spice.Melange{SupplementaryCurrency: uint64(1 + rng.Intn(100))}, nil)
				case "contract":
					t = world.NewTrx(from, to.Addr, spice.Melange{}, []byte("contract"))
				case "countersigned":
					t = world.NewTrx(from, to.Addr, spice.Melange{}, []byte("countersigned contract"))
					ledger.CounterSign(&t, to)
				default:
					t = world.NewTrx(from, to.Addr, spice.Melange{SupplementaryCurrency: uint64(1 + rng.Intn(100))}, []byte("paid countersigned contract"))
					ledger.CounterSign(&t, to)
				}
				good := ledger.ForgeVertex(world.Sealers[0], t, tip, tip, wgt+1, world.Now())
				bad := *ledger.CloneVertex(&good)
				al.f(&bad, older)
				entry := "gossip"
				var err error
				if (round+len(al.name))%2 == 1 && al.name != "left-parent" {
					// before its parent: the forged copy names a parent the node gets only afterwards
					entry = "orphan-replay"
					pt := world.NewTrx(u[0], u[1].Addr, spice.Melange{}, []byte("parent"))
					p := ledger.ForgeVertex(world.Sealers[1], pt, tip, tip, wgt+1, world.Now())
					good = ledger.ForgeVertex(world.Sealers[0], t, p.Hash, p.Hash, wgt+2, world.Now())
					bad = *ledger.CloneVertex(&good)
					al.f(&bad, older)
					err = world.Deliver(n, &bad, "vertex with a seal that does not recompute, before its parent")
					world.Deliver(n, &p, "the parent")
					for k := 0; k < 4; k++ {
						world.Retry(n)
					}
				} else {
					err = world.Deliver(n, &bad, "vertex with a seal that does not recompute")
				}
				world.EvalFor("C09", 1)
				w.R.Count("c09_forged_seals_offered", 1)
				world.NontrivFor("C09", fmt.Sprintf("forged-seal/%s/%s/%s/refused=%v", kind, al.name, entry, err != nil))
				held := false
				for h, l := range n.Prev.Live {
					if h == bad.Hash || l.V.Transaction.Hash == t.Hash {
						held = true
					}
				}
				if held {
					world.Violate("C09", "not-self-authenticating/forged-seal-admitted/"+al.name, fmt.Sprintf("a vertex carrying a %s transaction whose %s was altered after sealing (entry %s, answer %v) is in the ledger", kind, al.name, entry, err))
				}
				// the genuine vertex afterwards keeps the ledger growing
				world.Deliver(n, &good, "the genuine vertex")
			}
		}
	}
}
