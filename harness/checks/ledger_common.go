package checks

import (
	"fmt"
	"github.com/bartossh/Computantis/src/accountant"
	"github.com/bartossh/Computantis/src/spice"
	"time"

	"verifharness/core"
	"verifharness/ledger"
)

const allSnapOracles = ledger.OC01 | ledger.OC03 | ledger.OC09 | ledger.OC10

// runRandomScenarios runs `count` random scenarios of the ledger simulator, reporting violations of `report`.
func runRandomScenarios(w *core.WorkerCtx, report []string, count int, tweak func(p *ledger.Profile), after func(d *ledger.Driver), before ...func(d *ledger.Driver)) {
	for i := 0; i < count; i++ {
		rng := core.Rand(w.Seed, "ledger", w.Prop, w.Batch, i)
		p := ledger.RandomProfile(rng, w.Thorough())
		if tweak != nil {
			tweak(&p)
		}
		desc := fmt.Sprintf("%s seed=%d batch=%d scenario=%d", p.Name, w.Seed, w.Batch, i)
		w.Mark("scenario %s", desc)
		world := ledger.NewWorld(rng, w.R, report, allSnapOracles, desc)
		d, err := ledger.Setup(world, p)
		if err != nil {
			w.R.Inconc("scenario setup failed: " + err.Error())
			world.Close()
			continue
		}
		for _, bf := range before {
			bf(d)
		}
		d.Run()
		if after != nil {
			after(d)
		}
		w.R.Count("scenarios", 1)
		w.R.Count("operations", len(world.Trace))
		if i < 2 && w.Batch == 0 {
			tr := world.Trace
			if len(tr) > 14 {
				tr = tr[:14]
			}
			w.R.Sample(3, map[string]any{"scenario": desc, "first_operations": tr})
		}
		world.Close()
	}
}

func ledgerPlan(qb, tb int) func(string) core.Plan {
	return func(tier string) core.Plan {
		if tier == "thorough" {
			return core.Plan{Batches: tb, Parallel: 10, Timeout: 40 * time.Minute}
		}
		return core.Plan{Batches: qb, Parallel: 8, Timeout: 8 * time.Minute}
	}
}

const ledgerAssume = "snapshots are taken through the verif hook under the ledger's own lock; histories are those produced by the seeded generators (lock-step, delayed, partitioned delivery; forged, replayed and rule-breaking offers); gross flows per wallet stay below 2^64 units"

func init() {
	core.Register(&core.Check{
		Spec: core.Spec{
			Prop:        "C01",
			Rule:        "Random multi-node scenarios (1-5 real nodes; proposals valid and overdrawing at boundary amounts; harness-sealed vertices on tips, stale and equal parents; replays; concurrent proposal blocks; trusted sealers; delayed/partitioned delivery; orphan retries). After every operation the node is snapshotted; every vertex that became confirmed (declared as parent by a live vertex, or checkpointed) is evaluated once with big integers: inflow(issuer) over its full-history ancestors plus the checkpoint must cover its other spends there plus its amount (trusted-sealed, genesis, non-spice exempt). Dropped tips must lose their index entry. Fixed scenarios in every run: the witness of the known finding (double spend checkpointed, then a fresh spend); a 1040-vertex chain with two side tips on the 5th vertex (one overdrawing, one covered) whose parents get checkpointed, then proposals (a tip that is a root of the live graph must still pass the funds test); a truncation cancelled half way followed by further attempts and overdrawing traffic. Non-trivial = confirmation whose issuer has other spends in that history or whose margin is below the amount, and every dropped tip; distinct by (operation, validation path, verdict, amount class, prior spends). Also fixed: a wallet that received 10 and spent 8 long ago spends 3 in a tentative tip; a truncation starts from that tip while 24 proposals race with it (whoever validates the tip, before, during or after the cut, must count the checkpointed part once). Also fixed: a wallet drained to exactly zero between two truncations, then the overspend probes (it must not be able to spend a single unit). The trusted-node exemption is granted only to sealers the harness itself made trusted on that node.",
			Assumptions: []string{ledgerAssume},
			MinEvals:    300, MinNontriv: 10,
		},
		Plan: ledgerPlan(8, 56),
		Worker: func(w *core.WorkerCtx) {
			if w.Batch == 0 {
				c01Witness(w)
			}
			if w.Batch == 1 {
				c01RootTip(w)
			}
			if w.Batch == 2 {
				c01TruncationRace(w, []string{"C01"})
			}
			if w.Batch == 3 {
				// a wallet drained to zero between two truncations, then overspend probes
				c06Drained(w, []string{"C01"})
			}
			runRandomScenarios(w, []string{"C01"}, w.Pick(12, 60), func(p *ledger.Profile) { p.POverdraft = 0.35; p.PForge = 0.2 }, nil)
			c01Truncation(w)
		},
	})
	core.Register(&core.Check{
		Spec: core.Spec{
			Prop:        "C03",
			Rule:        "Same scenario engine with replay emphasis (same vertex again, same transaction proposed again, same transaction re-wrapped by another sealer, duplicates in concurrent proposal blocks and concurrent deliveries). After every operation: no transaction hash in two vertices (live + checkpointed), no vertex both live and checkpointed, transaction index is a bijection onto the held transactions; at most one of several concurrent proposals of one transaction succeeds. One batch truncates a 1030-vertex ledger and re-offers checkpointed vertices and transactions (same vertex, same transaction proposed again, re-wrapped by another sealer), then runs 60 hostile operations. After every scenario the peer's own stream, extended by a second validly signed vertex of another sealer that wraps a transaction already in the stream (first or last in stream order), is loaded in to a fresh node: it must not hold the transaction twice and its index must point at the holder. Non-trivial = replay attempts and concurrent duplicate blocks; distinct by (replay kind, node count, checkpoint present, block size). Every fourth transaction of the random scenarios is dated 8-400 days in the past. A dedicated workload lets 2-5 copies of one gossiped vertex race each other (all pass the look-ups made before the lock) while its child is delivered as soon as the vertex is visible and one transaction is proposed twice at once. Orphan replay race: a vertex of transaction T is parked, its parent arrives, and while the orphan buffer replays it (a slow second verification) another node's vertex of the same T is admitted; T must stay indexed to its holder and must not be sealed again.",
			Assumptions: []string{ledgerAssume},
			MinEvals:    300, MinNontriv: 10,
		},
		Plan: ledgerPlan(8, 56),
		Worker: func(w *core.WorkerCtx) {
			// (every fourth transaction is dated 8 to 400 days in the past: replay protection does not depend on age)
			runRandomScenarios(w, []string{"C03"}, w.Pick(10, 50), func(p *ledger.Profile) { p.PReplay = 0.3; p.PConcurrent = 0.12 }, c03SyncReplay, func(d *ledger.Driver) { d.W.OldEvery = 4 })
			c03Concurrent(w)
			concurrentDupChild(w, []string{"C03"})
			orphanReplayRace(w, []string{"C03"})
			c03Truncation(w)
			if w.Batch == 3 {
				// a truncation over a wallet whose summed inflow does not fit 64 bits must still leave every vertex in
				// exactly one place (live or checkpointed)
				c07GrossOverflow(w, []string{"C03"})
			}
		},
	})
	core.Register(&core.Check{
		Spec: core.Spec{
			Prop:        "C09",
			Rule:        "Same scenario engine. After every operation the snapshot must be a well-formed DAG: declared-parent graph acyclic (Kahn); every live non-genesis vertex has an edge from each distinct declared parent that is live and from nothing else; a declared parent that is not live is checkpointed; graph id = storage key = vertex hash; hash, sealing, issuer and receiver signatures recompute (harness's own rendering and the node's own verify). Every vertex returned by CreateLeaf references tips of the previous snapshot that survived the call and has weight max(parents)+1; a failed add leaves no new vertex or index entry. After every scenario a fresh node syncs from node 0 and is held to the same structural oracle. One batch runs a two-node 1060-vertex ledger through a truncation and 60 hostile operations afterwards (weights above 1000, checkpointed parents); another cancels a truncation in the middle of its persisting walk and lets further truncations follow. Non-trivial = every snapshot after a mutating operation; distinct by (operation, outcome, tip/live/parked buckets). A dedicated workload lets 2-5 copies of one gossiped vertex race each other while its child is delivered as soon as the vertex is visible and one transaction is proposed twice at once: a refused copy must take nothing with it. Altered copies (amount, receiver, data, parents) of a vertex the node verified, admitted and then dropped are offered under the genuine hash and signatures: they must be refused. Parents created ahead of and behind the node's clock (1 ms to 30 days). Vertices whose seal does not recompute (six alterations) for every kind of transaction, countersigned ones included, on known parents and before the parent.",
			Assumptions: []string{ledgerAssume},
			MinEvals:    300, MinNontriv: 10,
		},
		Plan: ledgerPlan(8, 56),
		Worker: func(w *core.WorkerCtx) {
			runRandomScenarios(w, []string{"C09"}, w.Pick(12, 60), func(p *ledger.Profile) { p.PForge = 0.25; p.PReplay = 0.12 }, c09SyncAfter)
			concurrentDupChild(w, []string{"C09"})
			if w.Batch == 1 || (w.Thorough() && w.Batch%8 == 1) {
				c09DroppedThenTampered(w, []string{"C09"})
			}
			if w.Batch == 2 || (w.Thorough() && w.Batch%8 == 2) {
				c09ClockSkew(w)
			}
			if w.Batch == 3 || (w.Thorough() && w.Batch%8 == 3) {
				c09ForgedSeals(w)
			}
			c09Truncation(w)
		},
	})
	core.Register(&core.Check{
		Spec: core.Spec{
			Prop:        "C10",
			Rule:        "Same scenario engine with rule-breaking offers on every entry point: issuer = proposing node's wallet (local), issuer = sealer for gossiped vertices (also sealed by a wallet that is itself a node), issuer = genesis wallet, transactions with neither data nor spice, each also delivered before its parent and replayed from the orphan buffer. Each forbidden offer must return an error and leave neither vertex, parked entry nor index entry; every snapshot is scanned for self-sealed / genesis-issued / empty vertices; sync streams carrying a forbidden vertex on a tip or as a second root (zero parent hashes, zero left parent) must not yield a loaded node holding it. Non-trivial = forbidden offers; distinct by (rule, entry point, node role). 'No data' is offered in both spellings (absent slice, empty slice). One batch drives the gossip service of a whole node: an orphan, then a forbidden vertex on known parents (self sealed, empty in both spellings, issued by the genesis wallet), then the parent and the replay of the orphan buffer; the ledger must hold the orphan and nothing forbidden. Fixed scenarios: a sealer the node trusts offers forbidden vertices (the rules do not depend on who seals); vertices of weight 2^64-1, 2^64-2, 2^63 become tips of a joined node and its own wallet, the genesis wallet and an empty transaction are then proposed (the next weight wraps around). After truncation: two nodes with 1040 common vertices both truncate (the genesis vertex leaves the live graph); the genesis wallet then spends by gossip at the genesis node and by proposal at the joined node, next to a self sealed and an empty offer. A refused second LoadDag on a joined node, then genesis-wallet spends proposed and gossiped there.",
			Assumptions: []string{ledgerAssume},
			MinEvals:    300, MinNontriv: 8,
		},
		Plan: ledgerPlan(8, 56),
		Worker: func(w *core.WorkerCtx) {
			runRandomScenarios(w, []string{"C10"}, w.Pick(10, 50), func(p *ledger.Profile) { p.PRules = 0.35 }, nil)
			c10Genesis(w)
			if w.Batch == 1 || (w.Thorough() && w.Batch%8 == 1) {
				c10GossipPath(w)
			}
			if w.Batch == 2 || (w.Thorough() && w.Batch%8 == 2) {
				c10Trusted(w)
			}
			if w.Batch == 3 || (w.Thorough() && w.Batch%8 == 3) {
				c10HeaviestTip(w)
			}
			if w.Batch == 4 || (w.Thorough() && w.Batch%8 == 4) {
				c10AfterTruncation(w)
			}
		},
	})
}

// c03SyncReplay: the replay protection also holds for a ledger obtained by syncing. The peer's own stream is extended
// by a second, validly signed vertex of another sealer that wraps a transaction the stream already carries (first or
// last in stream order), and the same stream is offered again to a node whose first load was refused. Whatever the
// loader answers, the node must not hold one transaction in two vertices and its index must point at the holder.
func c03SyncReplay(d *ledger.Driver) {
	world := d.W
	src := world.Nodes[0]
	s, err := ledger.TakeSnap(src.Book)
	if err != nil || len(s.Stored) > 0 || len(s.Live) < 3 {
		return
	}
	var stream []*accountant.Vertex
	var tip ledger.H
	var wgt uint64
	var victim *accountant.Vertex
	for h, l := range s.Live {
		c := l.V
		stream = append(stream, &c)
		if s.Leaves[h] {
			tip, wgt = h, l.V.Weight
		}
		if l.V.Hash != world.Genesis.Hash && victim == nil {
			victim = &c
		}
	}
	if victim == nil {
		return
	}
	sealer := world.Sealers[0]
	if victim.SignerPublicAddress == sealer.Addr {
		sealer = world.Sealers[1]
	}
	dup := ledger.ForgeVertex(sealer, victim.Transaction, tip, tip, wgt+1, world.Now())
	for variant := 0; variant < 2; variant++ {
		st := append([]*accountant.Vertex{}, stream...)
		if variant == 0 {
			st = append(st, &dup)
		} else {
			st = append([]*accountant.Vertex{&dup}, st...)
		}
		n, loaded, _ := world.AddLoadedNode("R", st, false)
		if n == nil {
			continue
		}
		world.EvalFor("C03", 1)
		world.NontrivFor("C03", fmt.Sprintf("sync-replay/variant%d/loaded=%v", variant, loaded))
		if ns, err := ledger.TakeSnap(n.Book); err == nil {
			holders := 0
			for _, l := range ns.Live {
				if l.V.Transaction.Hash == victim.Transaction.Hash {
					holders++
				}
			}
			if holders > 1 {
				world.Violate("C03", "transaction-sealed-twice/sync", fmt.Sprintf("a synced node (loaded=%v) holds transaction %s in %d vertices: the stream carried it sealed by two nodes", loaded, ledger.Hex(victim.Transaction.Hash), holders))
			}
			if loaded {
				if vh, ok := ns.Index[victim.Transaction.Hash]; ok {
					if l, live := ns.Live[vh]; !live || l.V.Transaction.Hash != victim.Transaction.Hash {
						world.Violate("C03", "index-points-elsewhere/sync", fmt.Sprintf("the index of a synced node maps transaction %s to a vertex that does not hold it", ledger.Hex(victim.Transaction.Hash)))
					}
				}
			}
		}
		world.CloseNode(n)
	}
	world.Res.Count("c03_sync_replay_streams", 2)
}

// c09SyncAfter: the well-formedness holds on every node, also on one that obtained its ledger by syncing: a fresh node
// loads the stream of node 0 (snapshot oracles run on it: edges from exactly the declared live parents, ids, hashes,
// seals) and then takes part in a few more operations.
func c09SyncAfter(d *ledger.Driver) {
	world := d.W
	src := world.Nodes[0]
	if s, err := ledger.TakeSnap(src.Book); err != nil || len(s.Stored) > 0 {
		return
	}
	n, err := world.AddSyncedNode("SY", src)
	if err != nil || n == nil {
		return
	}
	world.NontrivFor("C09", "synced-node-structure")
	for i := 0; i < 3; i++ {
		t := world.NewTrx(world.Users[0], world.Users[1].Addr, spice.Melange{}, []byte("after sync"))
		world.Propose(n, &t, "on the synced node")
	}
	world.Res.Count("c09_synced_nodes_checked", 1)
}
