package checks

import (
	"context"
	"fmt"
	"github.com/bartossh/Computantis/src/transaction"
	"google.golang.org/protobuf/proto"
	"math/rand"
	"runtime"
	"sort"
	"strings"
	"sync"
	"time"
	"verifharness/svc"

	"github.com/bartossh/Computantis/src/accountant"
	"github.com/bartossh/Computantis/src/protobufcompiled"
	"github.com/bartossh/Computantis/src/spice"
	"github.com/bartossh/Computantis/src/transformers"

	"verifharness/core"
	"verifharness/ledger"
	"verifharness/vnet"
)

// C11 — gossip reaches every node exactly once and terminates.

type topo struct {
	name string
	k    int
	adj  [][]int
}

func mkTopo(name string, k int, edges [][2]int) topo {
	adj := make([][]int, k)
	for _, e := range edges {
		adj[e[0]] = append(adj[e[0]], e[1])
		adj[e[1]] = append(adj[e[1]], e[0])
	}
	return topo{name, k, adj}
}

// every connected unlabelled graph on 2-4 nodes
var smallTopos = []topo{
	mkTopo("K2", 2, [][2]int{{0, 1}}),
	mkTopo("P3", 3, [][2]int{{0, 1}, {1, 2}}),
	mkTopo("K3", 3, [][2]int{{0, 1}, {1, 2}, {0, 2}}),
	mkTopo("P4", 4, [][2]int{{0, 1}, {1, 2}, {2, 3}}),
	mkTopo("S4", 4, [][2]int{{0, 1}, {0, 2}, {0, 3}}),
	mkTopo("C4", 4, [][2]int{{0, 1}, {1, 2}, {2, 3}, {3, 0}}),
	mkTopo("paw", 4, [][2]int{{0, 1}, {1, 2}, {0, 2}, {2, 3}}),
	mkTopo("diamond", 4, [][2]int{{0, 1}, {1, 2}, {2, 3}, {3, 0}, {0, 2}}),
	mkTopo("K4", 4, [][2]int{{0, 1}, {0, 2}, {0, 3}, {1, 2}, {1, 3}, {2, 3}}),
}

func largeTopo(rng *rand.Rand, k int, kind string) topo {
	var e [][2]int
	switch kind {
	case "line":
		for i := 0; i+1 < k; i++ {
			e = append(e, [2]int{i, i + 1})
		}
	case "ring":
		for i := 0; i < k; i++ {
			e = append(e, [2]int{i, (i + 1) % k})
		}
	case "star":
		for i := 1; i < k; i++ {
			e = append(e, [2]int{0, i})
		}
	default: // random connected: a random spanning tree plus random extra edges
		for i := 1; i < k; i++ {
			e = append(e, [2]int{rng.Intn(i), i})
		}
		for x := 0; x < k; x++ {
			a, b := rng.Intn(k), rng.Intn(k)
			if a != b {
				dup := false
				for _, ed := range e {
					if (ed[0] == a && ed[1] == b) || (ed[0] == b && ed[1] == a) {
						dup = true
					}
				}
				if !dup {
					e = append(e, [2]int{a, b})
				}
			}
		}
	}
	return mkTopo(fmt.Sprintf("%s%d", kind, k), k, e)
}

type c11Exec struct {
	w       *core.WorkerCtx
	net     *vnet.Net
	t       topo
	rng     *rand.Rand
	choices []int // forced choice prefix (systematic enumeration)
	branch  []int // branching factor seen at each step
	policy  string
	dupProb float64
}

// drive delivers messages until logical quiescence.
func (x *c11Exec) drive() bool {
	step := 0
	for guard := 0; guard < 2000; guard++ {
		x.net.WaitStable(4)
		p := x.net.Pending()
		if len(p) == 0 {
			if x.net.Settle() && len(x.net.Pending()) == 0 {
				return true
			}
			continue
		}
		idx := 0
		switch {
		case step < len(x.choices):
			idx = x.choices[step] % len(p)
		case x.policy == "random":
			idx = x.rng.Intn(len(p))
		case x.policy == "lifo":
			best := 0
			for i, m := range p {
				if m.Seq > p[best].Seq {
					best = i
				}
			}
			idx = best
		case x.policy == "fifo":
			best := 0
			for i, m := range p {
				if m.Seq < p[best].Seq {
					best = i
				}
			}
			idx = best
		case x.policy == "starve":
			// starve the highest numbered node as long as anything else is deliverable
			idx = -1
			for i, m := range p {
				if m.To != x.t.k-1 {
					idx = i
					break
				}
			}
			if idx < 0 {
				idx = 0
			}
		}
		x.branch = append(x.branch, len(p))
		step++
		m := p[idx]
		if x.policy == "burst" && len(p) > 1 {
			// everything addressed to the same node at once (concurrent handler invocations)
			var wg sync.WaitGroup
			for _, o := range p {
				if o.To == m.To {
					wg.Add(1)
					go func(o *vnet.Msg) { defer wg.Done(); x.net.Deliver(o) }(o)
				}
			}
			wg.Wait()
			continue
		}
		x.net.Deliver(m)
		if x.dupProb > 0 && x.rng.Float64() < x.dupProb && !m.Dup {
			x.net.Inject(m.From, m.To, m.Kind, m.Item, m.Bytes, true)
		}
	}
	return false
}

type c11Item struct {
	kind   string
	hash   ledger.H
	origin int
	vrx    *accountant.Vertex
	trx    *transaction.Transaction
}

// c11Seal seals an awaiting contract at its origin exactly as notary Confirm does (take it off the awaiting cache,
// seal the countersigned transaction, hand the vertex to the piper).
func c11Seal(net *vnet.Net, it c11Item) (c11Item, error) {
	o := net.Nodes[it.origin]
	t := *it.trx
	ledger.CounterSign(&t, net.Users[2])
	if _, err := o.Cache.RemoveAwaitedTransaction(t.Hash, t.ReceiverAddress); err != nil {
		return c11Item{}, err
	}
	v, err := o.Book.CreateLeaf(context.Background(), &t)
	if err != nil {
		return c11Item{}, err
	}
	o.Pipe.SendVrx(&v)
	return c11Item{"vrx", v.Hash, it.origin, &v, nil}, nil
}

// originate creates an item at the origin exactly as the notary does: seal (or save as awaiting) and hand to the piper.
func c11Originate(net *vnet.Net, origin int, kind string, seq int) (c11Item, error) {
	o := net.Nodes[origin]
	u := net.Users
	switch kind {
	case "vrx":
		t := ledger.ForgeTrx(u[0], u[1+seq%3].Addr, fmt.Sprintf("item %d", seq), nil, spice.Melange{SupplementaryCurrency: uint64(1 + seq%9)}, time.Now().Add(-time.Minute))
		v, err := o.Book.CreateLeaf(context.Background(), &t)
		if err != nil {
			return c11Item{}, err
		}
		o.Pipe.SendVrx(&v)
		return c11Item{"vrx", v.Hash, origin, &v, nil}, nil
	default:
		t := ledger.ForgeTrx(u[1], u[2].Addr, fmt.Sprintf("contract %d", seq), []byte("contract body"), spice.Melange{}, time.Now().Add(-time.Minute))
		if err := o.Cache.SaveAwaitedTransaction(&t); err != nil {
			return c11Item{}, err
		}
		pt, err := transformers.TrxToProtoTrx(t)
		if err != nil {
			return c11Item{}, err
		}
		o.Pipe.SendTrx(pt)
		return c11Item{"trx", t.Hash, origin, nil, &t}, nil
	}
}

// c11Judge evaluates the exactly-once / forwarding oracle for the items of one execution.
func c11Judge(w *core.WorkerCtx, net *vnet.Net, t topo, items []c11Item, desc string, adversary int, reach map[int]bool) {
	r := w.R
	ev := net.Events()
	witness := func() any {
		var lines []string
		for _, e := range ev {
			if len(lines) > 80 {
				break
			}
			lines = append(lines, fmt.Sprintf("#%d node%d %s item=%s peer=%d ok=%v %s goss=%d bad=%d %s", e.Seq, e.Node, e.Kind, ledger.Hex(e.Item), e.Peer, e.OK, e.Err, len(e.Goss), e.BadG, e.Via))
		}
		return map[string]any{"execution": desc, "delivery_order": net.OrderString(), "events": lines}
	}
	addrOf := func(i int) string { return net.Nodes[i].Actor.Addr }
	for _, it := range items {
		sends := map[[2]int]int{}
		total := 0
		admitOK := map[int][]vnet.Event{}
		firstOK := map[int]int{}
		inDeliver := map[int]bool{}
		pulledOK := map[int]bool{}
		for _, e := range ev {
			if e.Item != it.hash {
				continue
			}
			switch e.Kind {
			case "deliver-start":
				inDeliver[e.Node] = true
			case "deliver-end":
				inDeliver[e.Node] = false
			case "addleaf", "save-awaited":
				if e.OK {
					admitOK[e.Node] = append(admitOK[e.Node], e)
					if _, ok := firstOK[e.Node]; !ok {
						firstOK[e.Node] = e.Seq
					}
					if e.Kind == "addleaf" && (e.Via == "pull" || !inDeliver[e.Node]) {
						pulledOK[e.Node] = true
					}
				}
			case "send":
				if e.Node == adversary {
					continue
				}
				sends[[2]int{e.Node, e.Peer}]++
				total++
				// (3) never to a node that is listed as a verified gossiper; the forwarder's own entry is there
				for _, g := range e.Goss {
					if g == addrOf(e.Peer) {
						r.Violate("C11", "sent-to-listed-gossiper", fmt.Sprintf("%s: node %d sent item %s to node %d although the message lists that node as a verified gossiper", desc, e.Node, ledger.Hex(it.hash), e.Peer), witness())
					}
				}
				own := false
				for _, g := range e.Goss {
					if g == addrOf(e.Node) {
						own = true
					}
				}
				if !own {
					r.Violate("C11", "forward-without-own-entry", fmt.Sprintf("%s: node %d forwarded item %s without its own valid gossiper entry", desc, e.Node, ledger.Hex(it.hash)), witness())
				}
				// (2) only after the node's own admission
				if e.Node != it.origin {
					if s, ok := firstOK[e.Node]; !ok || s > e.Seq {
						r.Violate("C11", "forwarded-before-own-admission", fmt.Sprintf("%s: node %d forwarded item %s before its own ledger / signature check accepted it", desc, e.Node, ledger.Hex(it.hash)), witness())
					}
				}
			}
		}
		for pair, c := range sends {
			if c > 1 {
				r.Violate("C11", "forwarded-twice-to-one-peer", fmt.Sprintf("%s: node %d sent item %s %d times to node %d", desc, pair[0], ledger.Hex(it.hash), c, pair[1]), witness())
			}
		}
		if total > t.k*(t.k-1) {
			r.Violate("C11", "message-bound-exceeded", fmt.Sprintf("%s: %d messages for one item in a %d node network (bound %d)", desc, total, t.k, t.k*(t.k-1)), witness())
		}
		r.Count("c11_messages", total)
		// (1) exactly once everywhere
		for j := 0; j < t.k; j++ {
			if j == adversary {
				continue
			}
			if reach != nil && !reach[j] {
				continue
			}
			held := false
			listed := 0
			switch it.kind {
			case "vrx":
				_, err := net.Nodes[j].Book.ReadVertex(context.Background(), it.hash)
				held = err == nil
				// the node's own two second retry ticker may have popped the vertex a moment ago (it is then neither
				// parked nor admitted yet): give an admission that is under way a bounded moment before judging
				for k := 0; !held && k < 100; k++ {
					time.Sleep(2 * time.Millisecond)
					net.Nodes[j].Book.VerifRetryOne(context.Background())
					_, err = net.Nodes[j].Book.ReadVertex(context.Background(), it.hash)
					held = err == nil
				}
			default:
				trxs, _ := net.Nodes[j].Cache.ReadTransactions(net.Users[2].Addr)
				for _, x := range trxs {
					if x.Hash == it.hash {
						listed++
					}
				}
				held = listed > 0
				if listed > 1 {
					r.Violate("C11", "awaiting-transaction-listed-twice", fmt.Sprintf("%s: node %d lists awaiting transaction %s %d times", desc, j, ledger.Hex(it.hash), listed), witness())
				}
			}
			n := len(admitOK[j])
			if j == it.origin {
				if n > 0 && it.kind == "vrx" {
					r.Violate("C11", "origin-admitted-own-item-again", fmt.Sprintf("%s: origin node %d admitted its own item %s through gossip", desc, j, ledger.Hex(it.hash)), witness())
				}
				continue
			}
			if n > 1 {
				r.Violate("C11", "admitted-twice", fmt.Sprintf("%s: node %d admitted item %s %d times", desc, j, ledger.Hex(it.hash), n), witness())
			}
			if !held {
				// known finding rule: every neighbour that holds the item got it outside a successful gossip admission
				sig := "undelivered"
				outside := 0
				holders := 0
				for _, nb := range t.adj[j] {
					if nb == adversary {
						continue
					}
					var h bool
					if it.kind == "vrx" {
						_, err := net.Nodes[nb].Book.ReadVertex(context.Background(), it.hash)
						h = err == nil
					} else {
						trxs, _ := net.Nodes[nb].Cache.ReadTransactions(net.Users[2].Addr)
						for _, x := range trxs {
							if x.Hash == it.hash {
								h = true
							}
						}
					}
					if h {
						holders++
						viaGossip := false
						for _, e := range admitOK[nb] {
							_ = e
							viaGossip = !pulledOK[nb]
						}
						if nb == it.origin {
							viaGossip = true
						}
						if !viaGossip {
							outside++
						}
					}
				}
				if holders == 0 {
					// no neighbour holds it either: the frontier node next to a holder is the one that is judged
					r.Count("c11_missing_behind_a_missing_node", 1)
					continue
				}
				if outside == holders && len(items) > 1 {
					sig = "undelivered/relay-admitted-outside-gossip"
				}
				r.Violate("C11", sig, fmt.Sprintf("%s: node %d never got item %s (%s) although the network is quiescent; %d neighbour(s) hold it, %d of them admitted it through retry/pull instead of a gossip message", desc, j, ledger.Hex(it.hash), it.kind, holders, outside), witness())
			}
		}
	}
}

// heal brings every node in line with node `from` by direct delivery (after executions that left nodes behind).
func c11Heal(net *vnet.Net, adversary int) {
	for round := 0; round < 3; round++ {
		for i, a := range net.Nodes {
			if i == adversary {
				continue
			}
			ctx, cancel := context.WithCancel(context.Background())
			var vs []*accountant.Vertex
			for v := range a.Book.StreamDAG(ctx) {
				vs = append(vs, v)
			}
			cancel()
			sort.Slice(vs, func(x, y int) bool { return vs[x].Weight < vs[y].Weight })
			for j, b := range net.Nodes {
				if j == adversary || j == i {
					continue
				}
				for _, v := range vs {
					if _, err := b.Book.ReadVertex(context.Background(), v.Hash); err != nil {
						b.Book.AddLeaf(context.Background(), ledger.CloneVertex(v))
					}
				}
			}
		}
		for i, a := range net.Nodes {
			if i == adversary {
				continue
			}
			for k := 0; k < 40; k++ {
				if ok, _ := a.Book.VerifRetryOne(context.Background()); !ok {
					break
				}
			}
		}
	}
}

func c11Retries(net *vnet.Net, adversary int) {
	for i, a := range net.Nodes {
		if i == adversary {
			continue
		}
		for k := 0; k < 30; k++ {
			if ok, _ := a.Book.VerifRetryOne(context.Background()); !ok {
				break
			}
		}
	}
}

// runTopology runs executions on one topology.
func c11RunTopology(w *core.WorkerCtx, t topo, rng *rand.Rand, budget int, orders map[string]bool) {
	net, err := vnet.Build(t.k, t.adj, -1)
	if err != nil {
		w.R.Inconc("cannot build the network: " + err.Error())
		return
	}
	defer net.Close()
	seq := 0
	exec := func(origin int, kinds []string, choices []int, policy string, dup float64) *c11Exec {
		seq++
		net.ResetExecution()
		x := &c11Exec{w: w, net: net, t: t, rng: rng, choices: choices, policy: policy, dupProb: dup}
		var items []c11Item
		for _, k := range kinds {
			seq++
			it, err := c11Originate(net, origin, k, seq)
			if err != nil {
				w.R.Note("originate failed: " + err.Error())
				return x
			}
			items = append(items, it)
		}
		desc := fmt.Sprintf("topology %s origin %d items %v policy %s choices %v", t.name, origin, kinds, policy, choices)
		w.Mark("%s", desc)
		if !x.drive() {
			w.R.Inconc("execution did not reach quiescence: " + desc)
			return x
		}
		c11Retries(net, -1)
		net.Settle()
		c11Judge(w, net, t, items, desc, -1, nil)
		w.R.Eval(1)
		w.R.Count("c11_executions", 1)
		orders[t.name+"/"+fmt.Sprint(origin)+"/"+strings.Join(kinds, "+")+"/"+net.OrderString()] = true
		if len(kinds) > 1 {
			c11Heal(net, -1)
		}
		return x
	}
	// an awaiting contract is gossiped, reaches everybody, and is then sealed at its origin: the sealing vertex travels
	// through nodes that remember the contract's own gossip (duplicate suppression is per item, not per transaction)
	execSeal := func(origin int, policy string) {
		seq++
		net.ResetExecution()
		it, err := c11Originate(net, origin, "trx", seq)
		if err != nil {
			return
		}
		x := &c11Exec{w: w, net: net, t: t, rng: rng, policy: policy}
		desc := fmt.Sprintf("topology %s origin %d items [trx, then the vertex sealing it] policy %s", t.name, origin, policy)
		w.Mark("%s", desc)
		if !x.drive() {
			w.R.Inconc("execution did not reach quiescence: " + desc)
			return
		}
		net.Settle()
		c11Judge(w, net, t, []c11Item{it}, desc+" (phase 1)", -1, nil)
		sv, err := c11Seal(net, it)
		if err != nil {
			w.R.Note("sealing failed: " + err.Error())
			return
		}
		net.ResetExecution()
		x2 := &c11Exec{w: w, net: net, t: t, rng: rng, policy: policy}
		if !x2.drive() {
			w.R.Inconc("execution did not reach quiescence: " + desc)
			return
		}
		c11Retries(net, -1)
		net.Settle()
		c11Judge(w, net, t, []c11Item{sv}, desc+" (phase 2)", -1, nil)
		// the sealed contract is no longer awaiting anywhere
		for j := 0; j < t.k; j++ {
			trxs, _ := net.Nodes[j].Cache.ReadTransactions(net.Users[2].Addr)
			for _, a := range trxs {
				if a.Hash == it.hash {
					if _, err := net.Nodes[j].Book.ReadVertex(context.Background(), sv.hash); err == nil {
						w.R.Violate("C11", "sealed-contract-still-awaiting", fmt.Sprintf("%s: node %d holds the sealing vertex and still lists the contract as awaiting", desc, j), nil)
					}
				}
			}
		}
		w.R.Eval(1)
		w.R.Count("c11_executions", 1)
		w.R.Count("c11_seal_executions", 1)
		w.R.Nontriv(fmt.Sprintf("%s/seal/origin%d/%s/%s", t.name, origin, policy, net.OrderString()))
		c11Heal(net, -1)
	}
	for origin := 0; origin < t.k && origin < 2; origin++ {
		execSeal(origin, []string{"fifo", "random"}[origin%2])
	}
	// systematic enumeration of delivery orders, one item in flight, every origin
	for origin := 0; origin < t.k && budget > 0; origin++ {
		for _, kind := range []string{"vrx", "trx"} {
			choices := []int{}
			for n := 0; n < budget; n++ {
				x := exec(origin, []string{kind}, choices, "fifo", 0)
				w.R.Nontriv(fmt.Sprintf("%s/origin%d/%s/order%s", t.name, origin, kind, net.OrderString()))
				// next choice vector (odometer over the branching factors seen)
				next := append([]int{}, choices...)
				if len(next) > len(x.branch) {
					next = next[:len(x.branch)]
				}
				for len(next) < len(x.branch) {
					next = append(next, 0)
				}
				for i := range next {
					if next[i] >= x.branch[i] {
						next[i] = x.branch[i] - 1
					}
				}
				i := len(next) - 1
				for i >= 0 {
					if next[i]+1 < x.branch[i] {
						next[i]++
						next = next[:i+1]
						break
					}
					i--
				}
				if i < 0 {
					w.R.Count("c11_enumerations_completed", 1)
					break
				}
				choices = next
			}
		}
	}
	// sampled policies: duplicates, lifo, starvation, concurrent bursts, mixed traffic, dependent items
	pol := []string{"random", "lifo", "starve", "burst", "random"}
	for i := 0; i < budget/2+2; i++ {
		origin := rng.Intn(t.k)
		p := pol[i%len(pol)]
		dup := 0.0
		if i%2 == 0 {
			dup = 0.3
		}
		switch i % 4 {
		case 0:
			exec(origin, []string{"vrx"}, nil, p, dup)
		case 1:
			exec(origin, []string{"trx"}, nil, p, dup)
		case 2:
			exec(origin, []string{"vrx", "trx"}, nil, p, dup)
		default:
			exec(origin, []string{"vrx", "vrx"}, nil, p, 0) // parent and child back to back
		}
		w.R.Nontriv(fmt.Sprintf("%s/sampled/%s/dup=%v/case%d/%s", t.name, p, dup > 0, i%4, net.OrderString()))
	}
}

// c11ConcurrentCopies: the same awaiting transaction reaches one node from several peers at the same moment (handlers
// run concurrently in a real server). The node forwards it at most once per duplicate-suppression window: every peer
// that is not listed gets one copy, not one per incoming copy.
func c11ConcurrentCopies(w *core.WorkerCtx, rng *rand.Rand) {
	r := w.R
	rig, err := svc.New(4, 60, 4096)
	if err != nil {
		r.Inconc("cannot build the node: " + err.Error())
		return
	}
	defer rig.Close()
	ctx := context.Background()
	rounds := w.Pick(4000, 40000)
	for i := 0; i < rounds; i++ {
		tr := ledger.ForgeTrx(rig.Users[1], rig.Users[2].Addr, fmt.Sprintf("concurrent copies %d", i), []byte("contract"), spice.Melange{}, time.Now().Add(-time.Minute))
		pt, err := transformers.TrxToProtoTrx(tr)
		if err != nil {
			continue
		}
		copies := 2 + rng.Intn(5)
		var wg sync.WaitGroup
		start := make(chan struct{})
		for c := 0; c < copies; c++ {
			wg.Add(1)
			go func() {
				defer wg.Done()
				<-start
				rig.Gossip.GossipTrx(ctx, &protobufcompiled.TrxMsgGossip{Trx: proto.Clone(pt).(*protobufcompiled.Transaction)})
			}()
		}
		close(start)
		wg.Wait()
		r.Eval(1)
		r.Count("c11_concurrent_copy_rounds", 1)
		for pi, p := range rig.Peers {
			if n := p.TrxCopies(pt.Hash); n > 1 {
				r.Violate("C11", "forwarded-twice-to-one-peer/concurrent-copies", fmt.Sprintf("%d copies of awaiting transaction %x arrived at the same moment: peer %d was sent it %d times", copies, pt.Hash[:4], pi, n), nil)
			}
		}
		trxs, _ := rig.Cache.ReadTransactions(rig.Users[2].Addr)
		listed := 0
		for _, a := range trxs {
			if a.Hash == tr.Hash {
				listed++
			}
		}
		if listed != 1 {
			r.Violate("C11", "awaiting-transaction-listed-twice/concurrent-copies", fmt.Sprintf("%d concurrent copies: the transaction is listed %d times", copies, listed), nil)
		}
		// keep the lists short
		rig.Cache.RemoveAwaitedTransaction(tr.Hash, rig.Users[2].Addr)
	}
	r.Nontriv("concurrent-copies")
}

// c11SmallCacheRelay: line A-B-C; the relay B runs with a much smaller awaiting cache than the others (a deployment
// choice), so a large contract does not fit it. B cannot hold the contract, but it has verified it: C, which has no
// other path, must still get it.
func c11SmallCacheRelay(w *core.WorkerCtx, rng *rand.Rand) {
	r := w.R
	t := mkTopo("line3-small-cache-relay", 3, [][2]int{{0, 1}, {1, 2}})
	vnet.CacheMB = map[int]int{1: 1}
	net, err := vnet.Build(t.k, t.adj, -1)
	vnet.CacheMB = map[int]int{}
	if err != nil {
		r.Inconc("cannot build network: " + err.Error())
		return
	}
	defer net.Close()
	for round := 0; round < 3; round++ {
		net.ResetExecution()
		o := net.Nodes[0]
		data := make([]byte, 60000+rng.Intn(60000))
		rng.Read(data)
		tr := ledger.ForgeTrx(net.Users[1], net.Users[2].Addr, fmt.Sprintf("large contract %d", round), data, spice.Melange{}, time.Now().Add(-time.Minute))
		if err := o.Cache.SaveAwaitedTransaction(&tr); err != nil {
			r.Note("small cache relay: the origin could not save the contract: " + err.Error())
			continue
		}
		pt, err := transformers.TrxToProtoTrx(tr)
		if err != nil {
			continue
		}
		o.Pipe.SendTrx(pt)
		desc := fmt.Sprintf("topology %s origin 0: a %d byte contract through a relay whose awaiting cache is 1 MB (the others: 256 MB) and refuses an entry of that size", t.name, len(data))
		w.Mark("%s", desc)
		x := &c11Exec{w: w, net: net, t: t, rng: rng, policy: "fifo"}
		if !x.drive() {
			r.Inconc("execution did not reach quiescence: " + desc)
			continue
		}
		net.Settle()
		held := func(i int) bool {
			trxs, _ := net.Nodes[i].Cache.ReadTransactions(net.Users[2].Addr)
			for _, a := range trxs {
				if a.Hash == tr.Hash {
					return true
				}
			}
			return false
		}
		r.Eval(1)
		r.Count("c11_executions", 1)
		r.Count("c11_small_cache_relay_executions", 1)
		r.Nontriv(fmt.Sprintf("%s/relay-holds=%v/%s", t.name, held(1), net.OrderString()))
		if !held(2) {
			r.Violate("C11", "undelivered/behind-a-relay-that-cannot-store", fmt.Sprintf("%s: node 2 never got the contract; the relay (holds it: %v) is its only path", desc, held(1)), nil)
		}
	}
}

// c11Burst: one node originates several items back to back (a busy notary): awaiting contracts saved and handed to the
// gossiper in a tight loop, and a run of vertices sealed first and then handed over together. Every message of every
// item must carry the origin's own valid entry for that very item whatever the scheduler does with the sending
// goroutines, so the run is repeated with one, two and all processors.
func c11Burst(w *core.WorkerCtx, rng *rand.Rand) {
	r := w.R
	for gi, procs := range []int{1, 2, 0, 0} {
		t := []topo{smallTopos[len(smallTopos)-1], smallTopos[1], smallTopos[len(smallTopos)-1], smallTopos[1]}[gi]
		if gi == 3 {
			// a hand-over pipe of four slots and bursts of three times as many items: more is waiting than the pipe holds
			vnet.PipeSlots = 4
		}
		net, err := vnet.Build(t.k, t.adj, -1)
		vnet.PipeSlots = 100
		if err != nil {
			r.Inconc("cannot build network: " + err.Error())
			return
		}
		prev := 0
		if procs > 0 {
			prev = runtime.GOMAXPROCS(procs)
		}
		for round := 0; round < w.Pick(2, 10); round++ {
			net.ResetExecution()
			origin := (round + gi) % t.k
			o := net.Nodes[origin]
			var items []c11Item
			burst := 3 + rng.Intn(4)
			if gi == 3 {
				burst = 12
			}
			kind := []string{"trx", "vrx"}[round%2]
			if kind == "trx" {
				for i := 0; i < burst; i++ {
					it, err := c11Originate(net, origin, "trx", 1000*gi+100*round+i)
					if err == nil {
						items = append(items, it)
					}
				}
			} else {
				var vs []accountant.Vertex
				for i := 0; i < burst; i++ {
					tr := ledger.ForgeTrx(net.Users[0], net.Users[1+i%3].Addr, fmt.Sprintf("burst %d %d %d", gi, round, i), nil, spice.Melange{SupplementaryCurrency: uint64(1 + i)}, time.Now().Add(-time.Minute))
					v, err := o.Book.CreateLeaf(context.Background(), &tr)
					if err == nil {
						vs = append(vs, v)
					}
				}
				for i := range vs {
					o.Pipe.SendVrx(&vs[i])
					items = append(items, c11Item{"vrx", vs[i].Hash, origin, &vs[i], nil})
				}
			}
			desc := fmt.Sprintf("topology %s origin %d: burst of %d %s items handed to the gossiper back to back, GOMAXPROCS=%d", t.name, origin, len(items), kind, runtime.GOMAXPROCS(0))
			w.Mark("%s", desc)
			x := &c11Exec{w: w, net: net, t: t, rng: rng, policy: []string{"fifo", "random", "lifo"}[round%3]}
			if !x.drive() {
				r.Inconc("execution did not reach quiescence: " + desc)
				break
			}
			c11Retries(net, -1)
			net.Settle()
			c11Judge(w, net, t, items, desc, -1, nil)
			r.Eval(1)
			r.Count("c11_executions", 1)
			r.Count("c11_burst_executions", 1)
			r.Nontriv(fmt.Sprintf("burst/%s/%s/procs%d/%s", t.name, kind, procs, net.OrderString()))
			c11Heal(net, -1)
		}
		if procs > 0 {
			runtime.GOMAXPROCS(prev)
		}
		net.Close()
	}
}

// c11NodeWalletIssuer: the wallet that runs a node is an ordinary wallet too. A contract issued by the wallet of node
// j and proposed at another node must travel like any other vertex, through j and past it.
func c11NodeWalletIssuer(w *core.WorkerCtx, rng *rand.Rand) {
	r := w.R
	for _, t := range []topo{smallTopos[1], smallTopos[3], smallTopos[4]} {
		net, err := vnet.Build(t.k, t.adj, -1)
		if err != nil {
			r.Inconc("cannot build network: " + err.Error())
			return
		}
		seq := 0
		for origin := 0; origin < t.k; origin++ {
			for j := 0; j < t.k; j++ {
				if j == origin {
					continue
				}
				net.ResetExecution()
				seq++
				o := net.Nodes[origin]
				tr := ledger.ForgeTrx(net.Nodes[j].Actor, net.Users[1+seq%3].Addr, fmt.Sprintf("contract of a node wallet %d", seq), []byte("contract body"), spice.Melange{}, time.Now().Add(-time.Minute))
				v, err := o.Book.CreateLeaf(context.Background(), &tr)
				if err != nil {
					r.Note("node wallet issuer: the origin refused the proposal: " + err.Error())
					continue
				}
				o.Pipe.SendVrx(&v)
				it := c11Item{"vrx", v.Hash, origin, &v, nil}
				desc := fmt.Sprintf("topology %s origin %d: a contract issued by the wallet of node %d", t.name, origin, j)
				w.Mark("%s", desc)
				x := &c11Exec{w: w, net: net, t: t, rng: rng, policy: []string{"fifo", "random"}[seq%2]}
				if !x.drive() {
					r.Inconc("execution did not reach quiescence: " + desc)
					continue
				}
				c11Retries(net, -1)
				net.Settle()
				c11Judge(w, net, t, []c11Item{it}, desc, -1, nil)
				r.Eval(1)
				r.Count("c11_executions", 1)
				r.Count("c11_node_wallet_issuer_executions", 1)
				r.Nontriv(fmt.Sprintf("node-wallet-issuer/%s/origin%d/issuer%d/%s", t.name, origin, j, net.OrderString()))
				c11Heal(net, -1)
			}
		}
		net.Close()
	}
}

// c11MergeVertex: two nodes seal a vertex on the same tip at the same moment; once both vertices are everywhere the
// ledger has two tips, and the next vertex sealed anywhere names two different parents. That vertex travels like any
// other: to every node, exactly once.
func c11MergeVertex(w *core.WorkerCtx, rng *rand.Rand) {
	r := w.R
	for ti, t := range []topo{smallTopos[1], smallTopos[2], smallTopos[3]} {
		net, err := vnet.Build(t.k, t.adj, -1)
		if err != nil {
			r.Inconc("cannot build network: " + err.Error())
			return
		}
		for round := 0; round < w.Pick(2, 8); round++ {
			net.ResetExecution()
			a, b := round%t.k, (round+1+ti)%t.k
			if a == b {
				b = (b + 1) % t.k
			}
			i1, e1 := c11Originate(net, a, "vrx", 7000+10*round)
			i2, e2 := c11Originate(net, b, "vrx", 7001+10*round)
			if e1 != nil || e2 != nil {
				continue
			}
			x := &c11Exec{w: w, net: net, t: t, rng: rng, policy: "fifo"}
			if !x.drive() {
				r.Inconc("fork execution did not reach quiescence")
				break
			}
			c11Retries(net, -1)
			net.Settle()
			// the merge: sealed where both tips are known
			origin := (round + 2) % t.k
			s, err := ledger.TakeSnap(net.Nodes[origin].Book)
			if err != nil || len(s.Leaves) < 2 {
				r.Count("c11_merge_rounds_without_a_fork", 1)
				c11Heal(net, -1)
				continue
			}
			net.ResetExecution()
			m, err := c11Originate(net, origin, "vrx", 7002+10*round)
			if err != nil {
				continue
			}
			twoParents := m.vrx != nil && m.vrx.LeftParentHash != m.vrx.RightParentHash
			desc := fmt.Sprintf("topology %s: nodes %d and %d sealed %s and %s on one tip; node %d then sealed a vertex on both (two different parents: %v)", t.name, a, b, ledger.Hex(i1.hash), ledger.Hex(i2.hash), origin, twoParents)
			w.Mark("%s", desc)
			x = &c11Exec{w: w, net: net, t: t, rng: rng, policy: []string{"fifo", "random"}[round%2]}
			if !x.drive() {
				r.Inconc("execution did not reach quiescence: " + desc)
				break
			}
			c11Retries(net, -1)
			net.Settle()
			c11Judge(w, net, t, []c11Item{m}, desc, -1, nil)
			r.Eval(1)
			r.Count("c11_executions", 1)
			if twoParents {
				r.Count("c11_merge_vertex_executions", 1)
			}
			r.Nontriv(fmt.Sprintf("merge-vertex/%s/two-parents=%v/%s", t.name, twoParents, net.OrderString()))
			c11Heal(net, -1)
		}
		net.Close()
	}
}

// c11Witness is the fixed schedule of the known finding: line A-C-D, parent and child created back to back at A,
// the child reaches relay C first.
func c11Witness(w *core.WorkerCtx) {
	t := smallTopos[1] // P3: 0-1-2
	net, err := vnet.Build(3, t.adj, -1)
	if err != nil {
		w.R.Inconc("cannot build the witness network")
		return
	}
	defer net.Close()
	net.ResetExecution()
	p, err1 := c11Originate(net, 0, "vrx", 1)
	net.WaitSent()
	c, err2 := c11Originate(net, 0, "vrx", 2)
	if err1 != nil || err2 != nil {
		w.R.Inconc("witness items could not be created")
		return
	}
	net.WaitSent()
	// deliver the child's message first
	for guard := 0; guard < 50; guard++ {
		net.WaitStable(4)
		pend := net.Pending()
		if len(pend) == 0 {
			if net.Settle() && len(net.Pending()) == 0 {
				break
			}
			continue
		}
		pick := pend[0]
		for _, m := range pend {
			if m.Item == c.hash {
				pick = m
			}
		}
		net.Deliver(pick)
	}
	c11Retries(net, -1)
	net.Settle()
	desc := "fixed witness: line 0-1-2, parent and child created back to back at node 0, the child's message delivered to relay 1 first"
	c11Judge(w, net, t, []c11Item{p, c}, desc, -1, nil)
	w.R.Eval(1)
	w.R.Sample(2, map[string]any{"witness": desc, "delivery_order": net.OrderString()})
}

func c11Worker(w *core.WorkerCtx) {
	rng := core.Rand(w.Seed, "C11", w.Batch)
	orders := map[string]bool{}
	if w.Batch == 0 {
		c11Witness(w)
	}
	if w.Batch == 1 {
		c11SmallCacheRelay(w, core.Rand(w.Seed, "C11cache", w.Batch))
	}
	if w.Batch == 2 {
		c11ConcurrentCopies(w, core.Rand(w.Seed, "C11conc", w.Batch))
	}
	if w.Batch == 3 {
		c11Burst(w, core.Rand(w.Seed, "C11burst", w.Batch))
	}
	if w.Batch == 4 {
		c11NodeWalletIssuer(w, core.Rand(w.Seed, "C11nodewallet", w.Batch))
	}
	if w.Batch == 5 {
		c11MergeVertex(w, core.Rand(w.Seed, "C11merge", w.Batch))
	}
	// the 9 small graphs are spread over the batches; larger graphs are sampled
	for ti, t := range smallTopos {
		if ti%w.Batches != w.Batch%w.Batches {
			continue
		}
		c11RunTopology(w, t, rng, w.Pick(6, 400), orders)
	}
	kinds := []string{"line", "ring", "star", "random"}
	for i := 0; i < w.Pick(1, 4); i++ {
		k := 5 + rng.Intn(3)
		t := largeTopo(rng, k, kinds[(w.Batch+i)%len(kinds)])
		c11RunTopology(w, t, rng, w.Pick(2, 20), orders)
	}
	w.R.Count("c11_distinct_delivery_orders", len(orders))
	i := 0
	for o := range orders {
		if i < 3 {
			w.R.Sample(6, map[string]any{"executed_delivery_order": o})
		}
		i++
	}
	_ = protobufcompiled.Gossiper{}
}

func init() {
	core.Register(&core.Check{
		Spec: core.Spec{
			Prop:        "C11",
			Rule:        "Virtual network of real nodes (real ledger, gossiper, flashback, awaiting cache, juggler) whose peer clients are stubs: a stub call marshals the message and blocks until the harness scheduler delivers it to the target's real handler. Topologies: all 9 connected unlabelled graphs on 2-4 nodes with every origin, plus sampled line/ring/star/random graphs on 5-7 nodes. One item in flight (vertex or awaiting transaction): delivery orders are enumerated systematically (choice vectors over the sorted in-flight set, odometer; bounded per tier), plus sampled policies (random, LIFO, starve-one-node, concurrent bursts to one node, 30% duplicates), mixed vertex+transaction traffic and parent+child created back to back. At logical quiescence (nothing in flight, no handler running, no gossiper goroutine outside its idle loop; parked vertices stepped through the retry hook): every honest node holds every item accepted at its origin with exactly one successful admission (awaiting transactions listed once), per (node,item) at most one send to any peer and only after the node's own admission, no send to a node listed as verified gossiper, forwarder's own valid entry present, at most k(k-1) messages per item. Gossiper entries are verified by the harness's own ed25519 check. Non-trivial = every execution; distinct by (topology, origin, item kinds, delivery order). One scenario gives the relay of a line a much smaller awaiting cache than its neighbours: a contract that does not fit it must still reach the node behind it. Also: an awaiting contract is gossiped to quiescence and then sealed at its origin (as notary Confirm does); the sealing vertex must reach every node although they all remember the contract's own gossip, and no node may keep listing the sealed contract as awaiting. Originator bursts: 3-6 contracts or vertices handed to the gossiper back to back, under GOMAXPROCS 1, 2 and all (with one processor a started sender does not run until the loop blocks). Contracts issued by the wallet of one node and proposed at another (line, path, star; every origin and issuer). Merge vertices: two nodes seal on one tip at the same moment; once both vertices are everywhere a third vertex names both as parents and must reach every node. A hand-over pipe of four slots with bursts of twelve items.",
			Assumptions: []string{"message order is controlled by the scheduler; interleavings inside one handler are the real ones", "the 20 s duplicate-suppression window is longer than any execution"},
			MinEvals:    40, MinNontriv: 20,
		},
		Plan: func(tier string) core.Plan {
			if tier == "thorough" {
				return core.Plan{Batches: 9, Parallel: 9, Timeout: 90 * time.Minute}
			}
			return core.Plan{Batches: 9, Parallel: 9, Timeout: 10 * time.Minute}
		},
		Worker: c11Worker,
	})
}
