package checks

import (
	"fmt"
	"time"

	"github.com/bartossh/Computantis/src/spice"

	"verifharness/core"
	"verifharness/ledger"
)

// longScenario runs one truncation scenario reporting the given properties.
func longScenario(w *core.WorkerCtx, report []string, idx int, o ledger.LongOpts) {
	rng := core.Rand(w.Seed, "long", w.Prop, w.Batch, idx)
	o.Tag = fmt.Sprintf("n%d/size%d/trunc%d/between%d/race=%v/multitip=%v", o.Nodes, o.Size, o.Truncations, o.Between, o.Race, o.MultiTip)
	desc := fmt.Sprintf("long/%s seed=%d batch=%d idx=%d", o.Tag, w.Seed, w.Batch, idx)
	w.Mark("scenario %s", desc)
	world := ledger.NewWorld(rng, w.R, report, allSnapOracles, desc)
	defer world.Close()
	if err := ledger.RunLong(world, o); err != nil {
		w.R.Inconc("long scenario failed to build: " + err.Error())
		return
	}
	w.R.Count("long_scenarios", 1)
	if idx == 0 {
		tr := world.Trace
		if len(tr) > 12 {
			tr = tr[len(tr)-12:]
		}
		w.R.Sample(4, map[string]any{"scenario": desc, "last_operations": tr})
	}
}

func c07Opts(w *core.WorkerCtx, k int) ledger.LongOpts {
	rng := core.Rand(w.Seed, "C07opts", w.Batch, k)
	o := ledger.LongOpts{Nodes: 1, Size: 1001 + rng.Intn(400), Truncations: 1, Between: 1010 + rng.Intn(400), PostOps: 40}
	switch (w.Batch + k) % 4 {
	case 0: // chain, two truncations
		o.Truncations = 2
	case 1: // wide DAG from two nodes
		o.Nodes = 2
	case 2: // several tips at the moment of truncation
		o.MultiTip = true
	case 3: // truncation racing with proposals; cut close to the minimum length
		o.Race = true
		o.Size = 1300 + rng.Intn(100)
	}
	if w.Thorough() && k%5 == 4 {
		o.Nodes = 3
		o.Truncations = 2
	}
	return o
}

// c07Witness is the fixed scenario of the known finding balance-changed/side-tip: checkpoint funds are global, so a tip
// that does not descend from the cut vertex sees the whole checkpoint after the truncation.
func c07Witness(w *core.WorkerCtx) {
	rng := core.Rand(w.Seed, "C07w")
	desc := "c07 fixed witness: 1040-vertex chain plus one harness-sealed side tip on the 5th vertex, then truncation started from the main tip"
	world := ledger.NewWorld(rng, w.R, []string{"C07"}, allSnapOracles, desc)
	defer world.Close()
	d, err := ledger.Setup(world, ledger.Profile{Nodes: 1, Users: 4, SupplyClass: 0, Delivery: "lockstep"})
	if err != nil {
		w.R.Inconc("witness setup failed: " + err.Error())
		return
	}
	n := world.Nodes[0]
	u := world.Users
	var old ledger.H
	var oldW uint64
	world.Quiet = true
	for i := 0; i < 1040; i++ {
		t := world.NewTrx(u[0], u[1+i%3].Addr, spice.Melange{SupplementaryCurrency: uint64(1 + i%9)}, nil)
		v, err := world.Propose(n, &t, "grow")
		if err == nil && i == 4 {
			old, oldW = v.Hash, v.Weight
		}
	}
	world.Quiet = false
	world.Observe(n, ledger.OpInfo{Kind: "milestone", OK: true})
	st := world.NewTrx(u[0], u[3].Addr, spice.Melange{SupplementaryCurrency: 5}, nil)
	side := ledger.ForgeVertex(world.Sealers[0], st, old, old, oldW+1, world.Now())
	if err := world.Deliver(n, &side, "side tip on an old vertex"); err != nil {
		w.R.Inconc("witness side tip refused: " + err.Error())
		return
	}
	for attempt := 0; attempt < 12; attempt++ {
		before := len(n.Prev.Stored)
		world.TruncateChecked(n, d, false)
		if len(n.Prev.Stored) > before {
			break // the walk started from the main tip and moved something
		}
	}
	world.NontrivFor("C07", "witness/side-tip")
	w.R.Sample(5, map[string]any{"witness": desc, "checkpointed": len(n.Prev.Stored), "tips": len(n.Prev.Leaves)})
}

// c07GrossOverflow is the fixed scenario of the known finding checkpoint-funds-differ/gross-flow-beyond-2^64: a wallet
// whose inflow, summed over the vertices one truncation checkpoints, exceeds 2^64-1 units although its balance never
// does. Supply 2^64-2 to U0; U0 pays WH 2^63; WH pays 2^63-10 back; 1020 more vertices between other wallets; truncation.
func c07GrossOverflow(w *core.WorkerCtx, report []string) {
	rng := core.Rand(w.Seed, "C07gross")
	desc := "gross inflow beyond 2^64: supply 2^64-2 to U0, U0->WH 2^63, WH->U0 2^63-10, 1020 vertices between U1 and U2, truncation"
	world := ledger.NewWorld(rng, w.R, report, allSnapOracles, desc)
	defer world.Close()
	d, err := ledger.Setup(world, ledger.Profile{Nodes: 1, Users: 4, SupplyClass: 1, Delivery: "lockstep"})
	if err != nil {
		w.R.Inconc("gross overflow witness setup failed: " + err.Error())
		return
	}
	n := world.Nodes[0]
	u := world.Users
	wh := ledger.NewActor("WH")
	world.Extra = append(world.Extra, wh)
	world.Keys[wh.Addr] = wh.W.Public
	for i := 1; i <= 2; i++ {
		t := world.NewTrx(u[0], u[i].Addr, spice.Melange{Currency: 150}, nil)
		world.Propose(n, &t, "fund")
	}
	t1 := world.NewTrx(u[0], wh.Addr, spice.Melange{Currency: 1 << 63}, nil)
	world.Propose(n, &t1, "U0 pays WH 2^63")
	t2 := world.NewTrx(wh, u[0].Addr, spice.Melange{Currency: 1<<63 - 10}, nil)
	world.Propose(n, &t2, "WH pays 2^63-10 back")
	world.Quiet = true
	for i := 0; i < 1020; i++ {
		t := world.NewTrx(u[1+i%2], u[2-i%2].Addr, spice.Melange{SupplementaryCurrency: uint64(1 + i%9)}, nil)
		world.Propose(n, &t, "grow")
	}
	world.Quiet = false
	world.Observe(n, ledger.OpInfo{Kind: "milestone", OK: true})
	for a := 0; a < 3; a++ {
		before := len(n.Prev.Stored)
		world.TruncateChecked(n, d, false)
		if len(n.Prev.Stored) > before {
			break
		}
	}
	world.NontrivFor("C07", "witness/gross-flow-beyond-2^64")
	w.R.Sample(5, map[string]any{"witness": desc, "checkpointed": len(n.Prev.Stored)})
}

// c07HeavyData: the vertices below the cut carry large contracts (about 13 MB in one truncation): every one of them must
// come back from the storage afterwards.
func c07HeavyData(w *core.WorkerCtx) {
	rng := core.Rand(w.Seed, "C07heavy")
	desc := "c07 heavy data: 210 vertices with 64 KiB contracts, 1030 light vertices on top, truncation, every vertex read back"
	world := ledger.NewWorld(rng, w.R, []string{"C07"}, allSnapOracles, desc)
	defer world.Close()
	d, err := ledger.Setup(world, ledger.Profile{Nodes: 1, Users: 4, SupplyClass: 0, Delivery: "lockstep"})
	if err != nil {
		w.R.Inconc("heavy data setup failed: " + err.Error())
		return
	}
	n := world.Nodes[0]
	u := world.Users
	world.Quiet = true
	blob := make([]byte, 64<<10)
	for i := 0; i < 210; i++ {
		rng.Read(blob[:64])
		t := world.NewTrx(u[0], u[1+i%3].Addr, spice.Melange{SupplementaryCurrency: uint64(i % 3)}, append([]byte{}, blob...))
		world.Propose(n, &t, "heavy")
	}
	for i := 0; i < 1030; i++ {
		t := world.NewTrx(u[0], u[1+i%3].Addr, spice.Melange{SupplementaryCurrency: uint64(1 + i%9)}, nil)
		world.Propose(n, &t, "grow")
	}
	world.Quiet = false
	world.Observe(n, ledger.OpInfo{Kind: "milestone", OK: true})
	world.TruncateChecked(n, d, false)
	world.NontrivFor("C07", "heavy-data")
	w.R.Count("c07_heavy_data_scenarios", 1)
	w.R.Sample(5, map[string]any{"scenario": desc, "checkpointed": len(n.Prev.Stored)})
}

func c07Worker(w *core.WorkerCtx) {
	if w.Batch == 3 {
		c07GrossOverflow(w, []string{"C07"})
	}
	if w.Batch == 0 {
		c07HeavyData(w)
	}
	if w.Batch == 0 {
		c07Witness(w)
	}
	if w.Batch == 1 {
		// "leaves later transfers validated against the same funds as before", also for the transfer that is
		// validated while the truncation runs
		c01TruncationRace(w, []string{"C07"})
	}
	if w.Batch == 2 || (w.Thorough() && w.Batch%3 == 1) {
		// "leaves later transfers validated against the same funds as before", for the transfer that sat on a tentative
		// tip whose parents the truncation cut away: it is validated, as a root of the graph, against the checkpoint
		c02RootTip(w, []string{"C07"})
	}
	if w.Batch == 3 || (w.Thorough() && w.Batch%3 == 0) {
		// three truncations in a row, the third one over a storage that already holds well over two thousand entries
		// (vertices and funds of the first two): "also across repeated truncations"
		longScenario(w, []string{"C07"}, 800, ledger.LongOpts{Nodes: 1, Size: 1040, Truncations: 3, Between: 1150, PostOps: 20})
	}
	n := w.Pick(1, 3)
	for k := 0; k < n; k++ {
		longScenario(w, []string{"C07"}, k, c07Opts(w, k))
	}
	if w.Batch == 2 || (w.Thorough() && w.Batch%3 == 2) {
		// amounts near 2^63 moving through several wallets below the cut
		rng := core.Rand(w.Seed, "C07whale", w.Batch)
		longScenario(w, []string{"C07", "C05"}, 600, ledger.LongOpts{Nodes: 1, Size: 1020 + rng.Intn(60), Truncations: 1, PostOps: 30, Whale: true})
	}
	if w.Batch == 1 || (w.Thorough() && w.Batch%3 == 1) {
		// a truncation cancelled in the middle of its persisting walk, then the next attempts
		rng := core.Rand(w.Seed, "C07int", w.Batch)
		longScenario(w, []string{"C07", "C09"}, 500, ledger.LongOpts{Nodes: 1, Size: 1030 + rng.Intn(80), Truncations: 2, Between: 200 + rng.Intn(200), MultiTip: rng.Intn(2) == 0, PostOps: 30, Interrupt: true})
	}
}

func c01Truncation(w *core.WorkerCtx) {
	if w.Batch == 2 || (w.Thorough() && w.Batch%8 == 2) {
		// a truncation cancelled half way, then further attempts and overdrawing traffic
		longScenario(w, []string{"C01"}, 1001, ledger.LongOpts{Nodes: 1, Size: 1040, Truncations: 2, Between: 150, PostOps: 80, Interrupt: true})
		return
	}
	if w.Batch != 0 && !w.Thorough() {
		return
	}
	if w.Thorough() && w.Batch%8 != 0 {
		return
	}
	longScenario(w, []string{"C01"}, 1000, ledger.LongOpts{Nodes: 1, Size: 1050, Truncations: 2, Between: 1300, MultiTip: true, PostOps: 60})
}

func c09Truncation(w *core.WorkerCtx) {
	if w.Batch == 1 || (w.Thorough() && w.Batch%8 == 1) {
		// a truncation cancelled half way, then further attempts: the graph stays well formed, nothing dangles
		longScenario(w, []string{"C09"}, 1001, ledger.LongOpts{Nodes: 1, Size: 1040, Truncations: 2, Between: 150, MultiTip: true, PostOps: 40, Interrupt: true})
		return
	}
	if w.Batch != 0 && !w.Thorough() {
		return
	}
	if w.Thorough() && w.Batch%8 != 0 {
		return
	}
	longScenario(w, []string{"C09"}, 1000, ledger.LongOpts{Nodes: 2, Size: 1060, Truncations: 1, MultiTip: true, PostOps: 60})
}

func c02Truncation(w *core.WorkerCtx) {
	if w.Batch == 2 || (w.Thorough() && w.Batch%8 == 2) {
		// a truncation cancelled half way, further attempts, then spends: nothing may be forgotten or counted twice
		longScenario(w, []string{"C02"}, 1003, ledger.LongOpts{Nodes: 1, Size: 1035, Truncations: 2, Between: 150, PostOps: 80, Interrupt: true})
		return
	}
	if w.Batch != 0 && !w.Thorough() {
		return
	}
	if w.Thorough() && w.Batch%8 != 0 {
		return
	}
	longScenario(w, []string{"C02"}, 1000, ledger.LongOpts{Nodes: 1, Size: 1030, Truncations: 2, Between: 1300, PostOps: 60})
}

func c06Truncation(w *core.WorkerCtx) {
	if w.Batch == 3 || (w.Thorough() && w.Batch%8 == 3) {
		// a truncation cancelled half way, further attempts: balances stay the reference sums
		longScenario(w, []string{"C06"}, 1003, ledger.LongOpts{Nodes: 1, Size: 1035, Truncations: 2, Between: 150, PostOps: 40, Interrupt: true})
		return
	}
	if w.Batch != 0 && !w.Thorough() {
		return
	}
	if w.Thorough() && w.Batch%8 != 0 {
		return
	}
	longScenario(w, []string{"C06"}, 1000, ledger.LongOpts{Nodes: 1, Size: 1040, Truncations: 1, PostOps: 40})
	// two truncations, a wallet that is drained to exactly zero in between: the second checkpoint must replace the first
	longScenario(w, []string{"C06"}, 1001, ledger.LongOpts{Nodes: 1, Size: 1030, Truncations: 2, Between: 1060, PostOps: 30})
}

// c03Truncation: replay protection across a truncation: checkpointed vertices and transactions offered again (the same
// vertex, the same transaction proposed again, the same transaction re-wrapped by another sealer) and hostile replay
// traffic afterwards, under the uniqueness / index oracle over live and checkpointed vertices.
func c03Truncation(w *core.WorkerCtx) {
	if w.Batch != 2 && !(w.Thorough() && w.Batch%8 == 2) {
		return
	}
	longScenario(w, []string{"C03"}, 1002, ledger.LongOpts{Nodes: 1, Size: 1030, Truncations: 1, PostOps: 60})
}

func init() {
	core.Register(&core.Check{
		Spec: core.Spec{
			Prop:        "C07",
			Rule:        "Ledgers of 1001-1400 vertices (single-node chains; wide DAGs from 2-3 nodes with lagging exchange; several tips through forged side branches; valid, all-funds, boundary and overdrawing transfers) are truncated through the hook that calls the real truncate, once or repeatedly (>= 1010 vertices in between), optionally racing with concurrent proposals. Around every truncation: per-tip reference balances and, single-tipped, the node's own CalculateBalance answers are identical before/after; every vertex and transaction ever seen confirmed is read back by hash with identical fields and still verifies; re-submission of checkpointed vertices/transactions (same vertex, same transaction, re-wrapped by another sealer) is refused; checkpoint funds per address equal the big-integer net flow of exactly the stored vertices; stored set only grows, nothing lost, nothing both live and stored; fixed scenarios: the side-tip and the gross-flow witnesses of the known findings, a truncation that moves about 13 MB of contracts in one go; one scenario cancels the first truncation in the middle of its persisting walk (a context that fires once m more vertices are in the storage) and demands that the interrupted attempt and every later attempt (which the code refuses) stay transparent in the same sense; afterwards hostile traffic runs under the C01/C02/C03/C09 oracles. Non-trivial = every truncation and every lookup/re-offer after it; distinct by (nodes, tips, live bucket, prior checkpoint, moved bucket, race). Around every judged truncation without racing writers four clients keep asking for balances: every answer must be the one given before the truncation. One batch runs the truncation-race scenario (a tentative tip that only the doubly counted checkpoint would cover, truncation racing with 24 proposals). Overspend probes: at the end of every long scenario (single tip) each wallet proposes one smallest unit more than it owns over all vertices of the ledger, each counted once, followed by proposals that make the node judge that tip; every second wallet then spends exactly what it owns. One batch runs three truncations in a row (1150 vertices in between), the third over a storage of well over two thousand entries. Orphaned tip: a transfer of 50 by a wallet that holds 10 sits on a tentative tip whose parent the truncation cuts away; the node's next own vertices must not confirm it (the wallet holds 10 before and after the truncation).",
			Assumptions: []string{ledgerAssume, "the cut position is what the real code picks (1000th visited ancestor of a map-order tip); the workload varies ledger length and shape around it"},
			MinEvals:    500, MinNontriv: 3,
			MinCounters: map[string]int{"c07_truncations": 2, "c07_vertices_checkpointed": 1},
		},
		Plan: func(tier string) core.Plan {
			if tier == "thorough" {
				return core.Plan{Batches: 14, Parallel: 14, Timeout: 60 * time.Minute}
			}
			return core.Plan{Batches: 4, Parallel: 4, Timeout: 15 * time.Minute}
		},
		Worker: c07Worker,
	})
}
