package checks

import (
	"context"
	"fmt"
	"github.com/bartossh/Computantis/src/transaction"
	"os"
	"sync"
	"sync/atomic"
	"time"
	"verifharness/vnet"

	"github.com/bartossh/Computantis/src/accountant"
	"github.com/bartossh/Computantis/src/spice"

	"verifharness/core"
	"verifharness/gmon"
	"verifharness/ledger"
)

// C08 — ledger operations never wedge the node.

// countCtx is a context whose Done channel is closed from the (k+1)-th look at it on: the ledger consults
// ctx.Done() exactly once per visited ancestor, so this cancels after exactly k visited ancestors.
type countCtx struct {
	context.Context
	n      atomic.Int64
	k      int64
	closed chan struct{}
	open   chan struct{}
}

func newCountCtx(k int) *countCtx {
	c := &countCtx{Context: context.Background(), k: int64(k), closed: make(chan struct{}), open: make(chan struct{})}
	close(c.closed)
	return c
}

func (c *countCtx) Done() <-chan struct{} {
	if c.n.Add(1) > c.k {
		return c.closed
	}
	return c.open
}

func (c *countCtx) Err() error {
	if c.n.Load() > c.k {
		return context.Canceled
	}
	return nil
}

func ctxFor(k int) context.Context {
	if k < 0 {
		ctx, cancel := context.WithCancel(context.Background())
		cancel()
		return ctx
	}
	return newCountCtx(k)
}

type c08env struct {
	w     *core.WorkerCtx
	world *ledger.World
	n     *ledger.Node
	dead  bool
	seq   int
}

// watch runs f under a generous watchdog; a firing watchdog is judged by the goroutine states, never by time alone.
func (e *c08env) watch(what string, f func()) bool {
	done := make(chan struct{})
	cpu0 := gmon.CPUSeconds()
	go func() {
		defer close(done)
		f()
	}()
	select {
	case <-done:
		return true
	case <-time.After(25 * time.Second):
		sig, detail := gmon.Signature()
		e.dead = true
		if sig == "" {
			// nobody waits for anything: is the operation itself burning time? Its goroutine is running inside the
			// repository's code in each of six samples and the process has consumed more than fifteen seconds of processor
			// time since the call (the operations watched here need well under one) - a loop that does not end
			if frame, spinning := gmon.Spinning("checks.(*c08env).watch.func1", 6, 500*time.Millisecond); spinning && gmon.CPUSeconds()-cpu0 > 15 {
				e.world.Violate("C08", "wedged/spinning/"+frame, fmt.Sprintf("%s did not return: its goroutine keeps running in %s and has consumed %.0f s of processor time", what, frame, gmon.CPUSeconds()-cpu0))
				return false
			}
			e.w.R.Inconc(fmt.Sprintf("watchdog fired on %s without a recognisable goroutine signature", what))
			return false
		}
		e.world.Violate("C08", "wedged/"+sig, fmt.Sprintf("%s did not return; goroutine states: %s\n%s", what, sig, detail))
		return false
	}
}

// o1 checks that no ancestors walker stays parked after an operation has returned.
func (e *c08env) o1(op string, m, k int, res string) {
	if left := gmon.SettleNoParkedWalkers(nil, 150); len(left) > 0 {
		t := left[0].Text
		if len(t) > 1500 {
			t = t[:1500]
		}
		e.world.Violate("C08", "leaked-walker/"+op, fmt.Sprintf("after %s returned (%s; ledger with %d ancestors below the tip, cancellation after %d visited ancestors) %d goroutine(s) of the graph's ancestors walker stay parked in a channel send holding the graph read lock:\n%s", op, res, m, k, len(left), t))
		e.dead = true
	}
}

func (e *c08env) tipAndAncestors() (ledger.H, int) {
	s, err := ledger.TakeSnap(e.n.Book)
	if err != nil {
		return ledger.H{}, 0
	}
	best := 0
	var tip ledger.H
	for t := range s.Leaves {
		c := 0
		seen := map[ledger.H]bool{t: true}
		st := []ledger.H{t}
		for len(st) > 0 {
			x := st[len(st)-1]
			st = st[:len(st)-1]
			l := s.Live[x]
			for _, p := range []ledger.H{l.V.LeftParentHash, l.V.RightParentHash} {
				if _, ok := s.Live[p]; ok && !seen[p] {
					seen[p] = true
					c++
					st = append(st, p)
				}
			}
		}
		if c >= best {
			best, tip = c, t
		}
	}
	return tip, best
}

func (e *c08env) validTrx() *ledger.Actor { return e.world.Users[1+e.seq%3] }

// grow adds one valid spice transfer (background context); it doubles as the write probe.
func (e *c08env) grow(diamond bool) bool {
	e.seq++
	world := e.world
	from := world.Users[0]
	to := world.Users[1+e.seq%3]
	t := world.NewTrx(from, to.Addr, spice.Melange{SupplementaryCurrency: uint64(1 + e.seq%7)}, nil)
	ok := true
	if diamond && e.seq%2 == 0 {
		s, _ := ledger.TakeSnap(e.n.Book)
		var tips []ledger.H
		for h := range s.Leaves {
			tips = append(tips, h)
		}
		if len(tips) > 0 {
			l, r := tips[0], tips[len(tips)-1]
			wgt := s.Live[l].V.Weight
			if s.Live[r].V.Weight > wgt {
				wgt = s.Live[r].V.Weight
			}
			// two children on the same pair of parents: the next vertex that takes both of them closes a diamond
			v1 := ledger.ForgeVertex(world.Sealers[0], t, l, r, wgt+1, world.Now())
			t2 := world.NewTrx(from, to.Addr, spice.Melange{SupplementaryCurrency: 3}, nil)
			v2 := ledger.ForgeVertex(world.Sealers[1], t2, l, r, wgt+1, world.Now())
			ok = e.watch("AddLeaf (write probe)", func() {
				e.n.Book.AddLeaf(context.Background(), ledger.CloneVertex(&v1))
				e.n.Book.AddLeaf(context.Background(), ledger.CloneVertex(&v2))
			})
			return ok
		}
	}
	ok = e.watch("CreateLeaf (write probe)", func() {
		tt := t
		e.n.Book.CreateLeaf(context.Background(), &tt)
	})
	return ok
}

func (e *c08env) ensure(min int, diamond bool) bool {
	for i := 0; i < 400; i++ {
		_, m := e.tipAndAncestors()
		if m >= min {
			return true
		}
		if !e.grow(diamond) {
			return false
		}
	}
	return true
}

var c08Ops = []string{"CalculateBalance", "ReadDAGTransactionsByAddress", "CreateLeaf", "AddLeaf", "StreamDAG"}

// runOp performs one operation under the given context and classifies the outcome.
func (e *c08env) runOp(op string, ctx context.Context) string {
	world := e.world
	res := "?"
	e.seq++
	e.watch(op, func() {
		switch op {
		case "CalculateBalance":
			_, err := e.n.Book.CalculateBalance(ctx, world.Users[1].Addr)
			res = errClass(err)
		case "ReadDAGTransactionsByAddress":
			_, err := e.n.Book.ReadDAGTransactionsByAddress(ctx, world.Users[1].Addr)
			res = errClass(err)
		case "CreateLeaf":
			t := world.NewTrx(world.Users[0], world.Users[2].Addr, spice.Melange{SupplementaryCurrency: 5}, nil)
			_, err := e.n.Book.CreateLeaf(ctx, &t)
			res = errClass(err)
		case "AddLeaf":
			tip, _ := e.tipAndAncestors()
			s, _ := ledger.TakeSnap(e.n.Book)
			l, ok := s.Live[tip]
			if !ok {
				res = "no-tip"
				return
			}
			t := world.NewTrx(world.Users[0], world.Users[3].Addr, spice.Melange{SupplementaryCurrency: 9}, nil)
			v := ledger.ForgeVertex(world.Sealers[e.seq%2], t, tip, tip, l.V.Weight+1, world.Now())
			err := e.n.Book.AddLeaf(ctx, ledger.CloneVertex(&v))
			res = errClass(err)
		case "StreamDAG":
			ch := e.n.Book.StreamDAG(ctx)
			got := 0
			for range ch {
				got++
			}
			res = fmt.Sprintf("streamed-%s", bucketStr(got))
		}
	})
	return res
}

func bucketStr(n int) string {
	switch {
	case n == 0:
		return "0"
	case n < 10:
		return "few"
	}
	return "many"
}

func errClass(err error) string {
	switch {
	case err == nil:
		return "ok"
	case containsAny(err.Error(), "stopped"):
		return "cancelled"
	default:
		return "error"
	}
}

// c08Cancellation enumerates cancellation points of every operation on growing ledgers.
func c08Cancellation(w *core.WorkerCtx, diamond bool, maxN int) {
	rng := core.Rand(w.Seed, "C08c", w.Batch)
	shape := "chain"
	if diamond {
		shape = "diamond"
	}
	desc := fmt.Sprintf("c08 cancellation grid shape=%s maxN=%d seed=%d batch=%d", shape, maxN, w.Seed, w.Batch)
	world := ledger.NewWorld(rng, w.R, []string{"C08"}, 0, desc)
	defer func() {
		if !world.Nodes[0].Closed {
			go world.Close() // never wait for a possibly wedged node
		}
	}()
	d, err := ledger.Setup(world, ledger.Profile{Nodes: 1, Users: 4, SupplyClass: 0, Delivery: "lockstep"})
	if err != nil {
		w.R.Inconc("setup failed: " + err.Error())
		return
	}
	_ = d
	e := &c08env{w: w, world: world, n: world.Nodes[0]}
	// fund so that U0's transfers are valid spice transfers (every vertex of the ledger is walked through)
	for n := 1; n <= maxN && !e.dead; n++ {
		for _, op := range c08Ops {
			if e.dead {
				break
			}
			if !e.ensure(n, diamond) {
				break
			}
			_, m := e.tipAndAncestors()
			for k := -1; k <= m+1 && !e.dead; k++ {
				if !e.ensure(n, diamond) { // a cancelled proposal or delivery drops the tip it was validating
					break
				}
				_, mk := e.tipAndAncestors()
				w.Mark("op %s shape %s ancestors %d cancel-after %d", op, shape, mk, k)
				res := e.runOp(op, ctxFor(k))
				world.Logf("%s with cancellation after %d visited ancestors on %s ledger with %d ancestors => %s", op, k, shape, mk, res)
				e.o1(op, mk, k, res)
				w.R.Eval(1)
				w.R.Count("c08_cancellation_cases", 1)
				w.R.Nontriv(fmt.Sprintf("%s/%s/m%d/k%d/%s", op, shape, mk, k, res))
				if k == 0 && n == 1 {
					w.R.Sample(10, map[string]any{"operation": op, "shape": shape, "ancestors_below_tip": mk, "cancel_after_visited": k, "result": res})
				}
			}
			// read and write probes after the group
			if !e.dead {
				e.watch("CalculateBalance (read probe)", func() { e.n.Book.CalculateBalance(context.Background(), world.Users[2].Addr) })
			}
			if !e.dead {
				e.grow(diamond)
			}
			w.R.Count("c08_probes", 2)
		}
	}
	if e.dead {
		w.R.Count("c08_worlds_abandoned_after_wedge", 1)
	}
}

// c08Streams: DAG streaming against slow, stalled, cancelling and abandoned consumers while writers keep proposing.
func c08Streams(w *core.WorkerCtx) {
	rng := core.Rand(w.Seed, "C08s", w.Batch)
	cases := []string{"slow-consumer+writer", "stalled-consumer+writers", "consumer-cancels-midway", "abandoned-consumer", "stream-while-tips-dropped", "many-streams+writers"}
	rounds := w.Pick(1, 6)
	for round := 0; round < rounds; round++ {
		for _, cs := range cases {
			desc := fmt.Sprintf("c08 stream case %s seed=%d batch=%d round=%d", cs, w.Seed, w.Batch, round)
			w.Mark("%s", desc)
			world := ledger.NewWorld(rng, w.R, []string{"C08"}, 0, desc)
			_, err := ledger.Setup(world, ledger.Profile{Nodes: 1, Users: 4, SupplyClass: 0, Delivery: "lockstep"})
			if err != nil {
				w.R.Inconc("setup failed: " + err.Error())
				continue
			}
			e := &c08env{w: w, world: world, n: world.Nodes[0]}
			size := 130 + rng.Intn(120) // more than the 100 slot buffer of the stream channel
			for i := 0; i < size && !e.dead; i++ {
				e.grow(false)
			}
			writers := func(k, each int) *sync.WaitGroup {
				var wg sync.WaitGroup
				for g := 0; g < k; g++ {
					wg.Add(1)
					g := g
					go func() {
						defer wg.Done()
						for i := 0; i < each; i++ {
							t := ledger.ForgeTrx(world.Users[0], world.Users[1+g%3].Addr, fmt.Sprintf("w%d-%d-%d", round, g, i), nil, spice.Melange{SupplementaryCurrency: 2}, time.Now().Add(-time.Minute))
							e.n.Book.CreateLeaf(context.Background(), &t)
						}
					}()
				}
				return &wg
			}
			ctx, cancel := context.WithCancel(context.Background())
			var ch <-chan *accountant.Vertex
			switch cs {
			case "slow-consumer+writer":
				ch = e.n.Book.StreamDAG(ctx)
				wg := writers(1, 20)
				e.watch("writer during slow stream consumer", func() {
					go func() {
						for range ch {
							time.Sleep(200 * time.Microsecond)
						}
					}()
					wg.Wait()
				})
			case "stalled-consumer+writers":
				ch = e.n.Book.StreamDAG(ctx)
				<-ch // reads one vertex and stalls
				wg := writers(3, 10)
				e.watch("writers while the stream consumer is stalled", func() { wg.Wait() })
			case "consumer-cancels-midway":
				ch = e.n.Book.StreamDAG(ctx)
				for i := 0; i < 5; i++ {
					<-ch
				}
				cancel()
				wg := writers(2, 10)
				e.watch("writers after the stream consumer cancelled", func() { wg.Wait() })
			case "abandoned-consumer":
				ch = e.n.Book.StreamDAG(ctx) // never read, never cancelled during the probe
				wg := writers(2, 10)
				e.watch("writers while a stream consumer never reads", func() { wg.Wait() })
			case "stream-while-tips-dropped":
				// overdrawing tips get dropped by the next proposal while the stream runs
				ch = e.n.Book.StreamDAG(ctx)
				e.watch("proposals dropping tips during a stream", func() {
					go func() {
						for range ch {
						}
					}()
					for i := 0; i < 10; i++ {
						o := world.NewTrx(world.Users[1], world.Users[2].Addr, spice.Melange{Currency: 1 << 40}, nil)
						e.n.Book.CreateLeaf(context.Background(), &o)
						e.grow(false)
					}
				})
			case "many-streams+writers":
				wg := writers(3, 8)
				e.watch("writers with 8 concurrent stream consumers", func() {
					var sw sync.WaitGroup
					for i := 0; i < 8; i++ {
						sw.Add(1)
						go func() {
							defer sw.Done()
							c := e.n.Book.StreamDAG(ctx)
							for range c {
							}
						}()
					}
					wg.Wait()
					sw.Wait()
				})
			}
			cancel()
			if !e.dead {
				e.watch("CalculateBalance (read probe)", func() { e.n.Book.CalculateBalance(context.Background(), world.Users[2].Addr) })
				e.grow(false)
				e.o1("StreamDAG/"+cs, size, -2, "done")
				// after cancellation the streaming goroutine must be gone (bounded polls)
				gone := false
				for i := 0; i < 300; i++ {
					if len(gmon.Match(gmon.Dump(), "", "accountant.(*AccountingBook).StreamDAG.func")) == 0 {
						gone = true
						break
					}
					time.Sleep(2 * time.Millisecond)
				}
				if !gone {
					world.Violate("C08", "stream-goroutine-survives-cancel/"+cs, "the streaming goroutine is still alive after the consumer's context was cancelled")
				}
			}
			w.R.Eval(1)
			w.R.Count("c08_stream_cases", 1)
			w.R.Nontriv("stream/" + cs)
			if round == 0 {
				w.R.Sample(10, map[string]any{"stream_case": cs, "ledger_vertices": size, "wedged": e.dead})
			}
			if !e.dead {
				world.Close()
			}
		}
	}
}

// c08InternalExits: early exits of internal walks — truncation's cut found, a tampered parent met in a walk,
// arithmetic overflow inside a walk.
func c08InternalExits(w *core.WorkerCtx) {
	rng := core.Rand(w.Seed, "C08i", w.Batch)
	// (1) truncation: the first internal walk is abandoned when the cut vertex is found. Two ledger depths: a few
	// vertices below the cut, and more than a thousand below it; the deep one is truncated a second time after growing on
	for _, size := range []int{1030, 2300} {
		desc := fmt.Sprintf("c08 truncation early exit, ledger of %d vertices, seed=%d batch=%d", size, w.Seed, w.Batch)
		w.Mark("%s", desc)
		world := ledger.NewWorld(rng, w.R, []string{"C08"}, 0, desc)
		_, err := ledger.Setup(world, ledger.Profile{Nodes: 1, Users: 4, SupplyClass: 0, Delivery: "lockstep"})
		if err == nil {
			e := &c08env{w: w, world: world, n: world.Nodes[0]}
			world.Quiet = true
			for i := 0; i < size && !e.dead; i++ {
				t := world.NewTrx(world.Users[0], world.Users[1+i%3].Addr, spice.Melange{SupplementaryCurrency: uint64(1 + i%7)}, nil)
				world.Propose(e.n, &t, "grow")
			}
			rounds := 1
			if size > 2000 {
				rounds = 2
			}
			for round := 0; round < rounds && !e.dead; round++ {
				var terr error
				e.watch(fmt.Sprintf("truncate (ledger of %d vertices, round %d)", size, round), func() { terr = e.n.Book.VerifTruncate(context.Background()) })
				if !e.dead {
					e.o1("truncate", size, -2, errClass(terr))
				}
				if !e.dead {
					e.watch("CalculateBalance after truncate", func() { e.n.Book.CalculateBalance(context.Background(), world.Users[1].Addr) })
				}
				if !e.dead {
					e.grow(false)
				}
				w.R.Eval(1)
				w.R.Count("c08_truncations", 1)
				w.R.Nontriv(fmt.Sprintf("internal-exit/truncation-cut-found/size%d/round%d/%s", size, round, errClass(terr)))
				for i := 0; i < 1100 && round+1 < rounds && !e.dead; i++ {
					t := world.NewTrx(world.Users[0], world.Users[1+i%3].Addr, spice.Melange{SupplementaryCurrency: uint64(1 + i%7)}, nil)
					world.Propose(e.n, &t, "grow")
				}
			}
			if !e.dead {
				world.Close()
			}
		}
	}
	// (2) a tampered parent met inside a validation walk (arrives through sync, which does not authenticate)
	{
		desc := fmt.Sprintf("c08 tampered parent in walk seed=%d batch=%d", w.Seed, w.Batch)
		w.Mark("%s", desc)
		world := ledger.NewWorld(rng, w.R, []string{"C08"}, 0, desc)
		_, err := ledger.Setup(world, ledger.Profile{Nodes: 1, Users: 4, SupplyClass: 0, Delivery: "lockstep"})
		if err == nil {
			e := &c08env{w: w, world: world, n: world.Nodes[0]}
			for i := 0; i < 12; i++ {
				e.grow(false)
			}
			src := world.Nodes[0]
			s, _ := ledger.TakeSnap(src.Book)
			var tip ledger.H
			for t := range s.Leaves {
				tip = t
			}
			parent := s.Live[tip].V.LeftParentHash
			// feed a fresh node with the same vertices, the tip's parent carrying a corrupted sealing signature
			a := ledger.NewActor("F")
			ctxb, cancelb := context.WithCancel(context.Background())
			fb, err := accountant.NewAccountingBook(ctxb, accountant.Config{Truncate: 1 << 50}, walletVerifier(), &a.W, ledger.NoLog{})
			if err == nil {
				ch := make(chan *accountant.Vertex, len(s.Live)+1)
				for h, l := range s.Live {
					c := ledger.CloneVertex(&l.V)
					if h == parent {
						c.Signature[3] ^= 0x40
					}
					ch <- c
				}
				close(ch)
				cctx, cc := context.WithCancelCause(context.Background())
				fb.LoadDag(cc, ch)
				cc(nil)
				_ = cctx
				if fb.DagLoaded() {
					fe := &c08env{w: w, world: world, n: &ledger.Node{Name: "F", Actor: a, Book: fb}}
					var perr error
					fe.watch("CreateLeaf over a tampered parent", func() {
						t := world.NewTrx(world.Users[0], world.Users[1].Addr, spice.Melange{SupplementaryCurrency: 4}, nil)
						_, perr = fb.CreateLeaf(context.Background(), &t)
					})
					if !fe.dead {
						fe.o1("CreateLeaf/tampered-parent", 12, -2, errClass(perr))
					}
					if !fe.dead {
						fe.watch("second CreateLeaf after the failed validation", func() {
							t := world.NewTrx(world.Users[0], world.Users[1].Addr, spice.Melange{SupplementaryCurrency: 6}, nil)
							fb.CreateLeaf(context.Background(), &t)
						})
					}
					w.R.Eval(1)
					w.R.Nontriv("internal-exit/tampered-parent/" + errClass(perr))
					if !fe.dead {
						fb.VerifClose()
					}
				}
				cancelb()
			}
			world.Close()
		}
	}
	// (3) arithmetic overflow inside a walk: a wallet whose gross inflow exceeds 2^64 units
	{
		desc := fmt.Sprintf("c08 overflow in walk seed=%d batch=%d", w.Seed, w.Batch)
		w.Mark("%s", desc)
		world := ledger.NewWorld(rng, w.R, []string{"C08"}, 0, desc)
		_, err := ledger.Setup(world, ledger.Profile{Nodes: 1, Users: 4, SupplyClass: 1, Delivery: "lockstep"})
		if err == nil {
			e := &c08env{w: w, world: world, n: world.Nodes[0]}
			u := world.Users
			big := spice.Melange{Currency: 1 << 63}
			for i := 0; i < 3 && !e.dead; i++ { // U0 -> U1 -> U0 -> U1 ...: gross inflow of U1 reaches 2^64
				from, to := u[0], u[1]
				if i%2 == 1 {
					from, to = u[1], u[0]
				}
				t := world.NewTrx(from, to.Addr, big, nil)
				e.watch("CreateLeaf (huge amounts)", func() { e.n.Book.CreateLeaf(context.Background(), &t) })
			}
			var berr error
			if !e.dead {
				e.watch("CalculateBalance with overflowing gross inflow", func() { _, berr = e.n.Book.CalculateBalance(context.Background(), u[1].Addr) })
			}
			if !e.dead {
				e.o1("CalculateBalance/overflow", 4, -2, errClass(berr))
			}
			for i := 0; i < 3 && !e.dead; i++ {
				t := world.NewTrx(u[1], u[2].Addr, spice.Melange{Currency: 1}, nil)
				var perr error
				e.watch("CreateLeaf validating a tip whose issuer's gross inflow overflows", func() { _, perr = e.n.Book.CreateLeaf(context.Background(), &t) })
				if !e.dead {
					e.o1("CreateLeaf/overflow", 5+i, -2, errClass(perr))
				}
			}
			w.R.Eval(1)
			w.R.Nontriv("internal-exit/overflow-in-walk/" + errClass(berr))
			if !e.dead {
				world.Close()
			}
		}
	}
}

// c08HeavyVertex: a correctly sealed gossiped vertex that claims a far-out weight on a young ledger makes the node's
// own truncation loop attempt a truncation that cannot find a cut; every later operation must still complete.
func c08HeavyVertex(w *core.WorkerCtx) {
	rng := core.Rand(w.Seed, "C08h", w.Batch)
	desc := fmt.Sprintf("c08 heavy vertex on a young ledger (Config.Truncate=2000) seed=%d batch=%d", w.Seed, w.Batch)
	w.Mark("%s", desc)
	world := ledger.NewWorld(rng, w.R, []string{"C08"}, 0, desc)
	world.TruncateAt = 2000
	_, err := ledger.Setup(world, ledger.Profile{Nodes: 1, Users: 4, SupplyClass: 0, Delivery: "lockstep"})
	if err != nil {
		w.R.Inconc("setup failed: " + err.Error())
		return
	}
	e := &c08env{w: w, world: world, n: world.Nodes[0]}
	for i := 0; i < 20 && !e.dead; i++ {
		e.grow(false)
	}
	tip, _ := e.tipAndAncestors()
	t := world.NewTrx(world.Users[0], world.Users[1].Addr, spice.Melange{SupplementaryCurrency: 3}, nil)
	hv := ledger.ForgeVertex(world.Sealers[0], t, tip, tip, 3600, world.Now())
	var herr error
	e.watch("AddLeaf of a heavy vertex", func() { herr = e.n.Book.AddLeaf(context.Background(), ledger.CloneVertex(&hv)) })
	world.Logf("heavy vertex (weight 3600 on a ledger of 20) => %v", herr)
	done := 0
	for i := 0; i < 130 && !e.dead; i++ {
		if e.grow(false) {
			done++
		}
	}
	if !e.dead {
		e.watch("CalculateBalance after the heavy vertex", func() { e.n.Book.CalculateBalance(context.Background(), world.Users[1].Addr) })
	}
	w.R.Eval(1)
	w.R.Count("c08_heavy_vertex_followup_writes", done)
	w.R.Nontriv(fmt.Sprintf("heavy-vertex/accepted=%v/wedged=%v", herr == nil, e.dead))
	w.R.Sample(10, map[string]any{"case": desc, "heavy_vertex_accepted": herr == nil, "follow_up_writes_completed": done, "wedged": e.dead})
	if !e.dead {
		world.Close()
	}
}

// c08TruncateUnderLoad: the node's own truncation loop is woken (a vertex whose weight crosses the next mark) while
// several writers keep proposing and gossiping: every writer call must return. The truncation routine picks the signal
// up and then needs the ledger lock that the writers keep taking.
func c08TruncateUnderLoad(w *core.WorkerCtx) {
	rng := core.Rand(w.Seed, "C08u", w.Batch)
	desc := fmt.Sprintf("c08 truncation loop woken under write load (Config.Truncate=2000) seed=%d batch=%d", w.Seed, w.Batch)
	w.Mark("%s", desc)
	world := ledger.NewWorld(rng, w.R, []string{"C08"}, 0, desc)
	world.TruncateAt = 2000
	_, err := ledger.Setup(world, ledger.Profile{Nodes: 1, Users: 4, SupplyClass: 0, Delivery: "lockstep"})
	if err != nil {
		w.R.Inconc("setup failed: " + err.Error())
		return
	}
	e := &c08env{w: w, world: world, n: world.Nodes[0]}
	for i := 0; i < 20 && !e.dead; i++ {
		e.grow(false)
	}
	book := e.n.Book
	u := world.Users
	var stop, dead atomic.Bool
	var done atomic.Int64
	var wg sync.WaitGroup
	var mu sync.Mutex // world.NewTrx / world.Now are not concurrency safe
	newTrx := func(i int, tag string) transaction.Transaction {
		mu.Lock()
		defer mu.Unlock()
		return world.NewTrx(u[0], u[1+i%3].Addr, spice.Melange{SupplementaryCurrency: uint64(1 + i%5)}, []byte(tag))
	}
	guarded := func(what string, f func()) {
		fin := make(chan struct{})
		go func() { defer close(fin); f() }()
		select {
		case <-fin:
			done.Add(1)
		case <-time.After(25 * time.Second):
			if !dead.Swap(true) {
				sig, detail := gmon.Signature()
				if sig == "" {
					w.R.Inconc("watchdog fired on " + what + " without a recognisable goroutine signature")
				} else {
					world.Violate("C08", "wedged/"+sig, fmt.Sprintf("%s did not return while the truncation loop was woken under write load; goroutine states: %s\n%s", what, sig, detail))
				}
			}
			stop.Store(true)
		}
	}
	// two proposers
	for p := 0; p < 2; p++ {
		wg.Add(1)
		go func(p int) {
			defer wg.Done()
			for i := 0; !stop.Load(); i++ {
				t := newTrx(i, fmt.Sprintf("p%d-%d", p, i))
				guarded("CreateLeaf", func() { book.CreateLeaf(context.Background(), &t) })
			}
		}(p)
	}
	// two gossiping peers, each extending its own chain from a tip it saw
	for g := 0; g < 2; g++ {
		wg.Add(1)
		go func(g int) {
			defer wg.Done()
			var tip ledger.H
			guarded("snapshot", func() { tip, _ = e.tipAndAncestors() })
			var wgt uint64 = 30
			for i := 0; !stop.Load(); i++ {
				t := newTrx(i, fmt.Sprintf("g%d-%d", g, i))
				mu.Lock()
				v := ledger.ForgeVertex(world.Sealers[g%2], t, tip, tip, wgt+1, world.Now())
				mu.Unlock()
				var aerr error
				guarded("AddLeaf", func() { aerr = book.AddLeaf(context.Background(), ledger.CloneVertex(&v)) })
				if aerr == nil {
					tip, wgt = v.Hash, v.Weight
				}
			}
		}(g)
	}
	// two readers: balances and histories are asked for all the time (a read that is half way through its walk when a
	// writer queues up must still finish)
	for q := 0; q < 2; q++ {
		wg.Add(1)
		go func(q int) {
			defer wg.Done()
			for i := 0; !stop.Load(); i++ {
				a := u[(q+i)%len(u)].Addr
				if (q+i)%2 == 0 {
					guarded("CalculateBalance", func() { book.CalculateBalance(context.Background(), a) })
				} else {
					guarded("ReadDAGTransactionsByAddress", func() { book.ReadDAGTransactionsByAddress(context.Background(), a) })
				}
			}
		}(q)
	}
	// wake the truncation loop a few times: every heavy vertex crosses the next mark
	heavy := uint64(3600)
	woken := 0
	for k := 0; k < 4 && !stop.Load(); k++ {
		time.Sleep(150 * time.Millisecond)
		var tip ledger.H
		guarded("snapshot", func() { tip, _ = e.tipAndAncestors() })
		if stop.Load() {
			break
		}
		t := newTrx(k, fmt.Sprintf("heavy-%d", k))
		mu.Lock()
		hv := ledger.ForgeVertex(world.Sealers[0], t, tip, tip, heavy, world.Now())
		mu.Unlock()
		guarded("AddLeaf of a heavy vertex", func() {
			if book.AddLeaf(context.Background(), ledger.CloneVertex(&hv)) == nil {
				woken++
			}
		})
		heavy = heavy*2 + 2500
	}
	time.Sleep(150 * time.Millisecond)
	stop.Store(true)
	wg.Wait()
	if !dead.Load() {
		guarded("CalculateBalance after the load", func() { book.CalculateBalance(context.Background(), u[1].Addr) })
	}
	w.R.Eval(1)
	w.R.Count("c08_truncate_under_load_writes", int(done.Load()))
	w.R.Count("c08_truncate_under_load_wakeups", woken)
	w.R.Nontriv(fmt.Sprintf("truncate-under-load/wakeups=%d/wedged=%v", woken, dead.Load()))
	if !dead.Load() {
		world.Close()
	}
}

// c08RetryExhaustion: an orphan whose parent never arrives uses up its retries (an error path of the orphan buffer);
// afterwards every operation still completes: more orphans, proposals, reads, streaming.
func c08RetryExhaustion(w *core.WorkerCtx) {
	rng := core.Rand(w.Seed, "C08r", w.Batch)
	desc := fmt.Sprintf("c08 orphan retry exhaustion seed=%d batch=%d", w.Seed, w.Batch)
	w.Mark("%s", desc)
	world := ledger.NewWorld(rng, w.R, []string{"C08"}, 0, desc)
	_, err := ledger.Setup(world, ledger.Profile{Nodes: 1, Users: 4, SupplyClass: 0, Delivery: "lockstep"})
	if err != nil {
		w.R.Inconc("setup failed: " + err.Error())
		return
	}
	e := &c08env{w: w, world: world, n: world.Nodes[0]}
	for i := 0; i < 12 && !e.dead; i++ {
		e.grow(false)
	}
	orphan := func(tag byte) accountant.Vertex {
		var ghost ledger.H
		ghost[0], ghost[1] = 0xEE, tag
		t := world.NewTrx(world.Users[1], world.Users[2].Addr, spice.Melange{SupplementaryCurrency: uint64(tag) + 1}, nil)
		return ledger.ForgeVertex(world.Sealers[0], t, ghost, ghost, 40, world.Now())
	}
	steps := 0
	for round := 0; round < 3 && !e.dead; round++ {
		o := orphan(byte(round))
		e.watch("AddLeaf of an orphan", func() { e.n.Book.AddLeaf(context.Background(), ledger.CloneVertex(&o)) })
		// until the buffer is empty again: the orphan has used up its retries and is gone
		for k := 0; k < 30 && !e.dead; k++ {
			// what the node's own ticker does every two seconds: 26 of these use up the orphan's retries
			e.watch("retry step of the orphan buffer", func() { e.n.Book.VerifRetryOne(context.Background()) })
			steps++
		}
		if !e.dead {
			o2 := orphan(byte(100 + round))
			e.watch("AddLeaf of the next orphan", func() { e.n.Book.AddLeaf(context.Background(), ledger.CloneVertex(&o2)) })
		}
		if e.dead {
			break
		}
		e.grow(false)
		e.watch("CalculateBalance after an orphan used up its retries", func() { e.n.Book.CalculateBalance(context.Background(), world.Users[1].Addr) })
		if !e.dead {
			e.watch("StreamDAG after an orphan used up its retries", func() {
				ctx, cancel := context.WithCancel(context.Background())
				defer cancel()
				for range e.n.Book.StreamDAG(ctx) {
				}
			})
		}
	}
	w.R.Eval(1)
	w.R.Count("c08_retry_exhaustion_retry_steps", steps)
	w.R.Nontriv(fmt.Sprintf("retry-exhaustion/wedged=%v", e.dead))
	if !e.dead {
		world.Close()
	}
}

// c08AsyncCancel cancels real contexts from a timer goroutine at PRNG moments while operations run on a larger ledger.
func c08AsyncCancel(w *core.WorkerCtx) {
	rng := core.Rand(w.Seed, "C08a", w.Batch)
	desc := fmt.Sprintf("c08 async cancellation seed=%d batch=%d", w.Seed, w.Batch)
	world := ledger.NewWorld(rng, w.R, []string{"C08"}, 0, desc)
	_, err := ledger.Setup(world, ledger.Profile{Nodes: 1, Users: 4, SupplyClass: 0, Delivery: "lockstep"})
	if err != nil {
		return
	}
	e := &c08env{w: w, world: world, n: world.Nodes[0]}
	for i := 0; i < 300 && !e.dead; i++ {
		e.grow(i%5 == 0)
	}
	cases := w.Pick(150, 1500)
	for i := 0; i < cases && !e.dead; i++ {
		op := c08Ops[rng.Intn(len(c08Ops))]
		ctx, cancel := context.WithCancel(context.Background())
		delay := time.Duration(rng.Intn(400)) * time.Microsecond
		go func() {
			time.Sleep(delay)
			cancel()
		}()
		w.Mark("async op %s cancel after %v", op, delay)
		res := e.runOp(op, ctx)
		cancel()
		e.o1(op, 300, -3, res)
		w.R.Eval(1)
		w.R.Count("c08_async_cancellation_cases", 1)
		w.R.Nontriv(fmt.Sprintf("async/%s/%s", op, res))
		if i%10 == 9 && !e.dead {
			e.grow(false)
		}
	}
	if !e.dead {
		world.Close()
	}
}

// c08DropUnderReaders: gossip keeps bringing overdrawing tips and children of them (the child's arrival makes the node
// validate the tip and drop it, a write to the graph) while four clients keep reading balances and histories, each
// read a walk over the whole graph. Every call must return.
func c08DropUnderReaders(w *core.WorkerCtx) {
	rng := core.Rand(w.Seed, "C08d", w.Batch)
	desc := fmt.Sprintf("c08 invalid tips dropped by gossiped children while clients read seed=%d batch=%d", w.Seed, w.Batch)
	w.Mark("%s", desc)
	world := ledger.NewWorld(rng, w.R, []string{"C08"}, 0, desc)
	_, err := ledger.Setup(world, ledger.Profile{Nodes: 1, Users: 4, SupplyClass: 0, Delivery: "lockstep"})
	if err != nil {
		w.R.Inconc("setup failed: " + err.Error())
		return
	}
	e := &c08env{w: w, world: world, n: world.Nodes[0]}
	world.Quiet = true
	for i := 0; i < 400; i++ {
		t := world.NewTrx(world.Users[0], world.Users[1+i%3].Addr, spice.Melange{SupplementaryCurrency: uint64(1 + i%7)}, nil)
		world.Propose(e.n, &t, "grow")
	}
	book := e.n.Book
	var stop atomic.Bool
	var reads atomic.Int64
	var wg sync.WaitGroup
	for g := 0; g < 4; g++ {
		wg.Add(1)
		go func(g int) {
			defer wg.Done()
			for i := 0; !stop.Load(); i++ {
				if (i+g)%2 == 0 {
					book.CalculateBalance(context.Background(), world.Users[1+i%3].Addr)
				} else {
					book.ReadDAGTransactionsByAddress(context.Background(), world.Users[1+i%3].Addr)
				}
				reads.Add(1)
			}
		}(g)
	}
	rounds := w.Pick(40, 200)
	dropped := 0
	for i := 0; i < rounds && !e.dead; i++ {
		tip, _ := e.tipAndAncestors()
		s, _ := ledger.TakeSnap(book)
		l, ok := s.Live[tip]
		if !ok {
			break
		}
		over := world.NewTrx(world.Users[1+i%3], world.Users[0].Addr, spice.Melange{Currency: 1 << 40}, nil)
		ov := ledger.ForgeVertex(world.Sealers[i%2], over, tip, tip, l.V.Weight+1, world.Now())
		ct := world.NewTrx(world.Users[0], world.Users[1+i%3].Addr, spice.Melange{SupplementaryCurrency: 2}, nil)
		cv := ledger.ForgeVertex(world.Sealers[(i+1)%2], ct, ov.Hash, ov.Hash, l.V.Weight+2, world.Now())
		w.Mark("drop under readers round %d", i)
		var e1, e2 error
		e.watch("AddLeaf of an overdrawing tip while clients read", func() { e1 = book.AddLeaf(context.Background(), ledger.CloneVertex(&ov)) })
		if e.dead {
			break
		}
		e.watch("AddLeaf of a child of an overdrawing tip while clients read", func() { e2 = book.AddLeaf(context.Background(), ledger.CloneVertex(&cv)) })
		if e1 == nil && e2 != nil {
			dropped++
		}
		if !e.dead && i%5 == 4 {
			e.grow(false)
		}
	}
	stop.Store(true)
	if !e.dead {
		e.watch("readers finishing", func() { wg.Wait() })
	}
	w.R.Eval(rounds)
	w.R.Count("c08_tips_dropped_under_readers", dropped)
	w.R.Count("c08_reads_during_tip_drops", int(reads.Load()))
	w.R.Nontriv(fmt.Sprintf("drop-under-readers/dropped=%v/wedged=%v", dropped > 0, e.dead))
	if !e.dead {
		world.Close()
	}
}

// c08CrossTrafficWhileJoining: two serving nodes forward an item to each other at the same moment while a new node
// joins each of them (a write to the peer table that every forward reads). Every gossip-add and every join must
// return; two real nodes wired by the virtual network, the harness only decides when the two messages are handed over.
func c08CrossTrafficWhileJoining(w *core.WorkerCtx) {
	r := w.R
	adj := [][]int{{1}, {0}, {}, {}}
	rounds := w.Pick(3, 12)
	for round := 0; round < rounds; round++ {
		net, err := vnet.Build(4, adj, -1)
		if err != nil {
			r.Inconc("cannot build network: " + err.Error())
			return
		}
		kind := []string{"trx", "vrx"}[round%2]
		desc := fmt.Sprintf("c08 cross traffic while joining: nodes 0 and 1 each originate a %s, nodes 2 and 3 join them meanwhile (round %d)", kind, round)
		w.Mark("%s", desc)
		net.ResetExecution()
		_, e0 := c11Originate(net, 0, kind, 9000+2*round)
		_, e1 := c11Originate(net, 1, kind, 9001+2*round)
		if e0 != nil || e1 != nil {
			r.Note("cross traffic: items could not be created")
			net.Close()
			continue
		}
		net.WaitSent()
		done := make(chan struct{})
		go func() {
			defer close(done)
			var wg sync.WaitGroup
			// the joins
			for _, pr := range [][2]int{{0, 2}, {1, 3}} {
				wg.Add(1)
				go func(a, b int) { defer wg.Done(); net.Connect(a, b) }(pr[0], pr[1])
			}
			time.Sleep(time.Duration(200+100*round) * time.Microsecond)
			// both messages handed over at once (two handlers run concurrently, as in two servers)
			for _, m := range net.Pending() {
				wg.Add(1)
				go func(m *vnet.Msg) { defer wg.Done(); net.Deliver(m) }(m)
			}
			wg.Wait()
			// whatever the new peers are sent now
			for k := 0; k < 50; k++ {
				net.WaitStable(3)
				p := net.Pending()
				if len(p) == 0 {
					break
				}
				for _, m := range p {
					wg.Add(1)
					go func(m *vnet.Msg) { defer wg.Done(); net.Deliver(m) }(m)
				}
				wg.Wait()
			}
		}()
		wedged := false
		select {
		case <-done:
		case <-time.After(25 * time.Second):
			wedged = true
			sig, detail := gmon.Signature()
			if sig == "" {
				r.Inconc("watchdog fired on " + desc + " without a recognisable goroutine signature")
			} else {
				r.Violate("C08", "wedged/"+sig, fmt.Sprintf("%s: the gossip-adds and joins did not return; goroutine states: %s\n%s", desc, sig, detail), nil)
			}
		}
		r.Eval(1)
		r.Count("c08_cross_traffic_join_rounds", 1)
		r.Nontriv(fmt.Sprintf("cross-traffic-while-joining/%s/wedged=%v", kind, wedged))
		if wedged {
			return // never wait for a wedged network
		}
		net.Close()
	}
}

// c08FailedBackgroundTruncation: the node's own truncation loop runs a truncation that fails (the backup file cannot
// be created: its name is taken by a directory). The failure is the loop's business; the seventy proposals, the
// gossiped vertices and the reads that follow must all return.
func c08FailedBackgroundTruncation(w *core.WorkerCtx) {
	rng := core.Rand(w.Seed, "C08f", w.Batch)
	desc := fmt.Sprintf("c08 failing truncation in the node's own loop (Config.Truncate=2000, backup name taken by a directory) seed=%d batch=%d", w.Seed, w.Batch)
	w.Mark("%s", desc)
	world := ledger.NewWorld(rng, w.R, []string{"C08"}, 0, desc)
	world.TruncateAt = 2000
	_, err := ledger.Setup(world, ledger.Profile{Nodes: 1, Users: 4, SupplyClass: 0, Delivery: "lockstep"})
	if err != nil {
		w.R.Inconc("setup failed: " + err.Error())
		return
	}
	e := &c08env{w: w, world: world, n: world.Nodes[0]}
	world.Quiet = true
	for i := 0; i < 1015; i++ {
		t := world.NewTrx(world.Users[0], world.Users[1+i%3].Addr, spice.Melange{SupplementaryCurrency: uint64(1 + i%7)}, nil)
		world.Propose(e.n, &t, "grow")
	}
	// every backup name the loop may try next is taken
	var blocked []string
	for k := 0; k < 4; k++ {
		name := fmt.Sprintf("vertex_db_backup_%d.bak", k)
		os.Remove(name) // (a backup file of an earlier scenario of this worker)
		if os.Mkdir(name, 0o755) == nil {
			blocked = append(blocked, name)
		}
	}
	defer func() {
		for _, b := range blocked {
			os.Remove(b)
		}
	}()
	tip, _ := e.tipAndAncestors()
	ht := world.NewTrx(world.Users[0], world.Users[1].Addr, spice.Melange{SupplementaryCurrency: 3}, nil)
	hv := ledger.ForgeVertex(world.Sealers[0], ht, tip, tip, 3600, world.Now())
	e.watch("AddLeaf of the vertex that wakes the truncation loop", func() { e.n.Book.AddLeaf(context.Background(), ledger.CloneVertex(&hv)) })
	done := 0
	for i := 0; i < 70 && !e.dead; i++ {
		w.Mark("failed background truncation: follow-up write %d", i)
		if e.grow(false) {
			done++
		}
	}
	if !e.dead {
		e.watch("CalculateBalance after the failed truncation", func() { e.n.Book.CalculateBalance(context.Background(), world.Users[1].Addr) })
	}
	w.R.Eval(1)
	w.R.Count("c08_failed_background_truncation_followup_writes", done)
	w.R.Nontriv(fmt.Sprintf("failed-background-truncation/blocked-names=%d/wedged=%v", len(blocked), e.dead))
	if !e.dead {
		world.Close()
	}
}

// c08BrokenSync: a joining node syncs through the real client and the stream breaks - the peer's call fails after 0, 1,
// 3 vertices or at the very end, or a vertex arrives that the wire check refuses. The sync returns with an error; after
// it every operation on the joiner's ledger must still return (balance, DAG stream, genesis creation, another sync).
func c08BrokenSync(w *core.WorkerCtx) {
	r := w.R
	rng := core.Rand(w.Seed, "C08sync", w.Batch)
	desc := fmt.Sprintf("c08 sync over the real client from a peer whose stream breaks seed=%d batch=%d", w.Seed, w.Batch)
	w.Mark("%s", desc)
	world := ledger.NewWorld(rng, w.R, []string{"C08"}, 0, desc)
	defer world.Close()
	if _, err := ledger.Setup(world, ledger.Profile{Nodes: 1, Users: 4, SupplyClass: 0, Delivery: "lockstep"}); err != nil {
		r.Inconc("setup failed: " + err.Error())
		return
	}
	src := world.Nodes[0]
	world.Quiet = true
	for i := 0; i < 12; i++ {
		t := world.NewTrx(world.Users[0], world.Users[1+i%3].Addr, spice.Melange{SupplementaryCurrency: uint64(1 + i)}, nil)
		world.Propose(src, &t, "grow")
	}
	st := recordStream(src)
	type fault struct {
		name             string
		failAfter, badAt int
	}
	for _, f := range []fault{{"clean", -1, -1}, {"peer-fails-before-the-first-vertex", 0, -1}, {"peer-fails-after-1", 1, -1}, {"peer-fails-after-3", 3, -1}, {"peer-fails-at-the-end", len(st), -1}, {"unacceptable-wire-vertex-first", -1, 0}, {"unacceptable-wire-vertex-third", -1, 2}} {
		w.Mark("broken sync: %s", f.name)
		book, returned, release := syncJoiner(&streamPeer{stream: cloneStream(st), failAfter: f.failAfter, badAt: f.badAt})
		if book == nil {
			continue
		}
		r.Eval(1)
		r.Count("c08_broken_sync_cases", 1)
		wedged := ""
		if !returned {
			wedged = "the sync call itself"
		}
		probe := func(what string, fn func()) {
			if wedged != "" {
				return
			}
			done := make(chan struct{})
			go func() { defer close(done); fn() }()
			select {
			case <-done:
			case <-time.After(20 * time.Second):
				wedged = what
			}
		}
		probe("CalculateBalance after the sync returned", func() { book.CalculateBalance(context.Background(), world.Users[1].Addr) })
		probe("StreamDAG after the sync returned", func() {
			ctx, cancel := context.WithCancel(context.Background())
			for range book.StreamDAG(ctx) {
			}
			cancel()
		})
		probe("ReadTransactionByHash after the sync returned", func() { book.ReadTransactionByHash(context.Background(), st[0].Transaction.Hash) })
		r.Nontriv(fmt.Sprintf("broken-sync/%s/loaded=%v/wedged=%v", f.name, wedged == "" && book.DagLoaded(), wedged != ""))
		if wedged != "" {
			sig, detail := gmon.Signature()
			if sig == "" {
				r.Inconc("watchdog fired on " + wedged + " (" + f.name + ") without a recognisable goroutine signature")
			} else {
				r.Violate("C08", "wedged/after-broken-sync/"+sig, fmt.Sprintf("sync case %s: %s did not return; goroutine states: %s\n%s", f.name, wedged, sig, detail), nil)
			}
			release()
			return
		}
		release()
	}
}

// c08OrphansUnderTicker: for four ticks of the node's own orphan buffer (eight seconds) a peer keeps sending vertices
// whose left parent is the current tip of a 500-vertex ledger and whose right parent is unknown: each admission holds
// the ledger lock while it validates the tip (a walk over the whole ledger) and then parks the vertex, while the ticker
// pops parked vertices and replays them. Every call must return and the ledger must answer afterwards.
func c08OrphansUnderTicker(w *core.WorkerCtx) {
	rng := core.Rand(w.Seed, "C08t", w.Batch)
	desc := fmt.Sprintf("c08 orphans with a known tip as left parent for four ticks of the real orphan buffer seed=%d batch=%d", w.Seed, w.Batch)
	w.Mark("%s", desc)
	world := ledger.NewWorld(rng, w.R, []string{"C08"}, 0, desc)
	_, err := ledger.Setup(world, ledger.Profile{Nodes: 1, Users: 4, SupplyClass: 0, Delivery: "lockstep"})
	if err != nil {
		w.R.Inconc("setup failed: " + err.Error())
		return
	}
	e := &c08env{w: w, world: world, n: world.Nodes[0]}
	world.Quiet = true
	for i := 0; i < 500; i++ {
		t := world.NewTrx(world.Users[0], world.Users[1+i%3].Addr, spice.Melange{SupplementaryCurrency: uint64(1 + i%7)}, nil)
		world.Propose(e.n, &t, "grow")
	}
	tip, _ := e.tipAndAncestors()
	s, _ := ledger.TakeSnap(e.n.Book)
	if s == nil {
		return
	}
	tw := s.Live[tip].V.Weight
	start := time.Now()
	sent := 0
	for time.Since(start) < 8500*time.Millisecond && !e.dead {
		var ghost ledger.H
		rng.Read(ghost[:])
		t := world.NewTrx(world.Users[0], world.Users[1+sent%3].Addr, spice.Melange{}, []byte("half an orphan"))
		v := ledger.ForgeVertex(world.Sealers[sent%2], t, tip, ghost, tw+1, world.Now())
		e.watch("AddLeaf of a vertex whose right parent is unknown", func() { e.n.Book.AddLeaf(context.Background(), ledger.CloneVertex(&v)) })
		sent++
	}
	if !e.dead {
		e.watch("CalculateBalance after the orphans", func() { e.n.Book.CalculateBalance(context.Background(), world.Users[1].Addr) })
	}
	if !e.dead {
		e.grow(false)
	}
	w.R.Eval(1)
	w.R.Count("c08_half_orphans_sent_under_the_ticker", sent)
	w.R.Nontriv(fmt.Sprintf("orphans-under-ticker/wedged=%v", e.dead))
	if !e.dead {
		world.Close()
	}
}

func c08Worker(w *core.WorkerCtx) {
	maxN := w.Pick(7, 40)
	switch w.Batch % 4 {
	case 0:
		c08Cancellation(w, false, maxN)
	case 1:
		c08Cancellation(w, true, maxN)
	case 2:
		c08Streams(w)
	case 3:
		c08InternalExits(w)
		c08HeavyVertex(w)
		c08RetryExhaustion(w)
		c08TruncateUnderLoad(w)
		c08DropUnderReaders(w)
		c08CrossTrafficWhileJoining(w)
		c08FailedBackgroundTruncation(w)
		c08BrokenSync(w)
		c08OrphansUnderTicker(w)
		c08AsyncCancel(w)
	}
}

func init() {
	core.Register(&core.Check{
		Spec: core.Spec{
			Prop:        "C08",
			Rule:        "Bounded-progress restatement with a logical oracle. (1) Cancellation grid: on chain and diamond ledgers growing from 1 ancestor upwards, each of CalculateBalance, ReadDAGTransactionsByAddress, CreateLeaf (tip validation), AddLeaf (parent-tip validation) and StreamDAG is called with a context that reports cancellation after exactly k looks (k = 0..m+1 for a tip with m ancestors; the code looks once per visited ancestor) and with an already cancelled context; after the call returned no goroutine of the graph's ancestors walker may remain parked in a channel send (runtime.Stack, settled over <=150 polls), and read/write probes must return. (2) Stream cases: slow, stalled, cancelling, abandoned consumers (> 100 vertices) and 8 concurrent consumers while 1-3 writers propose; tips dropped during a stream. (3) Internal early exits: truncation's cut found (1030-vertex ledger), tampered parent met in a validation walk (loaded through sync), arithmetic overflow inside a walk (gross inflow 2^64). (4) Real contexts cancelled asynchronously at PRNG moments on a 300-vertex ledger. A watchdog (25 s) only ends a run; the verdict is the goroutine-state signature (walker parked in chan send, graph writer/reader blocked), otherwise inconclusive. Non-trivial = every case; distinct by (operation, shape, ancestors, k, outcome). (6) Retry exhaustion: an orphan whose parent never arrives uses up its retries through 30 steps of the real retry routine; afterwards another orphan, a proposal, a balance read and a full DAG stream must still return (goroutines waiting on the orphan buffer's mutex are a recognised wedge signature). (7) Truncation under load: a vertex whose weight crosses the next mark wakes the node's own truncation loop four times while two proposers and two gossiping peers keep writing and two clients keep reading balances and histories; every call must return. The truncation early exit runs on a 1030-vertex ledger and on a 2300-vertex ledger (more than a thousand vertices below the cut), the latter twice. (8) Overdrawing tips and children of them (whose arrival drops the tip, a graph write) are gossiped while four clients keep reading balances and histories. (9) Two real nodes of the virtual network originate an item at the same moment while a new node joins each of them (a write to the peer table every forward reads); both messages are handed over at once; every gossip-add and join must return (goroutine signature: peer-table lock waiters). (10) A truncation started by the node's own loop fails (its backup file names are taken by directories); seventy writes and a read must still return. (11) A joining node syncs through the real client from a real gRPC peer whose stream breaks (the call fails after 0, 1, 3 vertices or at the end; a wire vertex is refused); balance, DAG stream and by-hash read on the joiner must return afterwards. Half-orphans (known left parent of a long chain, unknown right parent) admitted for 8.5 s under the real replay ticker. Lock waiters inside value-receiver methods of the ledger are recognised by the goroutine signature. A fired watchdog with nobody waiting asks whether the operation's goroutine keeps running in repository code while the process burns processor time (a loop that does not end).",
			Assumptions: []string{"a goroutine of dag.walkAncestors parked in 'chan send' after its consumer returned can never progress (unbuffered channel, single consumer) and holds muDAG.RLock", "crash points are not among the quantifiers of this property; truncation is not cancelled (its context is the node's lifetime)"},
			MinEvals:    150, MinNontriv: 40,
		},
		Plan: func(tier string) core.Plan {
			if tier == "thorough" {
				return core.Plan{Batches: 12, Parallel: 12, Timeout: 40 * time.Minute}
			}
			return core.Plan{Batches: 4, Parallel: 4, Timeout: 8 * time.Minute}
		},
		Worker: c08Worker,
		OnCrash: func(c core.Crash, res *core.Result) {
			if !c.TimedOut && containsAny(c.Stderr, "panic:", "fatal error:") {
				res.Violate("C08", "panic/"+core.TopRepoFrame(c.Stderr), "a ledger operation crashed the process: "+core.CrashHeadline(c.Stderr)+"; last mark: "+c.LastMark, map[string]any{"marks": c.Marks, "stderr_head": headN(c.Stderr, 3000)})
				return
			}
			if c.TimedOut {
				if containsAny(c.Stderr, "walkAncestors") && containsAny(c.Stderr, "chan send") {
					res.Violate("C08", "wedged/worker-watchdog/walker-parked", "the worker did not finish; its goroutine dump shows an ancestors walker parked in chan send; last mark: "+c.LastMark, map[string]any{"marks": c.Marks})
					return
				}
				// the dump of a worker that never finished: goroutines of the ledger blocked for good on its own locks
				// or on its signal channel while holding them
				if containsAny(c.Stderr, "accountant.(*AccountingBook)") && containsAny(c.Stderr, "sync.RWMutex", "sync.Mutex.Lock", "chan send") && containsAny(c.Stderr, "minutes]") {
					res.Violate("C08", "wedged/worker-watchdog/ledger-goroutines-blocked", "the worker did not finish; its goroutine dump shows ledger goroutines blocked for minutes on the ledger's own locks / signal channel; last mark: "+c.LastMark, map[string]any{"marks": c.Marks, "stderr_head": headN(c.Stderr, 4000)})
					return
				}
			}
			res.Inconc(fmt.Sprintf("batch %d ended abnormally (timeout=%v): %s; last mark: %s", c.Batch, c.TimedOut, core.CrashHeadline(c.Stderr), c.LastMark))
		},
	})
}

func headN(s string, n int) string {
	if len(s) > n {
		return s[:n]
	}
	return s
}
