package checks

import (
	"context"
	"fmt"
	"math/big"
	"time"

	"github.com/bartossh/Computantis/src/accountant"
	"github.com/bartossh/Computantis/src/gossip"
	"github.com/bartossh/Computantis/src/protobufcompiled"
	"github.com/bartossh/Computantis/src/spice"
	"github.com/bartossh/Computantis/src/transformers"

	"verifharness/core"
	"verifharness/ledger"
	"verifharness/svc"
)

// c05LedgerWorker: an amount that is not canonical (supplementary >= 10^18) is never accepted in to the ledger,
// through any entry point.
// c05SeamProbes: wallets that own amounts on both sides of the seam between the two parts of the currency (whole
// units only, fractions only, fraction 10^18-1, one unit below a whole) each try to spend one smallest unit more than
// they own, and every second one then exactly what it owns, on a single-chain ledger.
func c05SeamProbes(w *core.WorkerCtx, report []string) {
	rng := core.Rand(w.Seed, "C05seam", w.Batch)
	desc := fmt.Sprintf("seam probes: wallets owning amounts around the currency seam overspend by one smallest unit seed=%d batch=%d", w.Seed, w.Batch)
	world := ledger.NewWorld(rng, w.R, report, allSnapOracles, desc)
	defer world.Close()
	d, err := ledger.Setup(world, ledger.Profile{Nodes: 1, Users: 7, SupplyClass: 0, Delivery: "lockstep"})
	if err != nil {
		w.R.Inconc("setup failed: " + err.Error())
		return
	}
	n := world.Nodes[0]
	u := world.Users
	e18 := ledger.E18
	owns := []spice.Melange{{Currency: 10}, {Currency: 10, SupplementaryCurrency: 5 * e18 / 10}, {SupplementaryCurrency: 7}, {Currency: 3, SupplementaryCurrency: e18 - 1}, {Currency: 1, SupplementaryCurrency: 1}, {Currency: 2, SupplementaryCurrency: 3 * e18 / 10}}
	for i := 1; i < len(u) && i-1 < len(owns); i++ {
		t := world.NewTrx(u[0], u[i].Addr, owns[i-1], nil)
		world.Propose(n, &t, "fund")
	}
	// some of it moves on, so that receipts and spends both have fractions
	for i := 1; i < len(u)-1; i++ {
		t := world.NewTrx(u[i], u[i+1].Addr, spice.Melange{SupplementaryCurrency: uint64(1 + rng.Intn(1000))}, nil)
		world.Propose(n, &t, "move a fraction on")
	}
	for k := 0; k < 2; k++ {
		m := world.NewTrx(u[0], u[1].Addr, spice.Melange{}, []byte("merge"))
		world.Propose(n, &m, "merge")
	}
	world.OverspendProbes(n, d)
	world.OverspendProbes(n, d)
	w.R.Count("seam_probe_scenarios", 1)
}

// c05TurnoverBeyondLimit: wallets whose turnover (not their balance) passes 2^64 units - big amounts going round
// W -> C -> W, with transfers of W to itself at different places of the history. After every step every wallet's
// balance is asked for: the ledger may refuse to answer (its sums are 64 bit amounts) but a number it does report is
// the exact net flow of the vertices it holds, recomputed with unbounded integers from a snapshot; and a wallet that
// proposes one smallest unit more than that must be refused.
func c05TurnoverBeyondLimit(w *core.WorkerCtx, report []string) {
	rng := core.Rand(w.Seed, "C05turnover", w.Batch)
	e18 := ledger.E18
	const half = uint64(1) << 63
	xs := []spice.Melange{{Currency: 5, SupplementaryCurrency: e18 - 1}, {SupplementaryCurrency: 1}, {Currency: 1 << 62}, {Currency: uint64(1 + rng.Intn(1000)), SupplementaryCurrency: uint64(rng.Intn(int(e18)))}}
	for variant := 0; variant < w.Pick(4, 12); variant++ {
		desc := fmt.Sprintf("c05 turnover beyond 2^64 with transfers to self, variant %d seed=%d batch=%d", variant, w.Seed, w.Batch)
		w.Mark("%s", desc)
		world := ledger.NewWorld(rng, w.R, report, 0, desc)
		if _, err := ledger.Setup(world, ledger.Profile{Nodes: 1, Users: 4, SupplyClass: 1, Delivery: "lockstep"}); err != nil {
			w.R.Inconc("setup failed: " + err.Error())
			world.Close()
			return
		}
		n := world.Nodes[0]
		u := world.Users
		bank, W, C := u[0], u[1], u[2]
		x := xs[variant%len(xs)]
		m := spice.Melange{Currency: half - 1 - uint64(variant/len(xs))}
		type step struct {
			from *ledger.Actor
			to   string
			amt  spice.Melange
		}
		self := step{W, W.Addr, x}
		steps := []step{{bank, W.Addr, x}}
		pos := variant % 3 // where the transfer to self stands: before the big amounts, between them, after the first round trip
		if pos == 0 {
			steps = append(steps, self)
		}
		steps = append(steps, step{bank, W.Addr, m})
		if pos == 1 {
			steps = append(steps, self)
		}
		steps = append(steps, step{W, C.Addr, m}, step{C, W.Addr, m})
		if pos == 2 {
			steps = append(steps, self)
		}
		steps = append(steps, step{W, C.Addr, m}, step{C, W.Addr, m}, step{bank, C.Addr, spice.Melange{Currency: 1}}, step{W, W.Addr, x}, step{bank, C.Addr, spice.Melange{SupplementaryCurrency: 1}})
		judge := func(when string) {
			s, err := ledger.TakeSnap(n.Book)
			if err != nil {
				return
			}
			for _, a := range []*ledger.Actor{W, C, u[3]} {
				in, out := ledger.Flows(a.Addr, func(yield func(*accountant.Vertex)) {
					for _, l := range s.Live {
						yield(&l.V)
					}
				})
				exact := in.Sub(in, out)
				b, err := n.Book.CalculateBalance(world.Ctx, a.Addr)
				w.R.Eval(1)
				w.R.Count("c05_balances_of_wallets_with_huge_turnover", 1)
				if err != nil {
					world.NontrivFor("C05", fmt.Sprintf("turnover/%d/%s/refused", variant%12, a.Name))
					continue
				}
				world.NontrivFor("C05", fmt.Sprintf("turnover/%d/%s/answered", variant%12, a.Name))
				if got := ledger.Val(b.Spice); got.Cmp(exact) != 0 || b.Spice.SupplementaryCurrency >= e18 {
					world.Violate("C05", "ledger-sum-inexact/turnover-beyond-limit", fmt.Sprintf("%s: the node reports %s for wallet %s, the vertices it holds give exactly %s (difference %s)", when, ledger.MelStr(b.Spice), a.Name, exact, new(big.Int).Sub(got, exact)))
					continue
				}
				// one smallest unit more than that is never sealed and kept
				over := b.Spice
				if over.SupplementaryCurrency+1 >= e18 {
					over.Currency, over.SupplementaryCurrency = over.Currency+1, 0
				} else {
					over.SupplementaryCurrency++
				}
				if over.Currency < b.Spice.Currency {
					continue
				}
				ot := world.NewTrx(a, bank.Addr, over, nil) // (to another wallet: a transfer to self is covered by itself)
				if ov, err := world.Propose(n, &ot, "one smallest unit more than the wallet holds"); err == nil {
					for k := 0; k < 2; k++ {
						mt := world.NewTrx(bank, u[3].Addr, spice.Melange{}, []byte("judge the tip"))
						world.Propose(n, &mt, "judge")
					}
					if _, err := n.Book.ReadVertex(world.Ctx, ov.Hash); err == nil {
						world.Violate("C05", "ledger-sum-inexact/turnover-beyond-limit/overspend-kept", fmt.Sprintf("%s: wallet %s holds exactly %s and its transfer of %s was sealed and confirmed", when, a.Name, exact, ledger.MelStr(over)))
					}
				}
			}
		}
		for i, st := range steps {
			t := world.NewTrx(st.from, st.to, st.amt, nil)
			_, err := world.Propose(n, &t, "turnover step")
			judge(fmt.Sprintf("variant %d after step %d (%s -> %s %s, accepted=%v)", variant, i, st.from.Name, world.NameOf(st.to), ledger.MelStr(st.amt), err == nil))
		}
		world.Close()
	}
}

// c05WrapAmounts: contracts that carry an amount whose two parts add up to 2^64 as machine words (2^64-1 and one
// smallest unit, ...). They move what they say: after every step every balance the node reports is the exact net flow.
func c05WrapAmounts(w *core.WorkerCtx, report []string) {
	rng := core.Rand(w.Seed, "C05wrap", w.Batch)
	e18 := ledger.E18
	desc := fmt.Sprintf("c05 contracts carrying amounts whose parts add up to 2^64 seed=%d batch=%d", w.Seed, w.Batch)
	w.Mark("%s", desc)
	for _, sup := range []uint64{1, 6, e18 - 1, uint64(2 + rng.Intn(1000))} {
		world := ledger.NewWorld(rng, w.R, report, 0, desc)
		if _, err := ledger.Setup(world, ledger.Profile{Nodes: 1, Users: 4, SupplyClass: 2, Delivery: "lockstep"}); err != nil {
			w.R.Inconc("setup failed: " + err.Error())
			world.Close()
			return
		}
		n := world.Nodes[0]
		u := world.Users
		amt := spice.Melange{Currency: -sup, SupplementaryCurrency: sup}
		hops := []struct {
			from *ledger.Actor
			to   *ledger.Actor
		}{{u[0], u[1]}, {u[1], u[2]}, {u[3], u[1]}, {u[2], u[0]}} // (the third is not covered: wallet 3 owns nothing)
		for i, h := range hops {
			t := world.NewTrx(h.from, h.to.Addr, amt, []byte(fmt.Sprintf("paid contract %d", i)))
			_, perr := world.Propose(n, &t, "contract carrying a wrap-around amount")
			for k := 0; k < 2; k++ {
				mt := world.NewTrx(u[0], u[3].Addr, spice.Melange{}, []byte("judge the tip"))
				world.Propose(n, &mt, "judge")
			}
			s, err := ledger.TakeSnap(n.Book)
			if err != nil {
				break
			}
			for _, a := range u {
				in, out := ledger.Flows(a.Addr, func(yield func(*accountant.Vertex)) {
					for _, l := range s.Live {
						yield(&l.V)
					}
				})
				exact := in.Sub(in, out)
				b, berr := n.Book.CalculateBalance(world.Ctx, a.Addr)
				w.R.Eval(1)
				w.R.Count("c05_balances_after_wrap_around_amounts", 1)
				world.NontrivFor("C05", fmt.Sprintf("wrap-amount/sup%d/hop%d/accepted=%v/answered=%v", sup%7, i, perr == nil, berr == nil))
				if exact.Sign() < 0 {
					world.Violate("C05", "ledger-sum-inexact/wrap-around-amount/overdrawn", fmt.Sprintf("after hop %d (%s -> %s %s with data, accepted=%v) the confirmed vertices leave wallet %s at %s", i, h.from.Name, h.to.Name, ledger.MelStr(amt), perr == nil, a.Name, exact))
					continue
				}
				if berr == nil && ledger.Val(b.Spice).Cmp(exact) != 0 {
					world.Violate("C05", "ledger-sum-inexact/wrap-around-amount", fmt.Sprintf("after hop %d (%s -> %s %s with data, accepted=%v) the node reports %s for wallet %s, the vertices it holds give exactly %s", i, h.from.Name, h.to.Name, ledger.MelStr(amt), perr == nil, ledger.MelStr(b.Spice), a.Name, exact))
				}
			}
		}
		world.Close()
	}
}

func c05LedgerWorker(w *core.WorkerCtx) {
	c05WrapAmounts(w, []string{"C05"})
	c05SeamProbes(w, []string{"C05"})
	c05TurnoverBeyondLimit(w, []string{"C05"})
	r := w.R
	rng := core.Rand(w.Seed, "C05L", w.Batch)
	e18 := ledger.E18
	amounts := []spice.Melange{
		{Currency: 0, SupplementaryCurrency: e18},
		{Currency: 0, SupplementaryCurrency: e18 + 1},
		{Currency: 1, SupplementaryCurrency: 2*e18 - 1},
		{Currency: 0, SupplementaryCurrency: 1 << 63},
		{Currency: 0, SupplementaryCurrency: ^uint64(0)},
		{Currency: ^uint64(0), SupplementaryCurrency: e18},
		{Currency: 3, SupplementaryCurrency: 5 * e18},
	}
	scan := func(world *ledger.World, n *ledger.Node, entry string, amt spice.Melange) {
		s, err := ledger.TakeSnap(n.Book)
		if err != nil {
			return
		}
		bad := func(where string, v *accountant.Vertex) {
			if v.Transaction.Spice.SupplementaryCurrency >= e18 {
				world.Violate("C05", "non-canonical-amount-in-ledger/"+entry, fmt.Sprintf("a transaction with amount %s (supplementary >= 10^18) offered through %s is %s in the ledger of node %s", ledger.MelStr(v.Transaction.Spice), entry, where, n.Name))
			}
		}
		for _, l := range s.Live {
			bad("live", &l.V)
		}
		for _, v := range s.Stored {
			bad("checkpointed", v)
		}
		for _, p := range s.Parked {
			v := p.Vertex
			bad("parked for replay", &v)
		}
		r.Eval(1)
		r.Nontriv(fmt.Sprintf("ledger/%s/%d.%d", entry, amt.Currency%7, amt.SupplementaryCurrency%13))
	}
	for round := 0; round < w.Pick(2, 10); round++ {
		desc := fmt.Sprintf("c05 ledger ingress of non-canonical amounts round=%d seed=%d", round, w.Seed)
		world := ledger.NewWorld(rng, r, []string{"C05"}, 0, desc)
		d, err := ledger.Setup(world, ledger.Profile{Nodes: 2, Users: 4, SupplyClass: 1, Delivery: "lockstep"})
		if err != nil {
			r.Inconc("setup failed: " + err.Error())
			world.Close()
			continue
		}
		_ = d
		n0, n1 := world.Nodes[0], world.Nodes[1]
		u := world.Users
		f := world.NewTrx(u[0], u[1].Addr, spice.Melange{Currency: 1 << 40}, nil)
		if fv, err := world.Propose(n0, &f, "fund"); err == nil {
			world.Deliver(n1, &fv, "net")
		}
		for ai, amt := range amounts {
			// with and without data: a contract that carries spice is a transfer like any other
			var data []byte
			if (ai+round)%2 == 1 {
				data = []byte("contract carrying a non-canonical amount")
			}
			// (1) local proposal
			t := world.NewTrx(u[1], u[2].Addr, amt, data)
			_, err := world.Propose(n0, &t, "non-canonical amount")
			if err == nil {
				world.Logf("CreateLeaf accepted amount %s", ledger.MelStr(amt))
			}
			m := world.NewTrx(u[0], u[3].Addr, spice.Melange{}, []byte("confirm"))
			world.Propose(n0, &m, "follow-up")
			scan(world, n0, "CreateLeaf", amt)
			// (2) gossip
			t2 := world.NewTrx(u[1], u[2].Addr, amt, data)
			s := n1.Prev
			var tip ledger.H
			var wgt uint64
			for h := range s.Leaves {
				tip, wgt = h, s.Live[h].V.Weight
			}
			v := ledger.ForgeVertex(world.Sealers[0], t2, tip, tip, wgt+1, world.Now())
			world.Deliver(n1, &v, "non-canonical amount")
			m2 := world.NewTrx(u[0], u[3].Addr, spice.Melange{}, []byte("confirm"))
			world.Propose(n1, &m2, "follow-up")
			scan(world, n1, "AddLeaf", amt)
			// (3) sync: a stream that contains such a vertex
			src, _ := ledger.TakeSnap(n1.Book)
			var stream []*accountant.Vertex
			for _, l := range src.Live {
				c := l.V
				stream = append(stream, &c)
			}
			var stip ledger.H
			var sw uint64
			for h := range src.Leaves {
				stip, sw = h, src.Live[h].V.Weight
			}
			t3 := world.NewTrx(u[1], u[2].Addr, amt, data)
			sv := ledger.ForgeVertex(world.Sealers[1], t3, stip, stip, sw+1, world.Now())
			stream = append(stream, &sv)
			ln, loaded, _ := world.AddLoadedNode("L", stream, false)
			if ln != nil {
				if loaded {
					scan(world, ln, "LoadDag", amt)
				} else {
					r.Eval(1)
					r.Nontriv("ledger/LoadDag/refused")
				}
				world.CloseNode(ln)
			}
		}
		world.Close()
	}
	// (4) notary Propose and (5) GossipVrx on the service rig
	rig, err := svc.New(4, 60, 2048)
	if err != nil {
		r.Inconc("cannot build the node: " + err.Error())
		return
	}
	defer rig.Close()
	ctx := context.Background()
	ft := ledger.ForgeTrx(rig.Users[0], rig.Users[1].Addr, "fund", nil, spice.Melange{Currency: 1 << 30}, time.Now().Add(-time.Minute))
	fp, _ := transformers.TrxToProtoTrx(ft)
	rig.Notary.Propose(ctx, fp)
	scanRig := func(entry string, amt spice.Melange) {
		s, err := ledger.TakeSnap(rig.Book)
		if err != nil {
			return
		}
		for _, l := range s.Live {
			if l.V.Transaction.Spice.SupplementaryCurrency >= e18 {
				r.Violate("C05", "non-canonical-amount-in-ledger/"+entry, fmt.Sprintf("a transaction with amount %s offered through %s is in the node's ledger", ledger.MelStr(l.V.Transaction.Spice), entry), nil)
			}
		}
		r.Eval(1)
		r.Nontriv(fmt.Sprintf("ledger/%s/%d.%d", entry, amt.Currency%7, amt.SupplementaryCurrency%13))
	}
	for i, amt := range amounts {
		var data []byte
		if i%2 == 1 {
			data = []byte("contract carrying a non-canonical amount")
		}
		t := ledger.ForgeTrx(rig.Users[1], rig.Users[2].Addr, fmt.Sprintf("nc %d", i), data, amt, time.Now().Add(-time.Minute))
		p := &protobufcompiled.Transaction{Subject: t.Subject, Data: data, Hash: t.Hash[:], CreatedAt: uint64(t.CreatedAt.UnixNano()), ReceiverAddress: t.ReceiverAddress, IssuerAddress: t.IssuerAddress,
			IssuerSignature: t.IssuerSignature, Spice: &protobufcompiled.Spice{Currency: amt.Currency, SupplementaryCurrency: amt.SupplementaryCurrency}}
		rig.Notary.Propose(ctx, p)
		if data != nil {
			// a contract waits for its receiver: confirm it (countersigned) and reject a second one
			c := t
			ledger.CounterSign(&c, rig.Users[2])
			cp := &protobufcompiled.Transaction{Subject: c.Subject, Data: data, Hash: c.Hash[:], CreatedAt: uint64(c.CreatedAt.UnixNano()), ReceiverAddress: c.ReceiverAddress, IssuerAddress: c.IssuerAddress,
				IssuerSignature: c.IssuerSignature, ReceiverSignature: c.ReceiverSignature, Spice: &protobufcompiled.Spice{Currency: amt.Currency, SupplementaryCurrency: amt.SupplementaryCurrency}}
			rig.Notary.Confirm(ctx, cp)
			t4 := ledger.ForgeTrx(rig.Users[1], rig.Users[2].Addr, fmt.Sprintf("ncr %d", i), data, amt, time.Now().Add(-time.Minute))
			p4 := &protobufcompiled.Transaction{Subject: t4.Subject, Data: data, Hash: t4.Hash[:], CreatedAt: uint64(t4.CreatedAt.UnixNano()), ReceiverAddress: t4.ReceiverAddress, IssuerAddress: t4.IssuerAddress,
				IssuerSignature: t4.IssuerSignature, Spice: &protobufcompiled.Spice{Currency: amt.Currency, SupplementaryCurrency: amt.SupplementaryCurrency}}
			rig.Notary.Propose(ctx, p4)
			rig.Notary.Reject(ctx, svc.Sign(rig.Users[2], t4.Hash[:]))
		}
		ok := ledger.ForgeTrx(rig.Users[0], rig.Users[3].Addr, fmt.Sprintf("ok %d", i), []byte("c"), spice.Melange{}, time.Now().Add(-time.Minute))
		okp, _ := transformers.TrxToProtoTrx(ok)
		rig.Notary.Propose(ctx, okp)
		scanRig("notary.Propose", amt)
		s, _ := ledger.TakeSnap(rig.Book)
		var tip ledger.H
		var wgt uint64
		for h := range s.Leaves {
			tip, wgt = h, s.Live[h].V.Weight
		}
		t2 := ledger.ForgeTrx(rig.Users[1], rig.Users[2].Addr, fmt.Sprintf("ncg %d", i), data, amt, time.Now().Add(-time.Minute))
		v := ledger.ForgeVertex(rig.PeerAct[0], t2, tip, tip, wgt+1, time.Now().Add(-time.Second))
		rig.Gossip.GossipVrx(ctx, &protobufcompiled.VrxMsgGossip{Vertex: gossip.VerifVertexToProtoVertex(&v)})
		scanRig("gossip.GossipVrx", amt)
	}
	r.Count("c05_ledger_ingress_offers", len(amounts)*5)
}
