package checks

import "verifharness/core"

func c05LedgerWorker(w *core.WorkerCtx) {
	// filled in once the ledger simulator exists
	w.R.Note("ledger ingress part not built yet")
}
