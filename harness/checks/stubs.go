package checks

import "verifharness/core"

func c01Truncation(w *core.WorkerCtx) {}
func c10Genesis(w *core.WorkerCtx)    {}
func c02Truncation(w *core.WorkerCtx) {}
func c06Truncation(w *core.WorkerCtx) {}
