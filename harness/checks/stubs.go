package checks

import "verifharness/core"

func c10Genesis(w *core.WorkerCtx) {}
