package checks

import (
	"context"
	"errors"
	"fmt"
	"github.com/bartossh/Computantis/src/gossip"
	"github.com/bartossh/Computantis/src/protobufcompiled"
	"github.com/bartossh/Computantis/src/transformers"
	"google.golang.org/protobuf/proto"
	"math/rand"
	"sort"
	"strings"
	"sync"
	"sync/atomic"
	"time"
	"verifharness/svc"

	"github.com/anishathalye/porcupine"
	"github.com/bartossh/Computantis/src/cache"
	"github.com/bartossh/Computantis/src/spice"
	"github.com/bartossh/Computantis/src/transaction"

	"verifharness/core"
	"verifharness/ledger"
)

// C17 — the awaiting-transaction index never loses or invents entries.

type c17Op struct {
	Client  int
	Kind    string // save | remove | read
	Trx     string // hex of the transaction hash (save, remove)
	Issuer  string
	Recv    string
	Addr    string // remove: the address that asks; read: the address listed
	Call    int64
	Ret     int64
	Res     string   // ok | exists | notfound | unauthorized | error:<text>
	Listing []string // read: sorted transaction hashes (as a set)
	Dups    int      // read: entries returned more than once
}

var c17Clock atomic.Int64

func c17Now() int64 { return c17Clock.Add(1) }

func c17ErrClass(err error) string {
	switch {
	case err == nil:
		return "ok"
	case errors.Is(err, cache.ErrTrxAlreadyExists):
		return "exists"
	case errors.Is(err, cache.ErrTransactionNotFound):
		return "notfound"
	case errors.Is(err, cache.ErrUnauthorized):
		return "unauthorized"
	}
	return "error:" + err.Error()
}

func c17Save(h *cache.Hippocampus, client int, t *transaction.Transaction) c17Op {
	op := c17Op{Client: client, Kind: "save", Trx: ledger.HexFull(t.Hash), Issuer: t.IssuerAddress, Recv: t.ReceiverAddress}
	op.Call = c17Now()
	err := h.SaveAwaitedTransaction(t)
	op.Ret = c17Now()
	op.Res = c17ErrClass(err)
	return op
}

func c17Remove(h *cache.Hippocampus, client int, t *transaction.Transaction, addr string) c17Op {
	op := c17Op{Client: client, Kind: "remove", Trx: ledger.HexFull(t.Hash), Issuer: t.IssuerAddress, Recv: t.ReceiverAddress, Addr: addr}
	op.Call = c17Now()
	got, err := h.RemoveAwaitedTransaction(t.Hash, addr)
	op.Ret = c17Now()
	op.Res = c17ErrClass(err)
	if err == nil && got.Hash != t.Hash {
		op.Res = "error:removed another transaction"
	}
	// a removal that took the transaction but reports a leftover of the address bookkeeping still took effect
	if err != nil && got.Hash == t.Hash && !strings.HasPrefix(op.Res, "error:removed") {
		op.Res = "ok"
	}
	return op
}

func c17Read(h *cache.Hippocampus, client int, addr string) c17Op {
	op := c17Op{Client: client, Kind: "read", Addr: addr}
	op.Call = c17Now()
	trxs, err := h.ReadTransactions(addr)
	op.Ret = c17Now()
	op.Res = c17ErrClass(err)
	if err != nil && !errors.Is(err, cache.ErrTransactionNotFound) {
		return op
	}
	op.Res = "ok"
	// the listing is judged as a set (the model is a map): a transaction that expired and was saved again is referenced
	// twice by the address list and comes back twice; that is counted, not judged
	seen := map[string]bool{}
	for _, t := range trxs {
		k := ledger.HexFull(t.Hash)
		if seen[k] {
			op.Dups++
			continue
		}
		seen[k] = true
		op.Listing = append(op.Listing, k)
	}
	sort.Strings(op.Listing)
	return op
}

// address list model: a set of hashes rendered as a sorted, comma joined string
type c17ListIn struct {
	Kind string // add | del | read
	Trx  string
}

func setAdd(state, x string) string {
	if x == "" {
		return state
	}
	parts := strings.Split(state, ",")
	if state == "" {
		parts = nil
	}
	for _, p := range parts {
		if p == x {
			return state
		}
	}
	parts = append(parts, x)
	sort.Strings(parts)
	return strings.Join(parts, ",")
}

func setDel(state, x string) string {
	if state == "" {
		return state
	}
	parts := strings.Split(state, ",")
	out := parts[:0]
	for _, p := range parts {
		if p != x {
			out = append(out, p)
		}
	}
	return strings.Join(out, ",")
}

var c17ListModel = porcupine.Model{
	Init: func() any { return "" },
	Step: func(st, in, out any) (bool, any) {
		s := st.(string)
		i := in.(c17ListIn)
		switch i.Kind {
		case "add":
			return true, setAdd(s, i.Trx)
		case "del":
			return true, setDel(s, i.Trx)
		default:
			return out.(string) == s, s
		}
	},
	Equal: func(a, b any) bool { return a.(string) == b.(string) },
	DescribeOperation: func(in, out any) string {
		i := in.(c17ListIn)
		if i.Kind == "read" {
			return fmt.Sprintf("read -> {%s}", shortList(out.(string)))
		}
		return i.Kind + " " + i.Trx[:8]
	},
}

func shortList(s string) string {
	if s == "" {
		return ""
	}
	parts := strings.Split(s, ",")
	for i := range parts {
		if len(parts[i]) > 8 {
			parts[i] = parts[i][:8]
		}
	}
	return strings.Join(parts, ",")
}

// transaction key model: absent/present register
type c17KeyIn struct {
	Kind       string // save | remove
	ByReceiver bool
}

var c17KeyModel = porcupine.Model{
	Init: func() any { return false },
	Step: func(st, in, out any) (bool, any) {
		present := st.(bool)
		i := in.(c17KeyIn)
		res := out.(string)
		switch i.Kind {
		case "save":
			if present {
				return res == "exists", true
			}
			return res == "ok", true
		default:
			if !present {
				return res == "notfound", false
			}
			if !i.ByReceiver {
				return res == "unauthorized", true
			}
			return res == "ok", false
		}
	},
	Equal: func(a, b any) bool { return a.(bool) == b.(bool) },
}

// c17CheckHistory checks one recorded history: quiescent listing and linearizability per address list and per key.
func c17CheckHistory(w *core.WorkerCtx, h *cache.Hippocampus, ops []c17Op, addrs []string, desc string, concurrent bool) {
	r := w.R
	r.Eval(1)
	witness := func() any {
		o := ops
		if len(o) > 60 {
			o = o[:60]
		}
		return map[string]any{"history": desc, "operations": o}
	}
	for _, op := range ops {
		if op.Dups > 0 {
			r.Count("c17_reads_with_duplicate_entries_after_expiry_and_resave", 1)
		}
		if strings.HasPrefix(op.Res, "error:") {
			r.Violate("C17", "unexpected-error/"+op.Kind, fmt.Sprintf("%s of %s returned %s", op.Kind, short8(op.Trx), op.Res), witness())
		}
	}
	// (a) quiescence: listing(addr) = successful saves touching addr - successful removals
	want := map[string]map[string]bool{}
	for _, a := range addrs {
		want[a] = map[string]bool{}
	}
	sorted := append([]c17Op{}, ops...)
	sort.Slice(sorted, func(i, j int) bool { return sorted[i].Ret < sorted[j].Ret })
	present := map[string]c17Op{}
	for _, op := range sorted {
		if op.Kind == "save" && op.Res == "ok" {
			present[op.Trx] = op
		}
		if op.Kind == "remove" && op.Res == "ok" {
			delete(present, op.Trx)
		}
	}
	for trx, op := range present {
		if _, ok := want[op.Issuer]; ok {
			want[op.Issuer][trx] = true
		}
		if _, ok := want[op.Recv]; ok {
			want[op.Recv][trx] = true
		}
	}
	for _, a := range addrs {
		got := c17Read(h, -1, a)
		var wl []string
		for t := range want[a] {
			wl = append(wl, t)
		}
		sort.Strings(wl)
		if strings.Join(got.Listing, ",") != strings.Join(wl, ",") {
			missing, extra := diffLists(wl, got.Listing)
			sig := "listing-differs-at-quiescence"
			if len(missing) > 0 && len(extra) == 0 {
				sig = "entries-lost"
			} else if len(extra) > 0 && len(missing) == 0 {
				sig = "entries-invented"
			}
			r.Violate("C17", sig, fmt.Sprintf("after %d operations (%s) address %s lists %d transactions, expected %d; missing %v extra %v", len(ops), desc, short8(a), len(got.Listing), len(wl), missing, extra), witness())
		}
	}
	// (b) porcupine: per address list and per transaction key
	perAddr := map[string][]porcupine.Operation{}
	perKey := map[string][]porcupine.Operation{}
	for _, op := range ops {
		switch op.Kind {
		case "save":
			if op.Res == "ok" {
				for _, a := range uniq(op.Issuer, op.Recv) {
					perAddr[a] = append(perAddr[a], porcupine.Operation{ClientId: op.Client, Input: c17ListIn{"add", op.Trx}, Call: op.Call, Output: "", Return: op.Ret})
				}
			}
			perKey[op.Trx] = append(perKey[op.Trx], porcupine.Operation{ClientId: op.Client, Input: c17KeyIn{"save", false}, Call: op.Call, Output: op.Res, Return: op.Ret})
		case "remove":
			if op.Res == "ok" {
				for _, a := range uniq(op.Issuer, op.Recv) {
					perAddr[a] = append(perAddr[a], porcupine.Operation{ClientId: op.Client, Input: c17ListIn{"del", op.Trx}, Call: op.Call, Output: "", Return: op.Ret})
				}
			}
			perKey[op.Trx] = append(perKey[op.Trx], porcupine.Operation{ClientId: op.Client, Input: c17KeyIn{"remove", op.Addr == op.Recv}, Call: op.Call, Output: op.Res, Return: op.Ret})
		case "read":
			perAddr[op.Addr] = append(perAddr[op.Addr], porcupine.Operation{ClientId: op.Client, Input: c17ListIn{"read", ""}, Call: op.Call, Output: strings.Join(op.Listing, ","), Return: op.Ret})
		}
	}
	for a, po := range perAddr {
		res := porcupine.CheckOperationsTimeout(c17ListModel, po, 20*time.Second)
		r.Count("c17_porcupine_address_histories", 1)
		switch res {
		case porcupine.Illegal:
			r.Violate("C17", "address-list-history-not-linearizable", fmt.Sprintf("the recorded history of the list of address %s (%d operations, %s) admits no linear order in which every read returns exactly the saved-and-not-removed transactions", short8(a), len(po), desc), witness())
		case porcupine.Unknown:
			r.Inconc("porcupine timed out on an address list history")
		}
	}
	for k, po := range perKey {
		res := porcupine.CheckOperationsTimeout(c17KeyModel, po, 20*time.Second)
		r.Count("c17_porcupine_key_histories", 1)
		switch res {
		case porcupine.Illegal:
			r.Violate("C17", "transaction-key-history-not-linearizable", fmt.Sprintf("the results of save/remove calls on transaction %s (%d operations, %s) admit no linear order (e.g. two successful saves, a stranger's removal succeeded)", short8(k), len(po), desc), witness())
		case porcupine.Unknown:
			r.Inconc("porcupine timed out on a key history")
		}
	}
}

func short8(s string) string {
	if len(s) > 8 {
		return s[:8]
	}
	return s
}

func uniq(a, b string) []string {
	if a == b {
		return []string{a}
	}
	return []string{a, b}
}

func diffLists(want, got []string) (missing, extra []string) {
	w, g := map[string]bool{}, map[string]bool{}
	for _, x := range want {
		w[x] = true
	}
	for _, x := range got {
		g[x] = true
	}
	for _, x := range want {
		if !g[x] {
			missing = append(missing, short8(x))
		}
	}
	for _, x := range got {
		if !w[x] {
			extra = append(extra, short8(x))
		}
	}
	return
}

// c17Expiry (thorough tier only, it has to outwait the cache's fixed 5 minute life window): a transaction that
// expired leaves a dangling reference on the address list; the transactions saved later on the same list must
// still be listed, and nothing else.
func c17Expiry(w *core.WorkerCtx, done chan<- struct{}) {
	defer close(done)
	h, err := cache.New(800, 512)
	if err != nil {
		return
	}
	defer h.Close()
	a, b, c := ledger.NewActor("a"), ledger.NewActor("b"), ledger.NewActor("c")
	mk := func(from *ledger.Actor, to string, i int) *transaction.Transaction {
		t := ledger.ForgeTrx(from, to, fmt.Sprintf("expiring %d", i), []byte("contract"), spice.Melange{}, time.Now().Add(-time.Minute))
		return &t
	}
	old1, old2 := mk(b, a.Addr, 1), mk(c, a.Addr, 2)
	h.SaveAwaitedTransaction(old1)
	h.SaveAwaitedTransaction(old2)
	time.Sleep(4 * time.Minute)
	young := []*transaction.Transaction{mk(b, a.Addr, 3), mk(c, a.Addr, 4), mk(a, a.Addr, 5)}
	for _, t := range young {
		h.SaveAwaitedTransaction(t)
	}
	time.Sleep(2*time.Minute + 40*time.Second) // the cleaner (every 3 minutes) has now evicted what is older than 5 minutes
	got := c17Read(h, 0, a.Addr)
	var want []string
	for _, t := range young {
		want = append(want, ledger.HexFull(t.Hash))
	}
	sort.Strings(want)
	w.R.Eval(1)
	w.R.Nontriv("expiry/dangling-reference-then-live-entries")
	w.R.Count("c17_expiry_scenarios", 1)
	missing, extra := diffLists(want, got.Listing)
	// the old ones may or may not have been evicted yet (the cleaner's schedule is the cache's business): only the young ones are judged
	var realExtra []string
	for _, e := range extra {
		if e != short8(ledger.HexFull(old1.Hash)) && e != short8(ledger.HexFull(old2.Hash)) {
			realExtra = append(realExtra, e)
		}
	}
	if len(missing) > 0 {
		w.R.Violate("C17", "entries-lost/after-expiry-of-an-older-entry", fmt.Sprintf("after two older transactions of the same receiver passed the life window, the receiver's list misses %v of the 3 transactions saved 2m40s ago (listed: %d)", missing, len(got.Listing)), nil)
	}
	if len(realExtra) > 0 {
		w.R.Violate("C17", "entries-invented", fmt.Sprintf("the list holds unknown transactions %v", realExtra), nil)
	}
	// a second read after the clean-up must list the same
	got2 := c17Read(h, 0, a.Addr)
	if m2, _ := diffLists(want, got2.Listing); len(m2) > 0 {
		w.R.Violate("C17", "entries-lost/after-expiry-of-an-older-entry", fmt.Sprintf("second read after the expiry clean-up misses %v", m2), nil)
	}
}

// c17Service: "nobody but the receiver can remove it" on a whole node. An awaiting contract T (issuer I, receiver R)
// is attacked through every service entry that can reach RemoveAwaitedTransaction: notary Reject signed by the issuer,
// by a third wallet and with a broken signature; gossiped vertices that name T but are refused (under the hash of a
// vertex the node already holds, unsigned, sealed by the issuer itself, with an unknown parent); gossiped copies of T.
// T must stay listed for I and R. At the end R rejects it and it must leave both lists.
func c17Service(w *core.WorkerCtx) {
	r := w.R
	rig, err := svc.New(4, 60, 2048)
	if err != nil {
		r.Inconc("cannot build the node: " + err.Error())
		return
	}
	defer rig.Close()
	ctx := context.Background()
	I, R, X := rig.Users[0], rig.Users[1], rig.Users[2]
	listed := func(t *transaction.Transaction) (bool, bool) {
		in := func(a string) bool {
			l, _ := rig.Cache.ReadTransactions(a)
			for _, x := range l {
				if x.Hash == t.Hash {
					return true
				}
			}
			return false
		}
		return in(I.Addr), in(R.Addr)
	}
	rounds := w.Pick(3, 20)
	for round := 0; round < rounds; round++ {
		// a little history, so that there are tips sealed by the node and by a peer
		ft := ledger.ForgeTrx(I, X.Addr, fmt.Sprintf("history %d", round), nil, spice.Melange{SupplementaryCurrency: uint64(1 + round)}, time.Now().Add(-time.Minute))
		fp, _ := transformers.TrxToProtoTrx(ft)
		rig.Notary.Propose(ctx, fp)
		t := ledger.ForgeTrx(I, R.Addr, fmt.Sprintf("awaiting contract %d", round), []byte("contract"), spice.Melange{SupplementaryCurrency: 5}, time.Now().Add(-time.Minute))
		tp, _ := transformers.TrxToProtoTrx(t)
		if _, err := rig.Notary.Propose(ctx, tp); err != nil {
			r.Inconc("cannot save an awaiting contract: " + err.Error())
			return
		}
		if a, b := listed(&t); !a || !b {
			r.Violate("C17", "service/saved-contract-not-listed", fmt.Sprintf("a proposed contract is listed for issuer=%v receiver=%v", a, b), nil)
			continue
		}
		s, _ := ledger.TakeSnap(rig.Book)
		var tip ledger.H
		var wgt uint64
		for h := range s.Leaves {
			tip, wgt = h, s.Live[h].V.Weight
		}
		tipV := s.Live[tip].V
		type attack struct {
			name string
			run  func()
		}
		gossipVrx := func(v *protobufcompiled.Vertex) {
			rig.Flash.RemoveAddress(string(v.Hash))
			func() {
				defer func() { recover() }()
				rig.Gossip.GossipVrx(ctx, &protobufcompiled.VrxMsgGossip{Vertex: v})
			}()
		}
		var ghost ledger.H
		ghost[0], ghost[3] = 0xCC, byte(round)
		attacks := []attack{
			{"notary.Reject signed by the issuer", func() { rig.Notary.Reject(ctx, svc.Sign(I, t.Hash[:])) }},
			{"notary.Reject signed by a third wallet", func() { rig.Notary.Reject(ctx, svc.Sign(X, t.Hash[:])) }},
			{"notary.Reject naming the receiver with the issuer's signature", func() {
				m := svc.Sign(I, t.Hash[:])
				m.Address = R.Addr
				rig.Notary.Reject(ctx, m)
			}},
			{"notary.Reject by the receiver with a flipped signature bit", func() {
				m := svc.Sign(R, t.Hash[:])
				m.Signature[3] ^= 4
				rig.Notary.Reject(ctx, m)
			}},
			{"gossiped vertex under the hash of genesis carrying T", func() {
				g := rig.Genesis
				pv := gossip.VerifVertexToProtoVertex(&g)
				pv.Transaction = proto.Clone(tp).(*protobufcompiled.Transaction)
				gossipVrx(pv)
			}},
			{"gossiped copy of a held tip with T's hash and receiver swapped in", func() {
				pv := gossip.VerifVertexToProtoVertex(&tipV)
				pv.Transaction.Hash = t.Hash[:]
				pv.Transaction.ReceiverAddress = R.Addr
				gossipVrx(pv)
			}},
			{"gossiped vertex carrying T with a corrupted sealing signature", func() {
				v := ledger.ForgeVertex(rig.PeerAct[0], t, tip, tip, wgt+1, time.Now().Add(-time.Second))
				v.Signature[5] ^= 1
				gossipVrx(gossip.VerifVertexToProtoVertex(&v))
			}},
			{"gossiped vertex carrying T sealed by T's own issuer", func() {
				v := ledger.ForgeVertex(I, t, tip, tip, wgt+1, time.Now().Add(-time.Second))
				gossipVrx(gossip.VerifVertexToProtoVertex(&v))
			}},
			{"gossiped vertex carrying T with T's amount changed", func() {
				v := ledger.ForgeVertex(rig.PeerAct[1], t, tip, tip, wgt+1, time.Now().Add(-time.Second))
				pv := gossip.VerifVertexToProtoVertex(&v)
				pv.Transaction.Spice.SupplementaryCurrency++
				gossipVrx(pv)
			}},
			{"gossiped copy of T itself", func() {
				rig.Flash.RemoveAddress(string(t.Hash[:]))
				rig.Gossip.GossipTrx(ctx, &protobufcompiled.TrxMsgGossip{Trx: proto.Clone(tp).(*protobufcompiled.Transaction)})
			}},
			{"notary.Confirm with the issuer's signature in the receiver's place", func() {
				c := proto.Clone(tp).(*protobufcompiled.Transaction)
				c.ReceiverSignature = c.IssuerSignature
				rig.Notary.Confirm(ctx, c)
			}},
		}
		for _, a := range attacks {
			w.Mark("c17 service: %s", a.name)
			a.run()
			time.Sleep(time.Millisecond)
			r.Eval(1)
			r.Count("c17_service_removal_attempts", 1)
			r.Nontriv("service/" + a.name)
			if li, lr := listed(&t); !li || !lr {
				r.Violate("C17", "removed-by-non-receiver/"+a.name, fmt.Sprintf("after [%s] the awaiting contract is listed for issuer=%v receiver=%v: somebody other than the receiver took it off", a.name, li, lr), nil)
				break
			}
		}
		if li, lr := listed(&t); li && lr {
			// the receiver rejects: off both lists
			if _, err := rig.Notary.Reject(ctx, svc.Sign(R, t.Hash[:])); err != nil {
				r.Violate("C17", "service/receiver-cannot-remove", fmt.Sprintf("the receiver's Reject failed: %v", err), nil)
			} else if li, lr := listed(&t); li || lr {
				r.Violate("C17", "service/removed-from-one-list-only", fmt.Sprintf("after the receiver's Reject the contract is still listed for issuer=%v receiver=%v", li, lr), nil)
			}
			r.Eval(1)
			r.Nontriv("service/receiver-rejects")
		}
	}
}

// c17Oversized: contracts whose encoded form does not fit a cache shard. Whatever the index answers, the answer and
// the listings must agree: a save reported as done is listed for both parties and can be taken out by the receiver; a
// refused save is listed for nobody and leaves the lists of both parties as they were.
func c17Oversized(w *core.WorkerCtx) {
	r := w.R
	h, err := cache.New(800, 512)
	if err != nil {
		r.Inconc("cannot create the cache: " + err.Error())
		return
	}
	defer h.Close()
	I, R := ledger.NewActor("I"), ledger.NewActor("R")
	var small []*transaction.Transaction
	for i := 0; i < 3; i++ {
		t := ledger.ForgeTrx(I, R.Addr, fmt.Sprintf("small %d", i), []byte("contract"), spice.Melange{}, time.Now().Add(-time.Minute))
		if h.SaveAwaitedTransaction(&t) == nil {
			small = append(small, &t)
		}
	}
	listed := func(addr string, hash [32]byte) (bool, int) {
		trxs, err := h.ReadTransactions(addr)
		if err != nil {
			return false, -1
		}
		for _, x := range trxs {
			if x.Hash == hash {
				return true, len(trxs)
			}
		}
		return false, len(trxs)
	}
	for _, size := range []int{300 << 10, 600 << 10, 1 << 20, 4 << 20} {
		data := make([]byte, size)
		for i := range data {
			data[i] = byte(i)
		}
		t := ledger.ForgeTrx(I, R.Addr, fmt.Sprintf("oversized %d", size), data, spice.Melange{}, time.Now().Add(-time.Minute))
		serr := h.SaveAwaitedTransaction(&t)
		li, ni := listed(I.Addr, t.Hash)
		lr, nr := listed(R.Addr, t.Hash)
		r.Eval(1)
		r.Nontriv(fmt.Sprintf("oversized/%dKB/saved=%v/listed=%v", size>>10, serr == nil, li && lr))
		switch {
		case serr == nil && !(li && lr):
			r.Violate("C17", "entries-lost/oversized", fmt.Sprintf("saving a contract of %d KB was reported as done; it is listed for the issuer: %v, for the receiver: %v", size>>10, li, lr), nil)
		case serr != nil && (li || lr):
			r.Violate("C17", "entries-invented/oversized", fmt.Sprintf("saving a contract of %d KB was refused (%v); it is listed for the issuer: %v, for the receiver: %v", size>>10, serr, li, lr), nil)
		}
		if ni != nr || ni < len(small) {
			r.Violate("C17", "entries-lost/next-to-oversized", fmt.Sprintf("after a %d KB contract (save: %v) the issuer lists %d and the receiver %d of the %d small contracts saved before", size>>10, serr, ni, nr, len(small)), nil)
		}
		if serr == nil {
			if _, err := h.RemoveAwaitedTransaction(t.Hash, R.Addr); err != nil {
				r.Violate("C17", "saved-entry-cannot-be-removed/oversized", fmt.Sprintf("a %d KB contract reported as saved cannot be taken out by its receiver: %v", size>>10, err), nil)
			}
		}
	}
	r.Count("c17_oversized_contracts", 4)
}

func c17Worker(w *core.WorkerCtx) {
	if w.Batch == 2 {
		c17Oversized(w)
	}
	if w.Batch == 1 {
		c17Service(w)
	}
	if w.Thorough() && w.Batch == 0 {
		done := make(chan struct{})
		go c17Expiry(w, done)
		defer func() { <-done }()
	}
	rng := core.Rand(w.Seed, "C17", w.Batch)
	h, err := cache.New(800, 512)
	if err != nil {
		w.R.Inconc("cannot create the cache: " + err.Error())
		return
	}
	defer h.Close()
	mkTrx := func(from *ledger.Actor, to string, i int) *transaction.Transaction {
		// stamped a minute ago, ten days ago, a few seconds ahead or a day ahead of this node's clock (the clocks of the
		// clients that sign are not the node's)
		at := time.Now().Add(-time.Minute)
		switch i % 6 {
		case 2:
			at = time.Now().Add(-240 * time.Hour)
		case 4:
			at = time.Now().Add(5 * time.Second)
		case 5:
			at = time.Now().Add(26 * time.Hour)
		}
		t := ledger.ForgeTrx(from, to, fmt.Sprintf("awaiting %d", i), []byte("contract"), spice.Melange{Currency: uint64(i % 3)}, at)
		return &t
	}
	seq := 0
	// sequential histories against the map model
	for hi := 0; hi < w.Pick(300, 3000); hi++ {
		actors := []*ledger.Actor{ledger.NewActor("a"), ledger.NewActor("b"), ledger.NewActor("c")}
		if hi%3 == 0 {
			actors = append(actors, ledger.NewActor("d"))
		}
		var addrs []string
		for _, a := range actors {
			addrs = append(addrs, a.Addr)
		}
		var pool []*transaction.Transaction
		var ops []c17Op
		n := 10 + rng.Intn(30)
		for i := 0; i < n; i++ {
			switch x := rng.Intn(10); {
			case x < 4 || len(pool) == 0:
				from := actors[rng.Intn(len(actors))]
				to := actors[rng.Intn(len(actors))] // issuer = receiver included
				seq++
				t := mkTrx(from, to.Addr, seq)
				pool = append(pool, t)
				ops = append(ops, c17Save(h, 0, t))
			case x < 5:
				ops = append(ops, c17Save(h, 0, pool[rng.Intn(len(pool))])) // again
			case x == 8 && hi%2 == 0:
				// the entry of one transaction expires (hook: exactly what the cache does after the life window)
				t := pool[rng.Intn(len(pool))]
				op := c17Op{Client: 0, Kind: "remove", Trx: ledger.HexFull(t.Hash), Issuer: t.IssuerAddress, Recv: t.ReceiverAddress, Addr: t.ReceiverAddress}
				op.Call = c17Now()
				err := h.VerifExpire(t.Hash)
				op.Ret = c17Now()
				op.Res = "notfound"
				if err == nil {
					op.Res = "ok" // for the model an expiry is a removal
				}
				ops = append(ops, op)
				w.R.Count("c17_expiries_injected", 1)
			case x < 8:
				t := pool[rng.Intn(len(pool))]
				who := t.ReceiverAddress
				switch rng.Intn(4) {
				case 0:
					who = t.IssuerAddress
				case 1:
					who = actors[rng.Intn(len(actors))].Addr
				}
				ops = append(ops, c17Remove(h, 0, t, who))
			default:
				ops = append(ops, c17Read(h, 0, addrs[rng.Intn(len(addrs))]))
			}
			// after every step of a sequential history the listing of one address must equal the model
		}
		c17CheckHistory(w, h, ops, addrs, fmt.Sprintf("sequential history %d of batch %d", hi, w.Batch), false)
		w.R.Count("c17_sequential_histories", 1)
		w.R.Nontriv(fmt.Sprintf("seq/n%d/actors%d", bucketN(n), len(actors)))
		if hi == 0 && w.Batch == 0 {
			o := ops
			if len(o) > 8 {
				o = o[:8]
			}
			w.R.Sample(2, map[string]any{"sequential_history_prefix": o})
		}
	}
	// concurrent histories: k goroutines from a barrier, few addresses, unique transactions. As in a running node, the
	// other memory of the same package (the duplicate-suppression memory of the gossip and notary handlers) is busy
	// with unrelated hashes and addresses meanwhile.
	if flash, err := cache.NewFlash(); err == nil {
		stopNoise := make(chan struct{})
		var noise sync.WaitGroup
		defer func() { close(stopNoise); noise.Wait(); flash.Close() }()
		for g := 0; g < 3; g++ {
			noise.Add(1)
			go func(g int) {
				defer noise.Done()
				nr := rand.New(rand.NewSource(int64(g) + 77))
				hb := make([]byte, 32)
				for i := 0; ; i++ {
					select {
					case <-stopNoise:
						return
					default:
					}
					nr.Read(hb)
					flash.HasHash(hb)
					a := fmt.Sprintf("noise-address-%d-%d", g, i%50)
					flash.HasAddress(a)
					if i%3 == 0 {
						flash.RemoveAddress(a)
					}
					if i%64 == 0 {
						time.Sleep(50 * time.Microsecond)
					}
				}
			}(g)
		}
	}
	for hi := 0; hi < w.Pick(300, 3000); hi++ {
		k := 2 + rng.Intn(7)
		actors := []*ledger.Actor{ledger.NewActor("a"), ledger.NewActor("b")}
		if hi%2 == 0 {
			actors = append(actors, ledger.NewActor("c"))
		}
		var addrs []string
		for _, a := range actors {
			addrs = append(addrs, a.Addr)
		}
		// a few transactions exist before the race
		var pre []*transaction.Transaction
		var ops []c17Op
		for i := 0; i < rng.Intn(4); i++ {
			seq++
			t := mkTrx(actors[rng.Intn(len(actors))], actors[rng.Intn(len(actors))].Addr, seq)
			pre = append(pre, t)
			ops = append(ops, c17Save(h, 100, t))
		}
		// every fourth history: one address holds a long list in which the entries of one or two transactions have
		// expired (dangling references that the next read cleans up); readers of that list and clients that save new
		// transactions for the same address start together
		dangling := hi%4 == 1
		if dangling {
			k = 6 + rng.Intn(3)
			for i := 0; i < 30+rng.Intn(20); i++ {
				seq++
				t := mkTrx(actors[1+rng.Intn(len(actors)-1)], actors[0].Addr, seq)
				pre = append(pre, t)
				ops = append(ops, c17Save(h, 100, t))
			}
			for e := 0; e < 1+rng.Intn(2); e++ {
				t := pre[len(pre)-1-rng.Intn(20)]
				op := c17Op{Client: 100, Kind: "remove", Trx: ledger.HexFull(t.Hash), Issuer: t.IssuerAddress, Recv: t.ReceiverAddress, Addr: t.ReceiverAddress}
				op.Call = c17Now()
				err := h.VerifExpire(t.Hash)
				op.Ret = c17Now()
				op.Res = "notfound"
				if err == nil {
					op.Res = "ok"
				}
				ops = append(ops, op)
				w.R.Count("c17_expiries_injected_before_a_race", 1)
			}
		}
		perG := 3 + rng.Intn(5)
		plans := make([][]func(c int) c17Op, k)
		for g := 0; g < k; g++ {
			grng := rand.New(rand.NewSource(rng.Int63()))
			var mine []*transaction.Transaction
			if dangling {
				if g%2 == 0 {
					a := actors[0].Addr
					plans[g] = append(plans[g], func(c int) c17Op { return c17Read(h, c, a) })
				} else {
					seq++
					t := mkTrx(actors[1+grng.Intn(len(actors)-1)], actors[0].Addr, seq)
					mine = append(mine, t)
					plans[g] = append(plans[g], func(c int) c17Op { time.Sleep(time.Duration(5+10*g) * time.Microsecond); return c17Save(h, c, t) })
				}
			}
			for i := 0; i < perG; i++ {
				switch x := grng.Intn(10); {
				case x < 5:
					seq++
					t := mkTrx(actors[grng.Intn(len(actors))], actors[grng.Intn(len(actors))].Addr, seq)
					mine = append(mine, t)
					plans[g] = append(plans[g], func(c int) c17Op { return c17Save(h, c, t) })
				case x < 8 && (len(mine) > 0 || len(pre) > 0):
					var t *transaction.Transaction
					if len(mine) > 0 && grng.Intn(2) == 0 {
						t = mine[grng.Intn(len(mine))]
					} else if len(pre) > 0 {
						t = pre[grng.Intn(len(pre))]
					} else {
						t = mine[0]
					}
					who := t.ReceiverAddress
					if grng.Intn(5) == 0 {
						who = t.IssuerAddress
					}
					plans[g] = append(plans[g], func(c int) c17Op { return c17Remove(h, c, t, who) })
				default:
					a := addrs[grng.Intn(len(addrs))]
					plans[g] = append(plans[g], func(c int) c17Op { return c17Read(h, c, a) })
				}
			}
		}
		var mu sync.Mutex
		var wg sync.WaitGroup
		start := make(chan struct{})
		for g := 0; g < k; g++ {
			wg.Add(1)
			go func(g int) {
				defer wg.Done()
				<-start
				for _, f := range plans[g] {
					op := f(g)
					mu.Lock()
					ops = append(ops, op)
					mu.Unlock()
				}
			}(g)
		}
		close(start)
		wg.Wait()
		c17CheckHistory(w, h, ops, addrs, fmt.Sprintf("concurrent history %d of batch %d: %d goroutines x %d operations on %d addresses", hi, w.Batch, k, perG, len(addrs)), true)
		w.R.Count("c17_concurrent_histories", 1)
		w.R.Count("c17_concurrent_operations", len(ops))
		w.R.Nontriv(fmt.Sprintf("conc/k%d/per%d/addrs%d", k, perG, len(addrs)))
		if hi == 0 && w.Batch == 0 {
			o := ops
			if len(o) > 10 {
				o = o[:10]
			}
			w.R.Sample(3, map[string]any{"concurrent_history": fmt.Sprintf("%d goroutines", k), "operations_prefix": o})
		}
	}
}

func init() {
	core.Register(&core.Check{
		Spec: core.Spec{
			Prop:        "C17",
			Rule:        "Histories of save / remove (by receiver, issuer, strangers) / read calls on the real Hippocampus over 2-4 addresses (issuer = receiver included) with unique transactions, recorded at the call boundary with a logical clock. Sequential histories (10-40 operations) and concurrent ones (2-8 goroutines released from a barrier, 3-7 operations each, a few transactions saved beforehand). Each history is checked (a) at quiescence: every address lists exactly the successfully saved and not removed transactions that name it; (b) with porcupine, partitioned per address list (set model: add/del/read, an operation touching two addresses contributes to both partitions) and per transaction key (register: saved/removed, exists, not found, unauthorized); a checker timeout is inconclusive. Thorough tier only: one scenario outwaits the cache's fixed 5 minute life window (dangling reference of an expired transaction followed by live entries on the same list). Non-trivial = every history; distinct by (kind, goroutines, operations, addresses). One batch attacks an awaiting contract on a whole node (notary, gossip, real ledger and caches): notary Reject signed by the issuer, by a third wallet, with the issuer's signature under the receiver's address, with a flipped signature bit; gossiped vertices that name the contract but are refused (under the hash of genesis, as a copy of a held tip, with a corrupted seal, sealed by the issuer itself, with a changed amount); gossiped copies of the contract; Confirm with the issuer's signature in the receiver's place. The contract must stay listed for issuer and receiver; the receiver's Reject then takes it off both lists. During the concurrent histories three goroutines keep the Flashback memory of the same package busy with unrelated hashes and addresses. Transactions are stamped a minute ago, ten days ago, five seconds ahead and a day ahead of the node's clock. Oversized contracts (300 KB to 4 MB, beyond a cache shard): a save reported as done is listed and removable, a refused one is listed for nobody. Concurrent histories that start from a long list with expired entries (dangling references), readers and savers of the same address together.",
			Assumptions: []string{"no entry comes near the 5 minute life window or the memory bound of the cache (histories are short, the cache is created with a large hard limit)", "porcupine v1.3.0 is the trusted linearizability checker"},
			MinEvals:    60, MinNontriv: 10,
		},
		Plan: func(tier string) core.Plan {
			if tier == "thorough" {
				return core.Plan{Batches: 14, Parallel: 14, Timeout: 40 * time.Minute}
			}
			return core.Plan{Batches: 4, Parallel: 4, Timeout: 8 * time.Minute}
		},
		Worker: c17Worker,
	})
}
