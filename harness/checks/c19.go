package checks

import (
	"bytes"
	"compress/gzip"
	"compress/zlib"
	"context"
	"encoding/binary"
	"fmt"
	"github.com/bartossh/Computantis/src/cache"
	"math"
	"math/rand"
	"strings"
	"time"
	"verifharness/svc"

	"github.com/bartossh/Computantis/src/accountant"
	"github.com/bartossh/Computantis/src/gossip"
	"github.com/bartossh/Computantis/src/protobufcompiled"
	"github.com/bartossh/Computantis/src/spice"
	"github.com/bartossh/Computantis/src/transaction"
	"github.com/bartossh/Computantis/src/transformers"
	"github.com/bartossh/Computantis/src/wallet"
	"google.golang.org/protobuf/proto"

	"verifharness/core"
	"verifharness/ledger"
)

// C19 — vertices and transactions survive every transcoding unchanged.

func trxDiff(a, b *transaction.Transaction) []string {
	var d []string
	if a.CreatedAt.UnixNano() != b.CreatedAt.UnixNano() {
		d = append(d, fmt.Sprintf("trx.created_at(%d->%d)", a.CreatedAt.UnixNano(), b.CreatedAt.UnixNano()))
	}
	if a.IssuerAddress != b.IssuerAddress {
		d = append(d, "trx.issuer_address")
	}
	if a.ReceiverAddress != b.ReceiverAddress {
		d = append(d, "trx.receiver_address")
	}
	if a.Subject != b.Subject {
		d = append(d, "trx.subject")
	}
	if !bytes.Equal(a.Data, b.Data) {
		d = append(d, "trx.data")
	}
	if !bytes.Equal(a.IssuerSignature, b.IssuerSignature) {
		d = append(d, "trx.issuer_signature")
	}
	if !bytes.Equal(a.ReceiverSignature, b.ReceiverSignature) {
		d = append(d, "trx.receiver_signature")
	}
	if a.Hash != b.Hash {
		d = append(d, "trx.hash")
	}
	if a.Spice.Currency != b.Spice.Currency {
		d = append(d, fmt.Sprintf("trx.currency(%d->%d)", a.Spice.Currency, b.Spice.Currency))
	}
	if a.Spice.SupplementaryCurrency != b.Spice.SupplementaryCurrency {
		d = append(d, fmt.Sprintf("trx.supplementary(%d->%d)", a.Spice.SupplementaryCurrency, b.Spice.SupplementaryCurrency))
	}
	return d
}

func vrxDiff(a, b *accountant.Vertex) []string {
	var d []string
	if a.SignerPublicAddress != b.SignerPublicAddress {
		d = append(d, "vertex.signer_address")
	}
	if a.CreatedAt.UnixNano() != b.CreatedAt.UnixNano() {
		d = append(d, fmt.Sprintf("vertex.created_at(%d->%d)", a.CreatedAt.UnixNano(), b.CreatedAt.UnixNano()))
	}
	if !bytes.Equal(a.Signature, b.Signature) {
		d = append(d, "vertex.signature")
	}
	if a.Hash != b.Hash || a.LeftParentHash != b.LeftParentHash || a.RightParentHash != b.RightParentHash {
		d = append(d, "vertex.hashes")
	}
	if a.Weight != b.Weight {
		d = append(d, fmt.Sprintf("vertex.weight(%d->%d)", a.Weight, b.Weight))
	}
	return append(d, trxDiff(&a.Transaction, &b.Transaction)...)
}

type c19Path struct {
	name string
	// run returns the transcoded vertex; rejected = an explicit error of a converter (not a violation)
	run func(v *accountant.Vertex) (out accountant.Vertex, rejected string)
}

func guard(f func() (accountant.Vertex, string)) (out accountant.Vertex, rej string, panicked any) {
	defer func() {
		if p := recover(); p != nil {
			panicked = p
		}
	}()
	out, rej = f()
	return
}

var c19Paths = []c19Path{
	{"vertex->protobuf struct->vertex", func(v *accountant.Vertex) (accountant.Vertex, string) {
		p := gossip.VerifVertexToProtoVertex(v)
		return gossip.VerifProtoVertexToVertex(p), ""
	}},
	{"vertex->protobuf wire->vertex", func(v *accountant.Vertex) (accountant.Vertex, string) {
		p := gossip.VerifVertexToProtoVertex(v)
		b, err := proto.Marshal(p)
		if err != nil {
			return accountant.Vertex{}, "proto.Marshal: " + err.Error()
		}
		var q protobufcompiled.Vertex
		if err := proto.Unmarshal(b, &q); err != nil {
			return accountant.Vertex{}, "proto.Unmarshal: " + err.Error()
		}
		if q.Transaction == nil || q.Transaction.Spice == nil {
			// proto3 drops an all-default sub-message from the wire; the receiving side sees an absent sub-message
			if q.Transaction == nil {
				q.Transaction = &protobufcompiled.Transaction{}
			}
			if q.Transaction.Spice == nil {
				q.Transaction.Spice = &protobufcompiled.Spice{}
			}
		}
		if len(q.Hash) != 32 || len(q.LeftParentHash) != 32 || len(q.RightParentHash) != 32 || len(q.Transaction.Hash) != 32 {
			return accountant.Vertex{}, "hash of wrong length on the wire"
		}
		return gossip.VerifProtoVertexToVertex(&q), ""
	}},
	{"transaction->protobuf(transformers)->wire->transaction", func(v *accountant.Vertex) (accountant.Vertex, string) {
		p, err := transformers.TrxToProtoTrx(v.Transaction)
		if err != nil {
			return accountant.Vertex{}, "TrxToProtoTrx: " + err.Error()
		}
		b, err := proto.Marshal(p)
		if err != nil {
			return accountant.Vertex{}, "proto.Marshal: " + err.Error()
		}
		var q protobufcompiled.Transaction
		if err := proto.Unmarshal(b, &q); err != nil {
			return accountant.Vertex{}, "proto.Unmarshal: " + err.Error()
		}
		if q.Spice == nil {
			q.Spice = &protobufcompiled.Spice{}
		}
		if len(q.Hash) != 32 {
			return accountant.Vertex{}, "hash of wrong length on the wire"
		}
		t, err := transformers.ProtoTrxToTrx(&q)
		if err != nil {
			return accountant.Vertex{}, "ProtoTrxToTrx: " + err.Error()
		}
		out := *v
		out.Transaction = t
		return out, ""
	}},
	{"vertex->msgpack(storage)->vertex", func(v *accountant.Vertex) (accountant.Vertex, string) {
		b, err := accountant.VerifEncodeVertex(v)
		if err != nil {
			return accountant.Vertex{}, "encode: " + err.Error()
		}
		out, err := accountant.VerifDecodeVertex(b)
		if err != nil {
			return accountant.Vertex{}, "decode: " + err.Error()
		}
		return out, ""
	}},
	{"transaction->msgpack(cache)->transaction", func(v *accountant.Vertex) (accountant.Vertex, string) {
		t := v.Transaction
		b, err := t.Encode()
		if err != nil {
			return accountant.Vertex{}, "encode: " + err.Error()
		}
		t2, err := transaction.Decode(b)
		if err != nil {
			return accountant.Vertex{}, "decode: " + err.Error()
		}
		out := *v
		out.Transaction = t2
		return out, ""
	}},
	{"melange->msgpack->melange", func(v *accountant.Vertex) (accountant.Vertex, string) {
		m := v.Transaction.Spice
		b, err := m.Encode()
		if err != nil {
			return accountant.Vertex{}, "encode: " + err.Error()
		}
		m2, err := spice.Decode(b)
		if err != nil {
			return accountant.Vertex{}, "decode: " + err.Error()
		}
		out := *v
		out.Transaction.Spice = m2
		return out, ""
	}},
	{"balance->msgpack->balance", func(v *accountant.Vertex) (accountant.Vertex, string) {
		bal := accountant.Balance{AccountedAt: v.CreatedAt, WalletPublicAddress: v.Transaction.IssuerAddress, Spice: v.Transaction.Spice}
		b, err := accountant.VerifEncodeBalance(&bal)
		if err != nil {
			return accountant.Vertex{}, "encode: " + err.Error()
		}
		b2, err := accountant.VerifDecodeBalance(b)
		if err != nil {
			return accountant.Vertex{}, "decode: " + err.Error()
		}
		out := *v
		out.CreatedAt = b2.AccountedAt
		out.Transaction.IssuerAddress = b2.WalletPublicAddress
		out.Transaction.Spice = b2.Spice
		return out, ""
	}},
}

var c19Lens = []int{0, 1, 31, 32, 33, 255, 256, 65535, 65536}
var c19Ints = []uint64{0, 1, 1<<7 - 1, 1 << 7, 1<<7 + 1, 1<<8 - 1, 1 << 8, 1<<8 + 1, 1<<16 - 1, 1 << 16, 1<<16 + 1, 1<<32 - 1, 1 << 32, 1<<32 + 1, 1<<63 - 1, 1 << 63, 1<<63 + 1, math.MaxUint64}

// timestamps as (seconds, nanoseconds) or the zero time
func c19Times() []time.Time {
	return []time.Time{
		time.Unix(0, 0), time.Unix(0, 1), time.Unix(0, -1), time.Unix(1<<32-1, 999999999), time.Unix(1<<32, 0), time.Unix(1<<34-1, 999999999), time.Unix(1<<34, 0),
		time.Unix(-1, 0), time.Unix(-62135596800, 0), time.Unix(0, math.MaxInt64), time.Unix(0, math.MinInt64), time.Unix(0, math.MaxInt64-1), time.Unix(0, math.MinInt64+1),
		time.Unix(1700000000, 123456789), time.Now(), {},
	}
}

func c19Bytes(rng *rand.Rand, n int, class int) []byte {
	b := make([]byte, n)
	switch class {
	case 0: // ascii
		for i := range b {
			b[i] = byte('a' + i%26)
		}
	case 1: // not UTF-8
		for i := range b {
			b[i] = byte(0xff - i%3)
		}
	case 2: // NUL bytes
	default:
		rng.Read(b)
	}
	return b
}

type c19Setter struct {
	name   string
	signed bool // field is covered by a signature the harness can redo (subject, data, amounts, timestamps, weight, parents)
	values func(rng *rand.Rand) []func(v *accountant.Vertex) string
}

func bytesSetter(name string, signed bool, set func(v *accountant.Vertex, b []byte)) c19Setter {
	return c19Setter{name, signed, func(rng *rand.Rand) []func(v *accountant.Vertex) string {
		var out []func(v *accountant.Vertex) string
		for _, n := range c19Lens {
			for cl := 0; cl < 4; cl++ {
				n, cl := n, cl
				out = append(out, func(v *accountant.Vertex) string {
					set(v, c19Bytes(rng, n, cl))
					return fmt.Sprintf("%s=len%d/class%d", name, n, cl)
				})
			}
		}
		out = append(out, func(v *accountant.Vertex) string { set(v, nil); return name + "=nil" })
		// payloads that are themselves in a format some layer might recognise: compressed streams (an attached .gz),
		// text encodings, a serialised object of the code's own kind
		for li, lk := range c19Lookalikes() {
			li, lk := li, lk
			out = append(out, func(v *accountant.Vertex) string {
				set(v, append([]byte{}, lk...))
				return fmt.Sprintf("%s=lookalike%d", name, li)
			})
		}
		return out
	}}
}

// c19Lookalikes: byte strings that are valid instances of formats a storage or transport layer might detect in-band.
func c19Lookalikes() [][]byte {
	var out [][]byte
	for _, n := range []int{40, 3000} {
		plain := bytes.Repeat([]byte("attachment "), n/11+1)[:n]
		var gz bytes.Buffer
		zw := gzip.NewWriter(&gz)
		zw.Write(plain)
		zw.Close()
		out = append(out, gz.Bytes())
		var zl bytes.Buffer
		lw := zlib.NewWriter(&zl)
		lw.Write(plain)
		lw.Close()
		out = append(out, zl.Bytes())
	}
	out = append(out, []byte(`{"subject":"json inside data","spice":{"currency":1}}`))
	out = append(out, []byte("LS0tLS1CRUdJTiBQVUJMSUMgS0VZLS0tLS0="))
	out = append(out, []byte("-----BEGIN PUBLIC KEY-----\nMCowBQYDK2VwAyEA\n-----END PUBLIC KEY-----\n"))
	// msgpack: a map header, a bin8 header, an ext type
	out = append(out, []byte{0x82, 0xa1, 'a', 0x01, 0xa1, 'b', 0xc4, 0x02, 0x00, 0x01}, []byte{0xc7, 0x03, 0x05, 1, 2, 3}, []byte{0xc0})
	return out
}

func intSetter(name string, signed bool, set func(v *accountant.Vertex, x uint64)) c19Setter {
	return c19Setter{name, signed, func(rng *rand.Rand) []func(v *accountant.Vertex) string {
		var out []func(v *accountant.Vertex) string
		for _, x := range append(append([]uint64{}, c19Ints...), ledger.E18-1, ledger.E18, ledger.E18+1) {
			x := x
			out = append(out, func(v *accountant.Vertex) string { set(v, x); return fmt.Sprintf("%s=%d", name, x) })
		}
		return out
	}}
}

func timeSetter(name string, set func(v *accountant.Vertex, t time.Time)) c19Setter {
	return c19Setter{name, true, func(rng *rand.Rand) []func(v *accountant.Vertex) string {
		var out []func(v *accountant.Vertex) string
		for _, t := range c19Times() {
			t := t
			out = append(out, func(v *accountant.Vertex) string {
				set(v, t)
				return fmt.Sprintf("%s=%ds+%dns(zero=%v)", name, t.Unix(), t.Nanosecond(), t.IsZero())
			})
		}
		return out
	}}
}

func hashSetter(name string, set func(v *accountant.Vertex, h ledger.H)) c19Setter {
	return c19Setter{name, name != "vertex.hash" && name != "trx.hash", func(rng *rand.Rand) []func(v *accountant.Vertex) string {
		var out []func(v *accountant.Vertex) string
		for k := 0; k < 4; k++ {
			k := k
			out = append(out, func(v *accountant.Vertex) string {
				var h ledger.H
				switch k {
				case 1:
					for i := range h {
						h[i] = 0xff
					}
				case 2:
					h[0], h[31] = 0x80, 0x01
				case 3:
					rng.Read(h[:])
				}
				set(v, h)
				return fmt.Sprintf("%s=pattern%d", name, k)
			})
		}
		return out
	}}
}

var c19Setters = []c19Setter{
	bytesSetter("vertex.signer_address", false, func(v *accountant.Vertex, b []byte) { v.SignerPublicAddress = string(b) }),
	bytesSetter("vertex.signature", false, func(v *accountant.Vertex, b []byte) { v.Signature = b }),
	bytesSetter("trx.issuer_address", false, func(v *accountant.Vertex, b []byte) { v.Transaction.IssuerAddress = string(b) }),
	bytesSetter("trx.receiver_address", true, func(v *accountant.Vertex, b []byte) { v.Transaction.ReceiverAddress = string(b) }),
	bytesSetter("trx.subject", true, func(v *accountant.Vertex, b []byte) { v.Transaction.Subject = string(b) }),
	bytesSetter("trx.data", true, func(v *accountant.Vertex, b []byte) { v.Transaction.Data = b }),
	bytesSetter("trx.issuer_signature", false, func(v *accountant.Vertex, b []byte) { v.Transaction.IssuerSignature = b }),
	bytesSetter("trx.receiver_signature", false, func(v *accountant.Vertex, b []byte) { v.Transaction.ReceiverSignature = b }),
	intSetter("vertex.weight", true, func(v *accountant.Vertex, x uint64) { v.Weight = x }),
	intSetter("trx.currency", true, func(v *accountant.Vertex, x uint64) { v.Transaction.Spice.Currency = x }),
	intSetter("trx.supplementary", true, func(v *accountant.Vertex, x uint64) { v.Transaction.Spice.SupplementaryCurrency = x }),
	timeSetter("vertex.created_at", func(v *accountant.Vertex, t time.Time) { v.CreatedAt = t }),
	timeSetter("trx.created_at", func(v *accountant.Vertex, t time.Time) { v.Transaction.CreatedAt = t }),
	hashSetter("vertex.hash", func(v *accountant.Vertex, h ledger.H) { v.Hash = h }),
	hashSetter("vertex.left_parent", func(v *accountant.Vertex, h ledger.H) { v.LeftParentHash = h }),
	hashSetter("vertex.right_parent", func(v *accountant.Vertex, h ledger.H) { v.RightParentHash = h }),
	hashSetter("trx.hash", func(v *accountant.Vertex, h ledger.H) { v.Transaction.Hash = h }),
}

type c19Env struct {
	w      *core.WorkerCtx
	issuer *ledger.Actor
	recv   *ledger.Actor
	sealer *ledger.Actor
	ver    wallet.Helper
	// the real vertices storage of a ledger (written through the verif hook, read through the public readers)
	book   *accountant.AccountingBook
	gbook  *accountant.AccountingBook
	ggen   ledger.H
	gseen  int
	stored int
	held   []c19Held
	every  int
	seq    int
}

// c19Held: what a storage read returned, next to a private copy taken at that moment.
type c19Held struct {
	label string
	got   *accountant.Vertex
	copy  accountant.Vertex
	trx   *transaction.Transaction
	tcopy transaction.Transaction
}

// storagePath stores the object under a unique key in the real vertices storage and reads it back through
// ReadVertex and ReadTransactionByHash (their storage fall back). Values returned earlier are kept and compared with
// the copy taken when they were returned: a later read must not change them.
func (e *c19Env) storagePath(v *accountant.Vertex, label, nontrivKey string) {
	r := e.w.R
	e.stored++
	u := *ledger.CloneVertex(v)
	var uh, ut ledger.H
	binary.LittleEndian.PutUint64(uh[:], uint64(e.stored))
	uh[31] = 0xA5
	binary.LittleEndian.PutUint64(ut[:], uint64(e.stored))
	ut[31] = 0x5A
	u.Hash, u.Transaction.Hash = uh, ut
	verBefore := e.verifies(&u)
	const name = "vertex->vertices storage->ReadVertex/ReadTransactionByHash"
	var out accountant.Vertex
	var trx transaction.Transaction
	var rej string
	_, _, panicked := guard(func() (accountant.Vertex, string) {
		if err := e.book.VerifStoreVertex(&u); err != nil {
			rej = "store: " + err.Error()
			return accountant.Vertex{}, rej
		}
		var err error
		if out, err = e.book.ReadVertex(context.Background(), uh); err != nil {
			rej = "ReadVertex: " + err.Error()
			return accountant.Vertex{}, rej
		}
		if trx, err = e.book.ReadTransactionByHash(context.Background(), ut); err != nil {
			rej = "ReadTransactionByHash: " + err.Error()
		}
		return out, rej
	})
	r.Eval(1)
	r.Count("c19_stored_objects", 1)
	switch {
	case panicked != nil:
		r.Violate("C19", "panic/"+name, fmt.Sprintf("%s panicked on object [%s]: %v", name, label, panicked), nil)
		return
	case rej != "":
		if strings.HasPrefix(rej, "store: ") {
			r.Count("c19_rejected_by_converter", 1)
			r.Nontriv("rejected/" + name + "/" + nontrivKey)
			return
		}
		r.Violate("C19", "stored-object-not-readable/"+name, fmt.Sprintf("object [%s] was stored but cannot be read back: %s", label, rej), nil)
		return
	}
	if d := vrxDiff(&u, &out); len(d) > 0 {
		r.Violate("C19", "silently-changed/"+name+"/"+fieldOnly(d[0]), fmt.Sprintf("%s changed %v of object [%s]", name, d, label), nil)
	} else if d := trxDiff(&u.Transaction, &trx); len(d) > 0 {
		r.Violate("C19", "silently-changed/"+name+"/"+fieldOnly(d[0]), fmt.Sprintf("ReadTransactionByHash returned a transaction that differs in %v for object [%s]", d, label), nil)
	} else if verBefore != e.verifies(&out) {
		r.Violate("C19", "verify-outcome-changed/"+name, fmt.Sprintf("object [%s] verified=%v before and %v after %s", label, verBefore, !verBefore, name), nil)
	} else {
		// the code's own verification of the vertex and of the transaction it handed out, then the fields once more
		uc := *ledger.CloneVertex(&u)
		want, _ := guardBool(func() bool { return e.realVerify(&uc) })
		tv := accountant.Vertex{Transaction: trx}
		gotV, p1 := guardBool(func() bool { return e.realVerify(&out) })
		gotT, p2 := guardBool(func() bool { return e.realVerify(&tv) })
		switch {
		case p1 != nil || p2 != nil:
			r.Violate("C19", "panic/verify-after/"+name, fmt.Sprintf("verifying object [%s] after %s panicked: %v %v", label, name, p1, p2), nil)
		case gotV != want || gotT != want:
			r.Violate("C19", "verify-outcome-changed/own-verification/"+name, fmt.Sprintf("the code's own verification of object [%s] answers %v for the original, %v for the vertex and %v for the transaction read back", label, want, gotV, gotT), nil)
		default:
			if d := vrxDiff(&u, &out); len(d) > 0 {
				r.Violate("C19", "changed-by-verification/"+name+"/"+fieldOnly(d[0]), fmt.Sprintf("object [%s] was read back intact, but verifying it changed %v", label, d), nil)
			} else if d := trxDiff(&u.Transaction, &tv.Transaction); len(d) > 0 {
				r.Violate("C19", "changed-by-verification/"+name+"/"+fieldOnly(d[0]), fmt.Sprintf("the transaction of object [%s] was read back intact, but verifying it changed %v", label, d), nil)
			}
		}
		trx = tv.Transaction
	}
	r.Nontriv(name + "/" + nontrivKey)
	// values handed out earlier stay what they were
	for i := range e.held {
		h := &e.held[i]
		if d := vrxDiff(&h.copy, h.got); len(d) > 0 {
			r.Violate("C19", "returned-value-changed-by-a-later-read/"+fieldOnly(d[0]), fmt.Sprintf("the vertex returned by ReadVertex for object [%s] changed in %v after reading object [%s]", h.label, d, label), nil)
			h.copy = *ledger.CloneVertex(h.got)
		}
		if d := trxDiff(&h.tcopy, h.trx); len(d) > 0 {
			r.Violate("C19", "returned-value-changed-by-a-later-read/"+fieldOnly(d[0]), fmt.Sprintf("the transaction returned by ReadTransactionByHash for object [%s] changed in %v after reading object [%s]", h.label, d, label), nil)
			h.tcopy = ledger.CloneVertex(&accountant.Vertex{Transaction: *h.trx}).Transaction
		}
	}
	hd := c19Held{label: label, got: &out, copy: *ledger.CloneVertex(&out), trx: &trx, tcopy: ledger.CloneVertex(&accountant.Vertex{Transaction: trx}).Transaction}
	if len(e.held) < 48 {
		e.held = append(e.held, hd)
	} else {
		e.held[e.stored%48] = hd
	}
	r.Count("c19_held_values_rechecked", len(e.held))
}

func (e *c19Env) base() accountant.Vertex {
	t := ledger.ForgeTrx(e.issuer, e.recv.Addr, "subject", []byte("data"), spice.Melange{Currency: 3, SupplementaryCurrency: 14}, time.Unix(1700000000, 5))
	ledger.CounterSign(&t, e.recv)
	var l, r ledger.H
	l[0], r[0] = 1, 2
	return ledger.ForgeVertex(e.sealer, t, l, r, 77, time.Unix(1700000001, 6))
}

// resign redoes hash and signatures over the current field values with the keys the harness owns.
func (e *c19Env) resign(v *accountant.Vertex) {
	t := &v.Transaction
	t.IssuerAddress = e.issuer.Addr
	t.Hash, t.IssuerSignature = e.issuer.W.Sign(ledger.TrxMessage(t))
	if t.ReceiverAddress == e.recv.Addr {
		_, t.ReceiverSignature = e.recv.W.Sign(ledger.TrxMessage(t))
	} else {
		t.ReceiverSignature = nil
	}
	v.SignerPublicAddress = e.sealer.Addr
	v.Hash, v.Signature = e.sealer.W.Sign(ledger.VertexMessage(v))
}

// realVerify runs the transaction verification of the code under test on the object.
func (e *c19Env) realVerify(v *accountant.Vertex) bool {
	if len(v.Transaction.ReceiverSignature) != 0 {
		return v.Transaction.VerifyIssuerReceiver(e.ver) == nil
	}
	return v.Transaction.VerifyIssuer(e.ver) == nil
}

func guardBool(f func() bool) (res bool, panicked any) {
	defer func() {
		if p := recover(); p != nil {
			panicked = p
		}
	}()
	return f(), nil
}

func (e *c19Env) verifies(v *accountant.Vertex) bool {
	ok, _ := ledger.SelfAuthentic(v, nil)
	return ok
}

// check runs every path on the vertex.
func (e *c19Env) check(v *accountant.Vertex, label string, nontrivKey string) {
	r := e.w.R
	verBefore := e.verifies(v)
	orig := *ledger.CloneVertex(v)
	realBefore, _ := guardBool(func() bool { return e.realVerify(&orig) })
	for _, p := range c19Paths {
		r.Eval(1)
		out, rej, panicked := guard(func() (accountant.Vertex, string) { return p.run(v) })
		switch {
		case panicked != nil:
			r.Violate("C19", "panic/"+p.name, fmt.Sprintf("%s panicked on object [%s]: %v", p.name, label, panicked), nil)
		case rej != "":
			r.Count("c19_rejected_by_converter", 1)
			r.Nontriv("rejected/" + p.name + "/" + nontrivKey)
		default:
			d := vrxDiff(v, &out)
			if len(d) > 0 {
				r.Violate("C19", "silently-changed/"+p.name+"/"+fieldOnly(d[0]), fmt.Sprintf("%s changed %v of object [%s]", p.name, d, label), nil)
			} else if verBefore != e.verifies(&out) {
				r.Violate("C19", "verify-outcome-changed/"+p.name, fmt.Sprintf("object [%s] verified=%v before and %v after %s", label, verBefore, !verBefore, p.name), nil)
			} else {
				// the code's own verification of the transcoded object (it renders the signed message from the fields it
				// was handed) must agree with its verification of the original, and must leave the object as it was
				after, pv := guardBool(func() bool { return e.realVerify(&out) })
				if pv != nil {
					r.Violate("C19", "panic/verify-after/"+p.name, fmt.Sprintf("verifying object [%s] after %s panicked: %v", label, p.name, pv), nil)
				} else if after != realBefore {
					r.Violate("C19", "verify-outcome-changed/own-verification/"+p.name, fmt.Sprintf("the code's own verification of object [%s] answers %v for the original and %v after %s", label, realBefore, after, p.name), nil)
				} else if d2 := vrxDiff(v, &out); len(d2) > 0 {
					r.Violate("C19", "changed-by-verification/"+p.name+"/"+fieldOnly(d2[0]), fmt.Sprintf("object [%s] came back intact from %s, but verifying it changed %v", label, p.name, d2), nil)
				}
			}
			r.Nontriv(p.name + "/" + nontrivKey)
		}
	}
	if e.book != nil {
		e.seq++
		if e.every <= 1 || e.seq%e.every == 0 {
			e.storagePath(v, label, nontrivKey)
		}
	}
	if e.gbook != nil && (e.every <= 1 || e.seq%e.every == 0) {
		e.graphPath(v, label, nontrivKey)
	}
}

// graphPath: the object, hung under the genesis vertex of a real ledger and signed anew (the harness owns the keys), is
// gossiped to that ledger; when the ledger admits it, it is read back from the live graph through ReadVertex and
// ReadTransactionByHash and must be, field by field, the object that was admitted, and still verify.
func (e *c19Env) graphPath(v *accountant.Vertex, label, nontrivKey string) {
	r := e.w.R
	c := *ledger.CloneVertex(v)
	c.LeftParentHash, c.RightParentHash = e.ggen, e.ggen
	if c.Weight == 0 || c.Weight > 1000 {
		c.Weight = 2
	}
	// unique transaction and vertex per object: the subject carries a counter in front of whatever it holds
	e.gseen++
	c.Transaction.Subject = fmt.Sprintf("%d|", e.gseen) + c.Transaction.Subject
	e.resign(&c)
	if !e.verifies(&c) {
		return
	}
	in := *ledger.CloneVertex(&c)
	var aerr error
	_, pan := guardBool(func() bool { aerr = e.gbook.AddLeaf(context.Background(), &in); return true })
	if pan != nil {
		r.Violate("C19", "panic/graph-admission", fmt.Sprintf("AddLeaf panicked on object [%s]: %v", label, pan), nil)
		return
	}
	r.Eval(1)
	if aerr != nil {
		r.Count("c19_graph_objects_refused_by_the_ledger", 1)
		return
	}
	r.Count("c19_graph_objects", 1)
	name := "vertex->live graph->ReadVertex"
	got, err := e.gbook.ReadVertex(context.Background(), c.Hash)
	if err != nil {
		r.Violate("C19", "stored-object-not-readable/"+name, fmt.Sprintf("object [%s] was admitted to the live graph and cannot be read back: %v", label, err), nil)
		return
	}
	if d := vrxDiff(&c, &got); len(d) > 0 {
		r.Violate("C19", "silently-changed/"+name+"/"+fieldOnly(d[0]), fmt.Sprintf("%s changed %v of object [%s]", name, d, label), nil)
	} else if !e.verifies(&got) {
		r.Violate("C19", "verify-outcome-changed/"+name, fmt.Sprintf("object [%s] verified when it was admitted and does not after %s", label, name), nil)
	}
	trx, err := e.gbook.ReadTransactionByHash(context.Background(), c.Transaction.Hash)
	if err != nil {
		r.Violate("C19", "stored-object-not-readable/transaction->live graph->ReadTransactionByHash", fmt.Sprintf("the transaction of object [%s] was admitted and cannot be read back: %v", label, err), nil)
	} else if d := trxDiff(&c.Transaction, &trx); len(d) > 0 {
		r.Violate("C19", "silently-changed/transaction->live graph->ReadTransactionByHash/"+fieldOnly(d[0]), fmt.Sprintf("ReadTransactionByHash changed %v of object [%s]", d, label), nil)
	}
	r.Nontriv("live-graph/" + nontrivKey)
}

func fieldOnly(s string) string {
	for i, c := range s {
		if c == '(' {
			return s[:i]
		}
	}
	return s
}

// c19Lists: transactions that leave a node in a list answer (notary Waiting: from the awaiting cache, msgpack ->
// protobuf; TransactionsInDAG: from the ledger -> protobuf), sent over the wire and converted back by the client side
// converter, are the transactions that were handed in: every signed field identical, issuer (and receiver) signature
// still verifying. Lists of 1..6 entries.
func c19Lists(w *core.WorkerCtx) {
	r := w.R
	rng := core.Rand(w.Seed, "C19lists", w.Batch)
	ctx := context.Background()
	for _, n := range []int{1, 2, 3, 6} {
		rig, err := svc.New(3, 60, 4096)
		if err != nil {
			r.Inconc("cannot build the node: " + err.Error())
			return
		}
		I, R := rig.Users[0], rig.Users[1]
		orig := map[string]transaction.Transaction{}
		for i := 0; i < n; i++ {
			data := c19Bytes(rng, []int{1, 31, 32, 33, 255, 256, 1000}[rng.Intn(7)], 1+rng.Intn(3))
			subj := fmt.Sprintf("list %d/%d %s", i, n, strings.Repeat("s", []int{0, 1, 31, 32, 33, 200}[rng.Intn(6)]))
			t := ledger.ForgeTrx(I, R.Addr, subj, data, spice.Melange{Currency: uint64(i), SupplementaryCurrency: uint64(rng.Intn(1000))}, time.Now().Add(-time.Minute).Add(time.Duration(i)*time.Millisecond))
			p, err := transformers.TrxToProtoTrx(t)
			if err != nil {
				continue
			}
			if _, err := rig.Notary.Propose(ctx, p); err != nil {
				r.Note("c19 lists: proposal refused: " + err.Error())
				continue
			}
			orig[subj] = t
		}
		compare := func(path string, arr []*protobufcompiled.Transaction, countersigned bool) {
			// over the wire and back through the client side converter
			b, err := proto.Marshal(&protobufcompiled.Transactions{Array: arr, Len: uint64(len(arr))})
			if err != nil {
				r.Count("c19_rejected_by_converter", 1)
				return
			}
			var back protobufcompiled.Transactions
			if err := proto.Unmarshal(b, &back); err != nil {
				r.Violate("C19", "list-answer-does-not-decode/"+path, err.Error(), nil)
				return
			}
			seen := 0
			for _, pt := range back.Array {
				r.Eval(1)
				if pt.Spice == nil {
					pt.Spice = &protobufcompiled.Spice{}
				}
				got, err := transformers.ProtoTrxToTrx(pt)
				if err != nil {
					r.Violate("C19", "list-entry-does-not-convert/"+path, fmt.Sprintf("an entry of a %d element answer does not convert back: %v", len(back.Array), err), nil)
					continue
				}
				o, ok := orig[got.Subject]
				if !ok {
					continue // history that is not part of this comparison (funding)
				}
				seen++
				want := o
				if countersigned {
					ledger.CounterSign(&want, R)
				}
				if d := trxDiff(&want, &got); len(d) > 0 {
					r.Violate("C19", "silently-changed/"+path+"/"+fieldOnly(d[0]), fmt.Sprintf("%s: entry [%s] of an answer with %d transactions differs from the transaction handed in: %v", path, headN(got.Subject, 12), len(back.Array), d), nil)
				} else if ok, why := ledger.TrxAuthentic(&got); !ok {
					r.Violate("C19", "verify-outcome-changed/"+path, fmt.Sprintf("%s: entry of an answer with %d transactions no longer verifies: %s", path, len(back.Array), why), nil)
				}
				r.Nontriv(fmt.Sprintf("%s/len%d", path, len(back.Array)))
			}
			if seen != len(orig) {
				r.Violate("C19", "list-answer-incomplete/"+path, fmt.Sprintf("%s returned %d of the %d transactions handed in", path, seen, len(orig)), nil)
			}
			r.Count("c19_list_answers", 1)
		}
		rig.Flash.RemoveAddress(R.Addr)
		if blob, err := rig.Notary.Data(ctx, &protobufcompiled.Address{Public: R.Addr}); err == nil {
			if res, err := rig.Notary.Waiting(ctx, svc.Sign(R, blob.Blob)); err == nil {
				compare("notary.Waiting", res.Array, false)
			} else {
				r.Note("c19 lists: Waiting refused: " + err.Error())
			}
		}
		// the receiver confirms everything; the sealed transactions come back from the ledger
		for _, t := range orig {
			c := t
			ledger.CounterSign(&c, R)
			if p, err := transformers.TrxToProtoTrx(c); err == nil {
				rig.Notary.Confirm(ctx, p)
			}
		}
		rig.Flash.RemoveAddress(R.Addr)
		if blob, err := rig.Notary.Data(ctx, &protobufcompiled.Address{Public: R.Addr}); err == nil {
			if res, err := rig.Notary.TransactionsInDAG(ctx, svc.Sign(R, blob.Blob)); err == nil {
				compare("notary.TransactionsInDAG", res.Array, true)
			} else {
				r.Note("c19 lists: TransactionsInDAG refused: " + err.Error())
			}
		}
		rig.Close()
	}
}

// c19CacheLists: the awaiting cache is a transcoding path of its own (msgpack in, msgpack out, several entries per
// address read in one call). Lists of 2-6 transactions for one receiver whose optional byte fields differ from entry
// to entry - data absent, empty or present; receiver signature absent or present - in PRNG order: every entry read back
// through the issuer's list, the receiver's list and the removal call must equal the transaction that was saved.
func c19CacheLists(w *core.WorkerCtx) {
	r := w.R
	rng := core.Rand(w.Seed, "C19cachelists", w.Batch)
	h, err := cache.New(800, 64)
	if err != nil {
		r.Inconc("cannot create the cache: " + err.Error())
		return
	}
	defer h.Close()
	for li := 0; li < w.Pick(40, 400); li++ {
		I, R := ledger.NewActor("I"), ledger.NewActor("R")
		n := 2 + rng.Intn(5)
		orig := map[ledger.H]transaction.Transaction{}
		var order []ledger.H
		shape := ""
		for i := 0; i < n; i++ {
			var data []byte
			switch rng.Intn(3) {
			case 1:
				data = []byte{}
			case 2:
				data = c19Bytes(rng, []int{1, 32, 33, 255}[rng.Intn(4)], 1+rng.Intn(3))
			}
			t := ledger.ForgeTrx(I, R.Addr, fmt.Sprintf("cache list %d/%d", li, i), data, spice.Melange{Currency: uint64(i), SupplementaryCurrency: uint64(1 + rng.Intn(1000))}, time.Now().Add(-time.Minute).Add(time.Duration(i)*time.Millisecond))
			signed := rng.Intn(2) == 0
			if signed {
				ledger.CounterSign(&t, R)
			}
			shape += fmt.Sprintf("%d%v", len(data), signed)[:2]
			saved := t
			if err := h.SaveAwaitedTransaction(&saved); err != nil {
				continue
			}
			orig[t.Hash] = t
			order = append(order, t.Hash)
		}
		check := func(path string, got *transaction.Transaction, listLen int) {
			r.Eval(1)
			o, ok := orig[got.Hash]
			if !ok {
				r.Violate("C19", "list-entry-unknown/"+path, fmt.Sprintf("%s returned a transaction %s that was never saved", path, ledger.Hex(got.Hash)), nil)
				return
			}
			if d := trxDiff(&o, got); len(d) > 0 {
				r.Violate("C19", "silently-changed/"+path+"/"+fieldOnly(d[0]), fmt.Sprintf("%s: an entry of a list of %d awaiting transactions differs from the transaction that was saved: %v", path, listLen, d), nil)
			} else if ok, why := ledger.TrxAuthentic(got); !ok {
				r.Violate("C19", "verify-outcome-changed/"+path, fmt.Sprintf("%s: an entry of a list of %d awaiting transactions no longer verifies: %s", path, listLen, why), nil)
			} else {
				// the code's own verification of the value it handed out, then the fields once more
				var verr error
				if len(got.ReceiverSignature) != 0 {
					verr = got.VerifyIssuerReceiver(wallet.NewVerifier())
				} else {
					verr = got.VerifyIssuer(wallet.NewVerifier())
				}
				if verr != nil {
					r.Violate("C19", "verify-outcome-changed/own-verification/"+path, fmt.Sprintf("%s: an entry of a list of %d awaiting transactions is refused by the code's own verification: %v", path, listLen, verr), nil)
				} else if d2 := trxDiff(&o, got); len(d2) > 0 {
					r.Violate("C19", "changed-by-verification/"+path+"/"+fieldOnly(d2[0]), fmt.Sprintf("%s: verifying an entry that came back intact changed %v", path, d2), nil)
				}
			}
		}
		for _, who := range []struct{ name, addr string }{{"issuer", I.Addr}, {"receiver", R.Addr}} {
			list, err := h.ReadTransactions(who.addr)
			if err != nil {
				r.Violate("C19", "cache-list-unreadable", fmt.Sprintf("the %s's list of %d awaiting transactions cannot be read: %v", who.name, len(orig), err), nil)
				continue
			}
			if len(list) != len(orig) {
				r.Violate("C19", "list-answer-incomplete/cache.ReadTransactions", fmt.Sprintf("the %s's list holds %d of the %d transactions saved", who.name, len(list), len(orig)), nil)
			}
			for i := range list {
				check("cache.ReadTransactions/"+who.name, &list[i], len(list))
			}
		}
		for _, th := range order {
			got, err := h.RemoveAwaitedTransaction(th, R.Addr)
			if err != nil {
				r.Violate("C19", "cache-entry-unreadable", fmt.Sprintf("a saved awaiting transaction cannot be taken out again: %v", err), nil)
				continue
			}
			check("cache.RemoveAwaitedTransaction", &got, len(orig))
		}
		r.Count("c19_cache_lists", 1)
		r.Nontriv(fmt.Sprintf("cache-list/n%d/%s", n, shape))
	}
}

// c19TruncationStorage: the storage form as the node itself produces it. A ledger of 1060 transfers and contracts is
// truncated by the real routine; every vertex it moved to the storage is read back through ReadVertex and
// ReadTransactionByHash and must equal, field by field, the vertex that was sealed, and still verify.
func c19TruncationStorage(w *core.WorkerCtx) {
	r := w.R
	rng := core.Rand(w.Seed, "C19trunc", w.Batch)
	desc := "c19 truncation storage: 1060 vertices, real truncation, every checkpointed vertex read back and compared"
	world := ledger.NewWorld(rng, r, []string{"C19"}, 0, desc)
	defer world.Close()
	if _, err := ledger.Setup(world, ledger.Profile{Nodes: 1, Users: 4, SupplyClass: 0, Delivery: "lockstep"}); err != nil {
		r.Inconc("setup failed: " + err.Error())
		return
	}
	n := world.Nodes[0]
	u := world.Users
	world.Quiet = true
	for i := 0; i < 1060; i++ {
		var data []byte
		amt := spice.Melange{SupplementaryCurrency: uint64(1 + i%9), Currency: uint64(i % 2)}
		if i%5 == 3 {
			data = c19Bytes(rng, []int{1, 32, 33, 255}[i%4], 1+i%3)
		}
		if i%10 == 7 {
			amt = spice.Melange{}
			data = []byte("contract without spice")
		}
		t := world.NewTrx(u[0], u[1+i%3].Addr, amt, data)
		world.Propose(n, &t, "grow")
	}
	world.Quiet = false
	before := world.Observe(n, ledger.OpInfo{Kind: "milestone", OK: true})
	if err := world.Truncate(n); err != nil {
		r.Inconc("truncation failed: " + err.Error())
		return
	}
	after := n.Prev
	ver := wallet.NewVerifier()
	checked := 0
	for h := range after.Stored {
		orig, ok := before.Live[h]
		if !ok {
			continue
		}
		o := orig.V
		got, err := n.Book.ReadVertex(context.Background(), h)
		r.Eval(1)
		if err != nil {
			r.Violate("C19", "stored-object-not-readable/truncation->storage->ReadVertex", fmt.Sprintf("vertex %s was checkpointed by the truncation and cannot be read back: %v", ledger.Hex(h), err), nil)
			continue
		}
		if d := vrxDiff(&o, &got); len(d) > 0 {
			r.Violate("C19", "silently-changed/truncation->storage->ReadVertex/"+fieldOnly(d[0]), fmt.Sprintf("vertex %s checkpointed by the truncation reads back with %v changed", ledger.Hex(h), d), nil)
		} else if (got.Transaction.VerifyIssuer(ver) == nil) != (o.Transaction.VerifyIssuer(ver) == nil) {
			r.Violate("C19", "verify-outcome-changed/truncation->storage->ReadVertex", fmt.Sprintf("vertex %s checkpointed by the truncation no longer verifies like the original", ledger.Hex(h)), nil)
		}
		trx, err := n.Book.ReadTransactionByHash(context.Background(), o.Transaction.Hash)
		if err != nil {
			r.Violate("C19", "stored-object-not-readable/truncation->storage->ReadTransactionByHash", fmt.Sprintf("the transaction of checkpointed vertex %s cannot be read back: %v", ledger.Hex(h), err), nil)
		} else if d := trxDiff(&o.Transaction, &trx); len(d) > 0 {
			r.Violate("C19", "silently-changed/truncation->storage->ReadTransactionByHash/"+fieldOnly(d[0]), fmt.Sprintf("the transaction of checkpointed vertex %s reads back with %v changed", ledger.Hex(h), d), nil)
		}
		checked++
	}
	// the vertices that stayed live were handled by the same routine (it walks them to add up the funds)
	for h, l := range after.Live {
		if orig, ok := before.Live[h]; ok {
			if d := vrxDiff(&orig.V, &l.V); len(d) > 0 {
				r.Violate("C19", "silently-changed/truncation/live-vertex/"+fieldOnly(d[0]), fmt.Sprintf("live vertex %s has %v changed after the truncation", ledger.Hex(h), d), nil)
			}
		}
	}
	r.Count("c19_vertices_checkpointed_by_truncation_and_compared", checked)
	r.Nontriv(fmt.Sprintf("truncation-storage/checked%d", bucketN(checked)))
}

func c19Worker(w *core.WorkerCtx) {
	if w.Batch == 3 {
		c19TruncationStorage(w)
	}
	if w.Batch == 1 {
		c19Lists(w)
	}
	if w.Batch == 2 {
		c19CacheLists(w)
	}
	rng := core.Rand(w.Seed, "C19", w.Batch)
	e := &c19Env{w: w, issuer: ledger.NewActor("I"), recv: ledger.NewActor("R"), sealer: ledger.NewActor("S"), ver: wallet.NewVerifier()}
	r := w.R
	bctx, bcancel := context.WithCancel(context.Background())
	defer bcancel()
	if book, err := accountant.NewAccountingBook(bctx, accountant.Config{Truncate: 1 << 50}, e.ver, &e.sealer.W, ledger.NoLog{}); err == nil {
		e.book = book
		defer book.VerifClose()
	} else {
		r.Inconc("cannot build a ledger for the storage path: " + err.Error())
	}
	// a second ledger, with a genesis that pays the harness's issuer: objects the harness can sign validly are admitted to
	// its live graph (as children of the genesis vertex) and read back through the graph branch of the readers
	gnode := ledger.NewActor("graph-node")
	if gbook, err := accountant.NewAccountingBook(bctx, accountant.Config{Truncate: 1 << 50}, e.ver, &gnode.W, ledger.NoLog{}); err == nil {
		if g, err := gbook.CreateGenesis("GENESIS", spice.Melange{Currency: 1 << 62}, []byte{}, e.issuer.Addr); err == nil {
			e.gbook, e.ggen = gbook, g.Hash
		}
		defer gbook.VerifClose()
	}
	e.every = 1
	if w.Batch > 1 {
		e.every = 4
	}
	base := e.base()
	if !e.verifies(&base) {
		r.Inconc("the base vertex does not verify")
		return
	}
	e.check(&base, "base", "base")
	type val struct {
		field int
		apply func(v *accountant.Vertex) string
	}
	var all [][]func(v *accountant.Vertex) string
	for _, s := range c19Setters {
		all = append(all, s.values(rng))
	}
	switch {
	case w.Batch == 0:
		// one field at a time, every boundary value, raw (stale signatures) and re-signed where the harness owns the key
		for fi, s := range c19Setters {
			for _, ap := range all[fi] {
				v := *ledger.CloneVertex(&base)
				label := ap(&v)
				e.check(&v, label, "one/"+label)
				if s.signed {
					v2 := *ledger.CloneVertex(&base)
					ap(&v2)
					e.resign(&v2)
					e.check(&v2, label+" (re-signed)", "one-signed/"+label)
					r.Count("c19_resigned_objects", 1)
				}
				r.Count("c19_one_field_objects", 1)
			}
		}
		r.Sample(3, map[string]any{"object": "base vertex with trx.data=len65536/class1 (non UTF-8)", "paths": len(c19Paths)})
	case w.Batch == 1 || (w.Thorough() && w.Batch < 6):
		// pairwise: every pair of fields, a reduced value set per field
		for fi := range c19Setters {
			for fj := fi + 1; fj < len(c19Setters); fj++ {
				vi, vj := all[fi], all[fj]
				ni, nj := 5, 5
				if w.Thorough() {
					ni, nj = 9, 9
				}
				for a := 0; a < ni; a++ {
					for b := 0; b < nj; b++ {
						v := *ledger.CloneVertex(&base)
						l1 := vi[(a*7+w.Batch*3+rng.Intn(2))%len(vi)](&v)
						l2 := vj[(b*5+w.Batch+rng.Intn(2))%len(vj)](&v)
						if c19Setters[fi].signed && c19Setters[fj].signed && (a+b)%2 == 0 {
							e.resign(&v)
						}
						e.check(&v, l1+" & "+l2, fmt.Sprintf("pair/%s/%s/%d/%d", c19Setters[fi].name, c19Setters[fj].name, a, b))
						r.Count("c19_pairwise_objects", 1)
					}
				}
			}
		}
	default:
		// random fill: every field random, lengths from the boundary set or random, half of them re-signed
		n := w.Pick(2500, 60000)
		for i := 0; i < n; i++ {
			v := *ledger.CloneVertex(&base)
			k := 1 + rng.Intn(len(c19Setters))
			label := ""
			for j := 0; j < k; j++ {
				fi := rng.Intn(len(c19Setters))
				if len(all[fi]) > 0 {
					label += all[fi][rng.Intn(len(all[fi]))](&v) + " "
				}
			}
			if rng.Intn(2) == 0 {
				v.Transaction.Data = c19Bytes(rng, rng.Intn(3000), 3)
				v.Transaction.Subject = string(c19Bytes(rng, rng.Intn(200), rng.Intn(4)))
				v.Weight = rng.Uint64() >> uint(rng.Intn(64))
				v.Transaction.Spice = spice.Melange{Currency: rng.Uint64() >> uint(rng.Intn(64)), SupplementaryCurrency: rng.Uint64() >> uint(rng.Intn(64))}
				v.CreatedAt = time.Unix(rng.Int63n(1<<35)-1<<33, rng.Int63n(1e9))
				v.Transaction.CreatedAt = time.Unix(0, rng.Int63()-rng.Int63())
			}
			if rng.Intn(2) == 0 {
				e.resign(&v)
			}
			e.check(&v, "random: "+label, fmt.Sprintf("random/%d", i%500))
			r.Count("c19_random_objects", 1)
		}
	}
}

func init() {
	core.Register(&core.Check{
		Spec: core.Spec{
			Prop:        "C19",
			Rule:        "Objects are valid vertices whose fields are replaced by boundary values: lengths 0,1,31,32,33,255,256,65535,65536 (ASCII, non-UTF-8, NUL, random) and nil for every string/bytes field; integers 0,1,2^7+-1,2^8+-1,2^16+-1,2^32+-1,2^63+-1,2^64-1,10^18+-1 for weight and both amount parts; timestamps epoch, +-1ns, 2^32 s, 2^34 s, negative, year 1, int64 nanosecond limits, zero time; hash patterns. Batch 0: one field at a time, every value (exhaustive for that list), raw and re-signed with the real keys; batch 1 (thorough: 1-5): all pairs of fields with a reduced value set; other batches: PRNG fill. Each object goes through 7 paths (vertex<->protobuf struct, <->protobuf wire bytes, transaction<->protobuf through transformers, vertex/transaction/melange/balance msgpack encode(vmihailenco)->decode(shamaton) through the real pairs): every signed field must come back identical (timestamps by UnixNano, nil = empty) and the verify outcome must not change; an explicit converter error counts as rejected, a panic or a silent change is a violation. An eighth path is the real vertices storage of a ledger: the object is written under a unique key through the storage hook and read back through ReadVertex and ReadTransactionByHash (storage fall back); the last 48 returned values are kept and compared with copies taken when they were returned after every later read. Non-trivial = every (path, object) with a non-default field; distinct by (path, field, value). Awaiting-cache lists: 2-6 transactions for one receiver whose optional byte fields (data absent, empty, present; receiver signature absent, present) differ from entry to entry, read back through both parties' lists and the removal call. After every transcoding path the code's own verification runs on the result: its verdict must equal the one for the original, and the fields are compared once more afterwards (verification must not alter what it verifies). Truncation storage: 1060 vertices, the real truncation, every vertex it checkpointed read back through ReadVertex and ReadTransactionByHash and compared with the vertex that was sealed; the live ones compared too. Live graph: every object the harness can sign validly is hung under the genesis vertex of a real ledger, gossiped to it and read back from the live graph through ReadVertex and ReadTransactionByHash. Payloads that look like an encoding of something (gzip, zlib, JSON, base64, PEM, msgpack).",
			Assumptions: []string{"equality of timestamps is equality of UnixNano, the quantity that is signed", "an explicit error from a converter (protobuf refusing non-UTF-8 text, the transformer refusing empty mandatory fields) is a rejection, not a silent change"},
			Exhaustive:  false,
			MinEvals:    5000, MinNontriv: 500,
		},
		Plan: func(tier string) core.Plan {
			if tier == "thorough" {
				return core.Plan{Batches: 14, Parallel: 14, Timeout: 40 * time.Minute}
			}
			return core.Plan{Batches: 4, Parallel: 4, Timeout: 8 * time.Minute}
		},
		Worker: c19Worker,
		OnCrash: func(c core.Crash, res *core.Result) {
			if !c.TimedOut && containsAny(c.Stderr, "panic:", "fatal error:") {
				res.Violate("C19", "crash/"+core.TopRepoFrame(c.Stderr), "a transcoding path crashed the process: "+core.CrashHeadline(c.Stderr), map[string]any{"marks": c.Marks})
				return
			}
			res.Inconc(fmt.Sprintf("batch %d ended abnormally: %s", c.Batch, core.CrashHeadline(c.Stderr)))
		},
	})
}
