package checks

import (
	"context"
	"errors"
	"fmt"
	"github.com/bartossh/Computantis/src/cache"
	"github.com/bartossh/Computantis/src/gossip"
	"github.com/bartossh/Computantis/src/pipe"
	"github.com/bartossh/Computantis/src/protobufcompiled"
	"github.com/bartossh/Computantis/src/wallet"
	"math/rand"
	"sort"
	"time"

	"github.com/bartossh/Computantis/src/accountant"
	"github.com/bartossh/Computantis/src/spice"

	"verifharness/core"
	"verifharness/ledger"
)

// C13 — vertices arriving before their parents are parked and later admitted.

// c13History builds a valid history (every spend covered in every branch) on two source nodes with lagging
// exchange (so that the DAG has diamonds) and returns the vertices in creation (parents-first) order.
// keeper is a node that holds only the genesis vertex; fresh nodes are synced from it.
type c13Hist struct {
	world  *ledger.World
	keeper *ledger.Node
	vs     []accountant.Vertex
}

func c13Build(w *core.WorkerCtx, rng *rand.Rand, size int, desc string) (*c13Hist, error) {
	world := ledger.NewWorld(rng, w.R, []string{"C13"}, allSnapOracles, desc)
	for i := 0; i < 5; i++ {
		world.AddUser(fmt.Sprintf("U%d", i))
	}
	world.AddSealer("X0")
	world.AddSealer("X1")
	s1, err := world.AddGenesisNode("S1", spice.Melange{Currency: 100000}, world.Users[0])
	if err != nil {
		return nil, err
	}
	keeper, err := world.AddSyncedNode("K", s1)
	if err != nil {
		return nil, err
	}
	s2, err := world.AddSyncedNode("S2", s1)
	if err != nil {
		return nil, err
	}
	h := &c13Hist{world: world, keeper: keeper}
	srcs := []*ledger.Node{s1, s2}
	pend := map[int][]accountant.Vertex{}
	add := func(n *ledger.Node, v accountant.Vertex) {
		h.vs = append(h.vs, v)
		other := srcs[1-indexNode(srcs, n)]
		pend[other.Idx] = append(pend[other.Idx], v)
	}
	flush := func(n *ledger.Node) {
		for _, v := range pend[n.Idx] {
			v := v
			world.Deliver(n, &v, "src-exchange")
		}
		pend[n.Idx] = nil
	}
	u := world.Users
	// funding: everything merged before spending starts
	nf := 4
	if size < 8 {
		nf = 2
	}
	for i := 1; i <= nf; i++ {
		t := world.NewTrx(u[0], u[i].Addr, spice.Melange{Currency: 1000}, nil)
		v, err := world.Propose(s1, &t, "fund")
		if err != nil {
			return nil, err
		}
		add(s1, v)
	}
	flush(s2)
	spent := map[string]uint64{}
	for len(h.vs) < size {
		n := srcs[rng.Intn(2)]
		from := u[1+rng.Intn(nf)]
		to := u[rng.Intn(5)]
		if to == from {
			continue
		}
		amt := uint64(1 + rng.Intn(20))
		if spent[from.Addr]+amt > 400 {
			continue
		}
		spent[from.Addr] += amt
		var data []byte
		if rng.Intn(5) == 0 {
			data = []byte("contract")
		}
		t := world.NewTrx(from, to.Addr, spice.Melange{Currency: amt, SupplementaryCurrency: uint64(rng.Intn(2)) * (ledger.E18 - 1)}, data)
		v, err := world.Propose(n, &t, "valid")
		if err != nil {
			return nil, fmt.Errorf("valid-only history: proposal failed: %v", err)
		}
		add(n, v)
		if rng.Intn(3) != 0 {
			flush(srcs[rng.Intn(2)])
		}
	}
	return h, nil
}

func indexNode(ns []*ledger.Node, n *ledger.Node) int {
	for i, x := range ns {
		if x == n {
			return i
		}
	}
	return 0
}

type ledgerView struct {
	verts map[ledger.H]string   // hash -> fingerprint
	edges map[string]bool       // parent>child over graph edges
	index map[ledger.H]ledger.H // trx -> vertex
}

func c13View(s *ledger.Snap, restrict map[ledger.H]bool) ledgerView {
	v := ledgerView{verts: map[ledger.H]string{}, edges: map[string]bool{}, index: map[ledger.H]ledger.H{}}
	for h, l := range s.Live {
		if restrict != nil && !restrict[h] {
			continue
		}
		fp := ledger.Fingerprint(&l.V)
		v.verts[h] = ledger.HexFull(fp)
		for p := range l.Parents {
			v.edges[ledger.HexFull(p)+">"+ledger.HexFull(h)] = true
		}
		if ih, ok := s.Index[l.V.Transaction.Hash]; ok {
			v.index[l.V.Transaction.Hash] = ih
		}
	}
	return v
}

func c13Diff(a, b ledgerView) string {
	var d []string
	for h, fp := range a.verts {
		if fb, ok := b.verts[h]; !ok {
			d = append(d, "vertex "+ledger.Hex(h)+" missing")
		} else if fb != fp {
			d = append(d, "vertex "+ledger.Hex(h)+" content differs")
		}
	}
	for h := range b.verts {
		if _, ok := a.verts[h]; !ok {
			d = append(d, "vertex "+ledger.Hex(h)+" extra")
		}
	}
	for e := range a.edges {
		if !b.edges[e] {
			d = append(d, "edge "+e[:8]+">"+e[65:73]+" missing")
		}
	}
	for e := range b.edges {
		if !a.edges[e] {
			d = append(d, "edge "+e[:8]+">"+e[65:73]+" extra")
		}
	}
	for t, vh := range a.index {
		if b.index[t] != vh {
			d = append(d, "index entry of trx "+ledger.Hex(t)+" differs")
		}
	}
	sort.Strings(d)
	if len(d) > 8 {
		d = append(d[:8], fmt.Sprintf("... %d differences", len(d)))
	}
	return fmt.Sprint(d)
}

// c13Deliver feeds the vertices to a fresh node in the given order and checks every step and the final state.
func c13Deliver(w *core.WorkerCtx, h *c13Hist, order []int, name string, opts c13Opts, refView *ledgerView) *ledgerView {
	world := h.world
	rng := world.R
	t, err := world.AddSyncedNode(name, h.keeper)
	if err != nil {
		w.R.Inconc("cannot create fresh node: " + err.Error())
		return nil
	}
	defer func() {
		t.Closed = true
		t.Book.VerifClose()
	}()
	if opts.viaGossip {
		// the vertices reach the node the way they do in a network: through its gossip service (real gossiper over this
		// node's ledger, no peers), which maps the wire vertex, hands it to the ledger and hides the ledger's error
		fl, err1 := cache.NewFlash()
		hc, err2 := cache.New(800, 256)
		if err1 != nil || err2 != nil {
			w.R.Inconc("cannot create the caches of the gossip service")
			return nil
		}
		defer fl.Close()
		defer hc.Close()
		g := gossip.VerifNewGossiper("node-"+name, ledger.NoLog{}, time.Second, &t.Actor.W, wallet.NewVerifier(), t.Book, hc, fl, pipe.New(10, 10), nil)
		srv := g.Server()
		t.Offer = func(ctx context.Context, v *accountant.Vertex) error {
			fl.RemoveAddress(string(v.Hash[:])) // duplicates are a separate option here, not the 20 s suppression window
			_, err := srv.GossipVrx(ctx, &protobufcompiled.VrxMsgGossip{Vertex: gossip.VerifVertexToProtoVertex(v)})
			return err
		}
	}
	inV := map[ledger.H]bool{}
	for i := range h.vs {
		inV[h.vs[i].Hash] = true
	}
	var invalid []ledger.H
	var pendingX []accountant.Vertex
	parkedOnce := 0
	for step, idx := range order {
		v := h.vs[idx]
		before := t.Prev
		missing := false
		for _, p := range []ledger.H{v.LeftParentHash, v.RightParentHash} {
			if _, ok := before.Vertex(p); !ok {
				missing = true
			}
		}
		_, already := before.Vertex(v.Hash)
		wasParked := false
		for _, p := range before.Parked {
			if p.Vertex.Hash == v.Hash {
				wasParked = true
			}
		}
		err := world.Deliver(t, &v, fmt.Sprintf("perm step %d", step))
		world.EvalFor("C13", 1)
		switch {
		case already:
			if err == nil {
				world.Violate("C13", "admitted-twice", fmt.Sprintf("vertex %s was already in the ledger and was admitted again", ledger.Hex(v.Hash)))
			}
		case opts.viaGossip:
			// the gossip handler answers every refusal with the same error: only the final ledger is judged
		case missing && !wasParked:
			if !ledger.IsParked(err) {
				// the retry ticker may have admitted a parent in the meantime: re-evaluate on the fresh snapshot
				s, where := world.SettleParked(t, v.Hash)
				_ = s
				if where == "absent" {
					world.Violate("C13", "orphan-not-reported-or-not-parked", fmt.Sprintf("vertex %s arrived before a parent: result %v, and it is neither parked nor admitted", ledger.Hex(v.Hash), err))
				}
			} else {
				parkedOnce++
				if _, where := world.SettleParked(t, v.Hash); where == "absent" {
					world.Violate("C13", "orphan-not-parked", fmt.Sprintf("vertex %s arrived before a parent and was reported as such but is neither parked nor admitted", ledger.Hex(v.Hash)))
				}
			}
		case !missing && !wasParked:
			if err != nil && !errors.Is(err, accountant.ErrLeafAlreadyExists) {
				world.Violate("C13", "valid-vertex-with-known-parents-refused", fmt.Sprintf("vertex %s of a valid history, both parents present, was refused: %v", ledger.Hex(v.Hash), err))
			}
		}
		if len(t.Prev.Parked) > 500 {
			world.Violate("C13", "buffer-bound-exceeded", fmt.Sprintf("%d vertices parked", len(t.Prev.Parked)))
		}
		// invalid companions that also miss their parent
		if opts.companions && rng.Intn(4) == 0 {
			bad := v
			kind := rng.Intn(3)
			switch kind {
			case 0: // tampered amount, stale signatures
				bad.Transaction.Spice.Currency += 1000000
			case 1: // self sealed by an outsider on a not yet known parent
				tr := world.NewTrx(world.Sealers[0], world.Users[1].Addr, spice.Melange{Currency: 5}, nil)
				bad = ledger.ForgeVertex(world.Sealers[0], tr, v.Hash, v.Hash, v.Weight+1, world.Now())
			default: // sealing signature replaced by another key's signature
				other := ledger.ForgeVertex(world.Sealers[1], v.Transaction, v.LeftParentHash, v.RightParentHash, v.Weight, v.CreatedAt)
				bad.Signature = other.Signature
			}
			if kind != 1 {
				// keep hash: content no longer matches it
			}
			berr := world.Deliver(t, &bad, fmt.Sprintf("invalid companion kind %d", kind))
			if berr == nil {
				world.Violate("C13", "invalid-vertex-admitted", fmt.Sprintf("invalid companion (kind %d) of vertex %s was accepted", kind, ledger.Hex(v.Hash)))
			}
			if kind == 1 {
				invalid = append(invalid, bad.Hash)
			}
		}
		// tentative tips that do not belong to the history come and go: an overdrawing vertex is admitted on a current tip
		// and, some deliveries later, dropped when its child arrives (the vertex count goes up and down meanwhile)
		if opts.dropPairs {
			if rng.Intn(3) == 0 {
				var tip ledger.H
				var wgt uint64
				for th := range t.Prev.Leaves {
					if tv, ok := t.Prev.Vertex(th); ok && tv.Weight >= wgt {
						tip, wgt = th, tv.Weight
					}
				}
				if wgt > 0 {
					xt := world.NewTrx(world.Users[1+step%2], world.Users[0].Addr, spice.Melange{Currency: 1 << 50}, nil)
					x := ledger.ForgeVertex(world.Sealers[0], xt, tip, tip, wgt+1, world.Now())
					if world.Deliver(t, &x, "overdrawing tentative tip outside the history") == nil {
						pendingX = append(pendingX, x)
					}
				}
			}
			if len(pendingX) > 0 && rng.Intn(2) == 0 {
				x := pendingX[0]
				pendingX = pendingX[1:]
				yt := world.NewTrx(world.Users[0], world.Users[1].Addr, spice.Melange{}, []byte("child of an overdrawing tip"))
				y := ledger.ForgeVertex(world.Sealers[1], yt, x.Hash, x.Hash, x.Weight+1, world.Now())
				world.Deliver(t, &y, "child of the overdrawing tip (drops it)")
				w.R.Count("c13_tentative_tips_dropped_between_deliveries", 1)
			}
		}
		if opts.duplicates && rng.Intn(5) == 0 {
			world.Deliver(t, &v, "duplicate")
		}
		if opts.retryBetween && rng.Intn(3) == 0 {
			world.Retry(t)
		}
		if opts.drainEvery > 0 && (step+1)%opts.drainEvery == 0 {
			// a stage is complete: let the retry path work until the buffer is empty (bounded)
			for k := 0; k < 30*opts.drainEvery+50; k++ {
				if ok, _ := world.Retry(t); !ok && t.Book.VerifParkedLen() == 0 {
					break
				}
			}
		}
	}
	for _, x := range pendingX {
		yt := world.NewTrx(world.Users[0], world.Users[1].Addr, spice.Melange{}, []byte("child of an overdrawing tip"))
		y := ledger.ForgeVertex(world.Sealers[1], yt, x.Hash, x.Hash, x.Weight+1, world.Now())
		world.Deliver(t, &y, "child of the overdrawing tip (drops it)")
	}
	// step the retry path until the buffer is empty (bounded)
	steps := 0
	for ; steps < 25*len(order)+50; steps++ {
		ok, _ := world.Retry(t)
		if !ok {
			if t.Book.VerifParkedLen() == 0 {
				break
			}
		}
	}
	final := world.Observe(t, ledger.OpInfo{Kind: "query", OK: true})
	for _, ih := range invalid {
		if _, ok := final.Vertex(ih); ok {
			world.Violate("C13", "invalid-vertex-admitted-through-retry", fmt.Sprintf("self-sealed companion %s ended in the ledger", ledger.Hex(ih)))
		}
	}
	view := c13View(final, inV)
	world.NontrivFor("C13", fmt.Sprintf("perm/n%d/parked%d/retries%d/companions=%v", len(order), bucketN(parkedOnce), bucketN(steps), opts.companions))
	w.R.Count("c13_permutations", 1)
	w.R.Count("c13_vertices_parked", parkedOnce)
	w.R.Count("c13_retry_steps", steps)
	if refView != nil {
		if d := c13Diff(*refView, view); d != "[]" {
			world.Violate("C13", "ledger-differs-from-parents-first", fmt.Sprintf("after delivering %d vertices in order %v (and %d retry steps) the ledger differs from parents-first delivery: %s", len(order), order, steps, d))
		}
	}
	return &view
}

type c13Opts struct {
	companions, duplicates, retryBetween bool
	drainEvery                           int
	viaGossip                            bool
	dropPairs                            bool
}

// c13LongLived: one node keeps receiving reversed stages of a long valid history; every stage stays within the bounds
// (at most 20 parked at once, at most 20 retries per vertex) but over its life the node parks and re-parks vertices
// well over 500 times. Every stage must still be admitted.
func c13LongLived(w *core.WorkerCtx) {
	rng := core.Rand(w.Seed, "C13long", w.Batch)
	size := 84
	desc := fmt.Sprintf("c13 long-lived node: valid history of %d vertices delivered in reversed stages of 21 seed=%d batch=%d", size, w.Seed, w.Batch)
	w.Mark("%s", desc)
	h, err := c13Build(w, rng, size, desc)
	if err != nil {
		w.R.Inconc("history build failed: " + err.Error())
		return
	}
	defer h.world.Close()
	n := len(h.vs)
	ident := make([]int, n)
	for i := range ident {
		ident[i] = i
	}
	ref := c13Deliver(w, h, ident, "R", c13Opts{}, nil)
	if ref == nil || len(ref.verts) != n {
		h.world.Violate("C13", "parents-first-delivery-incomplete", fmt.Sprintf("parents-first delivery of a valid history of %d vertices was not admitted completely", n))
		return
	}
	const stage = 21
	var order []int
	for lo := 0; lo < n; lo += stage {
		hi := lo + stage
		if hi > n {
			hi = n
		}
		for j := hi - 1; j >= lo; j-- {
			order = append(order, j)
		}
	}
	c13Deliver(w, h, order, "LL", c13Opts{drainEvery: stage}, ref)
	w.R.Count("c13_long_lived_nodes", 1)
}

func bucketN(n int) int {
	switch {
	case n <= 2:
		return n
	case n <= 5:
		return 5
	case n <= 10:
		return 10
	case n <= 20:
		return 20
	case n <= 50:
		return 50
	}
	return 100
}

// c13ComeAndGo: between the moment a vertex is parked and the moment its parent arrives other things happen to the
// ledger that leave its size as it was: a tentative overdrawing tip, present when the orphan was parked, is dropped
// (its child arrives) and then the parent is admitted. The orphan must be admitted by the next replays.
func c13ComeAndGo(w *core.WorkerCtx) {
	rng := core.Rand(w.Seed, "C13comeandgo", w.Batch)
	desc := fmt.Sprintf("c13 come and go: orphan parked, a tentative tip dropped, the parent admitted seed=%d batch=%d", w.Seed, w.Batch)
	w.Mark("%s", desc)
	world := ledger.NewWorld(rng, w.R, []string{"C13"}, allSnapOracles, desc)
	defer world.Close()
	if _, err := ledger.Setup(world, ledger.Profile{Nodes: 1, Users: 4, SupplyClass: 0, Delivery: "lockstep"}); err != nil {
		w.R.Inconc("setup failed: " + err.Error())
		return
	}
	n := world.Nodes[0]
	u := world.Users
	f := world.NewTrx(u[0], u[1].Addr, spice.Melange{Currency: 10}, nil)
	world.Propose(n, &f, "fund")
	for round := 0; round < w.Pick(6, 30); round++ {
		s := n.Prev
		var tip ledger.H
		var wgt uint64
		for th := range s.Leaves {
			if tv, ok := s.Vertex(th); ok && tv.Weight >= wgt {
				tip, wgt = th, tv.Weight
			}
		}
		if wgt == 0 {
			break
		}
		xs := 1 + round%3 // how many tentative tips come and go
		var xv []accountant.Vertex
		for i := 0; i < xs; i++ {
			xt := world.NewTrx(u[1+i%2], u[0].Addr, spice.Melange{Currency: 1 << 50}, nil)
			x := ledger.ForgeVertex(world.Sealers[i%2], xt, tip, tip, wgt+1, world.Now())
			if world.Deliver(n, &x, "overdrawing tentative tip") == nil {
				xv = append(xv, x)
			}
		}
		pt := world.NewTrx(u[0], u[2].Addr, spice.Melange{}, []byte(fmt.Sprintf("parent %d", round)))
		p := ledger.ForgeVertex(world.Sealers[0], pt, tip, tip, wgt+1, world.Now())
		// as many parents in a row as tips go, so that the size is the same again when the last one is in
		chain := []accountant.Vertex{p}
		for i := 1; i < len(xv); i++ {
			ct := world.NewTrx(u[0], u[2].Addr, spice.Melange{}, []byte(fmt.Sprintf("parent %d.%d", round, i)))
			c := ledger.ForgeVertex(world.Sealers[i%2], ct, chain[i-1].Hash, chain[i-1].Hash, chain[i-1].Weight+1, world.Now())
			chain = append(chain, c)
		}
		last := chain[len(chain)-1]
		vt := world.NewTrx(u[0], u[3].Addr, spice.Melange{SupplementaryCurrency: 1}, nil)
		v := ledger.ForgeVertex(world.Sealers[1], vt, last.Hash, last.Hash, last.Weight+1, world.Now())
		if err := world.Deliver(n, &v, "vertex before its parents"); !ledger.IsParked(err) {
			world.Logf("round %d: the orphan was not parked: %v", round, err)
		}
		for _, x := range xv {
			yt := world.NewTrx(u[0], u[1].Addr, spice.Melange{}, []byte("child of an overdrawing tip"))
			y := ledger.ForgeVertex(world.Sealers[1], yt, x.Hash, x.Hash, x.Weight+1, world.Now())
			world.Deliver(n, &y, "child of the overdrawing tip (drops it)")
		}
		for i := range chain {
			world.Deliver(n, &chain[i], "a parent arrives")
		}
		admitted := false
		for k := 0; k < 30 && !admitted; k++ {
			world.Retry(n)
			_, admitted = n.Prev.Vertex(v.Hash)
			if !admitted && k%5 == 4 {
				// the node's own ticker may hold the vertex in flight
				time.Sleep(2 * time.Millisecond)
				if sn, err := ledger.TakeSnap(n.Book); err == nil {
					_, admitted = sn.Vertex(v.Hash)
				}
			}
		}
		world.EvalFor("C13", 1)
		world.NontrivFor("C13", fmt.Sprintf("come-and-go/tips%d/admitted=%v", len(xv), admitted))
		if !admitted {
			world.Violate("C13", "orphan-not-admitted-after-its-parents-arrived", fmt.Sprintf("round %d: vertex %s was parked, %d tentative tips were dropped and its %d parents admitted meanwhile; after 30 replays of the orphan buffer it is still not in the ledger", round, ledger.Hex(v.Hash), len(xv), len(chain)))
		}
		m := world.NewTrx(u[0], u[1].Addr, spice.Melange{}, []byte("merge"))
		world.Propose(n, &m, "merge")
	}
	w.R.Count("c13_come_and_go_scenarios", 1)
}

// c13SubscriberStalled: four vertices of a chain are parked, their first ancestor arrives, and right then a local
// proposal keeps the ledger lock for six seconds (it validates the tip, whose verification is slow the second time),
// i.e. for three ticks of the orphan buffer: the routine that replays parked vertices is stuck behind the lock while the
// ticker keeps handing it vertices. Afterwards every one of the four must be admitted by the node's own ticker - the
// retry hook is not used here.
func c13SubscriberStalled(w *core.WorkerCtx) {
	rng := core.Rand(w.Seed, "C13stalled", w.Batch)
	desc := fmt.Sprintf("c13 replay routine stalled behind the ledger lock for three ticks seed=%d batch=%d", w.Seed, w.Batch)
	w.Mark("%s", desc)
	world := ledger.NewWorld(rng, w.R, []string{"C13"}, allSnapOracles, desc)
	world.SlowRepeat = 6 * time.Second
	defer world.Close()
	if _, err := ledger.Setup(world, ledger.Profile{Nodes: 1, Users: 4, SupplyClass: 0, Delivery: "lockstep"}); err != nil {
		w.R.Inconc("setup failed: " + err.Error())
		return
	}
	n := world.Nodes[0]
	u := world.Users
	s := n.Prev
	var tip ledger.H
	var wgt uint64
	for th := range s.Leaves {
		if tv, ok := s.Vertex(th); ok && tv.Weight >= wgt {
			tip, wgt = th, tv.Weight
		}
	}
	var chain []accountant.Vertex
	prev, pw := tip, wgt
	for i := 0; i < 5; i++ {
		t := world.NewTrx(u[0], u[1+i%3].Addr, spice.Melange{}, []byte(fmt.Sprintf("chain %d", i)))
		v := ledger.ForgeVertex(world.Sealers[i%2], t, prev, prev, pw+1, world.Now())
		chain = append(chain, v)
		prev, pw = v.Hash, v.Weight
	}
	world.SlowAfterFirst(chain[0].Hash)
	for i := 4; i >= 1; i-- {
		if err := world.Deliver(n, &chain[i], "vertex before its ancestors"); !ledger.IsParked(err) {
			w.R.Note(fmt.Sprintf("stalled subscriber: vertex %d was not parked: %v", i, err))
		}
	}
	if err := world.Deliver(n, &chain[0], "the first ancestor"); err != nil {
		w.R.Inconc("stalled subscriber: the first ancestor was refused: " + err.Error())
		return
	}
	// the proposal validates the tip (the first ancestor): its second verification takes six seconds, under the lock
	start := time.Now()
	t := world.NewTrx(u[0], u[1].Addr, spice.Melange{}, []byte("slow local proposal"))
	world.Quiet = true
	_, perr := world.Propose(n, &t, "local proposal that holds the ledger lock for three ticks")
	world.Quiet = false
	held := time.Since(start)
	// now the node's own ticker has all the time it needs: one parked vertex per two seconds, 25 tries each
	admitted := 0
	for k := 0; k < 80; k++ {
		admitted = 0
		for i := 1; i <= 4; i++ {
			if _, err := n.Book.ReadVertex(world.Ctx, chain[i].Hash); err == nil {
				admitted++
			}
		}
		if admitted == 4 {
			break
		}
		time.Sleep(500 * time.Millisecond)
	}
	world.Observe(n, ledger.OpInfo{Kind: "retry", OK: true})
	world.EvalFor("C13", 1)
	world.NontrivFor("C13", fmt.Sprintf("subscriber-stalled/held%ds/admitted%d", int(held.Seconds()), admitted))
	w.R.Count("c13_stalled_subscriber_scenarios", 1)
	if held < 4*time.Second {
		w.R.Note(fmt.Sprintf("stalled subscriber: the proposal held the lock for %v only (result %v)", held, perr))
		return
	}
	if admitted != 4 {
		world.Violate("C13", "parked-vertex-never-admitted/replay-routine-stalled", fmt.Sprintf("four vertices were parked and their ancestor arrived; a local proposal then held the ledger lock for %v; 40 seconds later the node's own ticker has admitted %d of the four (still parked: %d)", held.Round(time.Second), admitted, n.Book.VerifParkedLen()))
	}
}

// c13Twins: one sealer's distinct vertices that carry the very same creation time (two vertices sealed within one reading
// of the clock) reach a node before their common parent; a copy of each arrives twice. Once the parent is present every
// one of them has to be admitted. A twin that is missing afterwards is offered again directly: only if the node then takes
// it (so parents-first delivery would have admitted it) the orphan path is held to have lost it.
func c13Twins(w *core.WorkerCtx) {
	rng := core.Rand(w.Seed, "C13twins", w.Batch)
	desc := fmt.Sprintf("c13 vertices of one sealer with equal creation times parked together seed=%d batch=%d", w.Seed, w.Batch)
	w.Mark("%s", desc)
	world := ledger.NewWorld(rng, w.R, []string{"C13"}, allSnapOracles, desc)
	defer world.Close()
	if _, err := ledger.Setup(world, ledger.Profile{Nodes: 1, Users: 4, SupplyClass: 0, Delivery: "lockstep"}); err != nil {
		w.R.Inconc("setup failed: " + err.Error())
		return
	}
	n := world.Nodes[0]
	u := world.Users
	rounds := 3 + rng.Intn(3)
	for round := 0; round < rounds; round++ {
		s := n.Prev
		var tip ledger.H
		var wgt uint64
		found := false
		for th := range s.Leaves {
			if tv, ok := s.Vertex(th); ok && (!found || tv.Weight >= wgt) {
				tip, wgt, found = th, tv.Weight, true
			}
		}
		if !found {
			w.R.Note("twins: no tip to build on")
			return
		}
		pt := world.NewTrx(u[0], u[1].Addr, spice.Melange{}, []byte(fmt.Sprintf("twins parent %d", round)))
		parent := ledger.ForgeVertex(world.Sealers[0], pt, tip, tip, wgt+1, world.Now())
		k := 2 + rng.Intn(3)
		at := world.Now()
		sealer := world.Sealers[1]
		var twins []accountant.Vertex
		for i := 0; i < k; i++ {
			t := world.NewTrx(u[i%len(u)], u[(i+1)%len(u)].Addr, spice.Melange{}, []byte(fmt.Sprintf("twin %d of round %d", i, round)))
			twins = append(twins, ledger.ForgeVertex(sealer, t, parent.Hash, parent.Hash, wgt+2, at))
		}
		parked := 0
		for pass := 0; pass < 2; pass++ {
			for i := range twins {
				if err := world.Deliver(n, &twins[i], "twin before its parent"); ledger.IsParked(err) {
					parked++
				}
			}
		}
		if err := world.Deliver(n, &parent, "the twins' parent"); err != nil {
			w.R.Note("twins: the parent was refused: " + err.Error())
			return
		}
		for i := 0; i < 3*k+4; i++ {
			world.Retry(n)
		}
		world.EvalFor("C13", k)
		world.NontrivFor("C13", fmt.Sprintf("twins/k%d/parked%d", k, parked))
		w.R.Count("c13_twin_vertices_judged", k)
		for i := range twins {
			if _, err := n.Book.ReadVertex(world.Ctx, twins[i].Hash); err == nil {
				continue
			}
			again := world.Deliver(n, &twins[i], "twin offered again with its parent present")
			if again == nil {
				world.Violate("C13", "parked-vertex-never-admitted/equal-creation-time", fmt.Sprintf("%d vertices of sealer %s with the same creation time arrived before their parent; after the parent arrived and %d retry ticks vertex %d of them was not in the ledger, offered directly it was admitted at once (parked at that moment: %d)", k, world.NameOf(sealer.Addr), 3*k+4, i, n.Book.VerifParkedLen()))
			} else {
				w.R.Note(fmt.Sprintf("twins: twin %d missing and refused when offered again: %v", i, again))
			}
		}
	}
}

func c13Worker(w *core.WorkerCtx) {
	if w.Batch == 0 || (w.Thorough() && w.Batch%4 == 0) {
		c13Twins(w)
	}
	if w.Batch == 3 || (w.Thorough() && w.Batch%4 == 3) {
		c13SubscriberStalled(w)
	}
	if w.Batch == 1 || (w.Thorough() && w.Batch%4 == 1) {
		c13LongLived(w)
	}
	if w.Batch == 2 || (w.Thorough() && w.Batch%4 == 2) {
		c13ComeAndGo(w)
	}
	hists := w.Pick(2, 5)
	for hi := 0; hi < hists; hi++ {
		rng := core.Rand(w.Seed, "C13", w.Batch, hi)
		size := 6 + rng.Intn(15)
		exhaustive6 := w.Thorough() && hi == 0 && w.Batch < 6
		if exhaustive6 {
			size = 6
		}
		desc := fmt.Sprintf("c13 valid history of %d vertices seed=%d batch=%d hist=%d", size, w.Seed, w.Batch, hi)
		w.Mark("%s", desc)
		h, err := c13Build(w, rng, size, desc)
		if err != nil {
			w.R.Inconc("history build failed: " + err.Error())
			continue
		}
		n := len(h.vs)
		ident := make([]int, n)
		for i := range ident {
			ident[i] = i
		}
		ref := c13Deliver(w, h, ident, "R", c13Opts{}, nil)
		if ref == nil || len(ref.verts) != n {
			got := 0
			if ref != nil {
				got = len(ref.verts)
			}
			h.world.Violate("C13", "parents-first-delivery-incomplete", fmt.Sprintf("parents-first delivery of a valid history admitted %d of %d vertices", got, n))
			h.world.Close()
			continue
		}
		var orders [][]int
		if exhaustive6 {
			// all 720 permutations of the 6 vertices, split over the first 6 batches by first element
			permute(ident, 0, func(p []int) {
				if p[0] == w.Batch {
					orders = append(orders, append([]int{}, p...))
				}
			})
			w.R.Count("c13_exhaustive_permutations_of_6", len(orders))
		} else {
			k := w.Pick(14, 40)
			for i := 0; i < k; i++ {
				p := rng.Perm(n)
				switch i {
				case 0: // fully reversed: the worst case for the retry counter
					for j := range p {
						p[j] = n - 1 - j
					}
				}
				orders = append(orders, p)
			}
		}
		for oi, p := range orders {
			opts := c13Opts{companions: oi%3 == 1, duplicates: oi%2 == 0, retryBetween: oi%4 == 3, viaGossip: oi%5 == 2, dropPairs: oi%7 == 4}
			if exhaustive6 {
				opts = c13Opts{}
			}
			w.Mark("hist %d order %v", hi, p)
			c13Deliver(w, h, p, fmt.Sprintf("T%d", oi), opts, ref)
			if oi == 0 && hi == 0 && w.Batch == 0 {
				w.R.Sample(4, map[string]any{"history": desc, "delivery_order": p, "options": fmt.Sprintf("%+v", opts)})
			}
		}
		if hi == 0 {
			c13Bounds(w, h)
		}
		h.world.Close()
	}
}

// c13Bounds: the buffer holds at most 500 vertices and a vertex whose parent never arrives is retried a bounded number of times.
func c13Bounds(w *core.WorkerCtx, h *c13Hist) {
	world := h.world
	t, err := world.AddSyncedNode("B", h.keeper)
	if err != nil {
		return
	}
	defer func() { t.Closed = true; t.Book.VerifClose() }()
	// one orphan whose parent never arrives
	tr := world.NewTrx(world.Users[1], world.Users[2].Addr, spice.Melange{Currency: 1}, nil)
	var ghost ledger.H
	ghost[0], ghost[5] = 0xAA, 0x55
	orphan := ledger.ForgeVertex(world.Sealers[0], tr, ghost, ghost, 60, world.Now())
	err = world.Deliver(t, &orphan, "orphan-forever")
	if !ledger.IsParked(err) {
		world.Violate("C13", "orphan-not-reported-or-not-parked", fmt.Sprintf("vertex with an unknown parent: result %v", err))
	}
	for i := 0; i < 40; i++ {
		world.Retry(t)
	}
	s := world.Observe(t, ledger.OpInfo{Kind: "query", OK: true})
	for _, p := range s.Parked {
		if p.Vertex.Hash == orphan.Hash {
			world.Violate("C13", "retries-not-bounded", fmt.Sprintf("a vertex whose parent never arrives is still parked after 40 retries (counter %d)", p.Repeated))
		}
	}
	if _, ok := s.Vertex(orphan.Hash); ok {
		world.Violate("C13", "invalid-vertex-admitted-through-retry", "a vertex with an unknown parent ended in the ledger")
	}
	world.EvalFor("C13", 1)
	world.NontrivFor("C13", "bounded-retries")
	// more than 500 orphans
	accepted := 0
	for i := 0; i < 520; i++ {
		tr := world.NewTrx(world.Users[1], world.Users[2].Addr, spice.Melange{SupplementaryCurrency: uint64(i + 1)}, nil)
		o := ledger.ForgeVertex(world.Sealers[1], tr, ghost, ghost, 60, world.Now())
		c := ledger.CloneVertex(&o)
		if err := t.Book.AddLeaf(world.Ctx, c); ledger.IsParked(err) {
			accepted++
		}
		if l := t.Book.VerifParkedLen(); l > 500 {
			world.Violate("C13", "buffer-bound-exceeded", fmt.Sprintf("%d vertices parked", l))
			break
		}
	}
	world.Logf("520 orphans offered, %d parked", accepted)
	world.EvalFor("C13", 1)
	world.NontrivFor("C13", "buffer-bound-500")
	w.R.Count("c13_orphans_for_bound", 520)
}

func permute(a []int, k int, f func([]int)) {
	if k == len(a) {
		f(a)
		return
	}
	for i := k; i < len(a); i++ {
		a[k], a[i] = a[i], a[k]
		permute(a, k+1, f)
		a[k], a[i] = a[i], a[k]
	}
}

func init() {
	core.Register(&core.Check{
		Spec: core.Spec{
			Prop:        "C13",
			Rule:        "Valid histories of 6-20 vertices (chains and diamonds from two lagging source nodes, several wallets, every spend covered in every branch) are delivered to fresh synced nodes in PRNG permutations (plus the fully reversed order; thorough: all 720 permutations of a 6-vertex history), with duplicates, retry steps in between and invalid companions (tampered, re-signed by a wrong key, self-sealed child of a not yet known vertex). Per delivery: unknown parent => reported as such and parked (or already admitted by the ticker), known parents => accepted; then the retry path is stepped until the buffer is empty: the final ledger (vertices, graph edges, index) must equal parents-first delivery, nothing admitted twice, no invalid companion in the ledger, buffer <= 500, an orphan whose parent never comes is dropped after a bounded number of retries. Non-trivial = every non-identity permutation; distinct by (size, parked count bucket, retry steps bucket, companions). Every fifth order is delivered through a real gossip service on top of the node's ledger (GossipVrx with the wire form of the vertex) instead of a direct AddLeaf. One batch runs a long-lived node: a valid history of 84 vertices delivered in reversed stages of 21 (each stage within the bounds, more than 800 cumulative parkings over the node's life); it must end with the parents-first ledger. Every delivery runs under a context of its own that ends when the call returns, as a request handler's does. Come and go: tentative overdrawing tips that are not part of the history are admitted and, some deliveries later, dropped by their children, so that between the parking of an orphan and the arrival of its parents the ledger grows and shrinks (fixed scenario with 1-3 such tips and as many parents; every seventh sampled permutation). Stalled replay routine: four vertices parked, their ancestor delivered, then a local proposal that holds the ledger lock for six seconds (three ticks); all four must be admitted by the node's own ticker afterwards. Twins: 2-4 distinct vertices of one sealer that carry the very same creation time reach a node, each twice, before their common parent; after the parent and the retry ticks every one must be in the ledger (a missing one is offered again directly and counts only if the node then admits it).",
			Assumptions: []string{"histories stay within the retry bound (<= 20 vertices), so every vertex is admitted for any permutation", ledgerAssume},
			MinEvals:    300, MinNontriv: 8,
		},
		Plan:   ledgerPlan(8, 42),
		Worker: c13Worker,
	})
}
