package checks

import (
	"context"
	"crypto/sha256"
	"encoding/binary"
	"fmt"
	"github.com/bartossh/Computantis/src/accountant"
	"github.com/bartossh/Computantis/src/serializer"
	"github.com/bartossh/Computantis/src/transformers"
	"math/rand"
	"sort"
	"strconv"
	"strings"
	"time"
	"verifharness/svc"

	"github.com/bartossh/Computantis/src/gossip"
	"github.com/bartossh/Computantis/src/protobufcompiled"
	"github.com/bartossh/Computantis/src/spice"
	"google.golang.org/protobuf/proto"

	"verifharness/core"
	"verifharness/ledger"
	"verifharness/vnet"
)

// C12 — gossiper lists cannot be forged to suppress delivery.

// harvested genuine entries of honest nodes for earlier items (address -> entries)
type c12Harvest struct {
	byAddr map[string][]*protobufcompiled.Gossiper
}

func (h *c12Harvest) add(gs []*protobufcompiled.Gossiper) {
	for _, g := range gs {
		if g != nil {
			h.byAddr[g.Address] = append(h.byAddr[g.Address], proto.Clone(g).(*protobufcompiled.Gossiper))
		}
	}
}

// poisoned-item is not a list class: the relay forwards the item itself with a corrupted sealing signature under the
// genuine hash (the receiving node's duplicate-suppression memory keys on the claimed hash before validation).
const c12Poisoned = "poisoned-item-same-hash"

var c12Classes = []string{"sybil-entries", "garbage", "wrong-digest", "honest-signature-for-another-item", "honest-address-signed-by-adversary", "address-and-signature-swapped", "own-entry-copies", "mixed", "honest-entries-for-this-item-replayed", "empty-list", "target-listed"}

// c12Forge builds a gossiper list of the given class for item, claiming the victims (honest node indexes).
func c12Forge(net *vnet.Net, rng *rand.Rand, class string, item ledger.H, adv int, victims []int, genuine []*protobufcompiled.Gossiper, hv *c12Harvest) []*protobufcompiled.Gossiper {
	advA := net.Nodes[adv].Actor
	own := func() *protobufcompiled.Gossiper {
		d, s := advA.W.Sign(append([]byte(advA.Addr), item[:]...))
		return &protobufcompiled.Gossiper{Address: advA.Addr, Digest: d[:], Signature: s}
	}
	var out []*protobufcompiled.Gossiper
	if rng.Intn(4) != 0 {
		out = append(out, own())
	}
	for _, v := range victims {
		va := net.Nodes[v].Actor.Addr
		msg := append([]byte(va), item[:]...)
		switch class {
		case "garbage":
			d := make([]byte, 32)
			s := make([]byte, 64)
			rng.Read(d)
			rng.Read(s)
			out = append(out, &protobufcompiled.Gossiper{Address: va, Digest: d, Signature: s})
		case "wrong-digest":
			d, s := advA.W.Sign(append([]byte(va), 'x'))
			out = append(out, &protobufcompiled.Gossiper{Address: va, Digest: d[:], Signature: s})
		case "honest-signature-for-another-item":
			if es := hv.byAddr[va]; len(es) > 0 {
				out = append(out, proto.Clone(es[rng.Intn(len(es))]).(*protobufcompiled.Gossiper))
				// and the same signature under the right digest for this item
				e := proto.Clone(es[rng.Intn(len(es))]).(*protobufcompiled.Gossiper)
				d, _ := advA.W.Sign(msg)
				e.Digest = d[:]
				out = append(out, e)
			}
		case "honest-address-signed-by-adversary":
			d, s := advA.W.Sign(msg)
			out = append(out, &protobufcompiled.Gossiper{Address: va, Digest: d[:], Signature: s})
		case "address-and-signature-swapped":
			// a genuine entry of another node for this item under the victim's address
			for _, g := range genuine {
				if g.Address != va {
					out = append(out, &protobufcompiled.Gossiper{Address: va, Digest: g.Digest, Signature: g.Signature})
					d, _ := advA.W.Sign(msg)
					out = append(out, &protobufcompiled.Gossiper{Address: va, Digest: d[:], Signature: g.Signature})
				}
			}
		case "own-entry-copies":
			for i := 0; i < 5; i++ {
				out = append(out, own())
			}
			o := own()
			o.Address = va
			out = append(out, o)
		case "mixed":
			d, s := advA.W.Sign(msg)
			out = append(out, &protobufcompiled.Gossiper{Address: va, Digest: d[:], Signature: s})
			out = append(out, &protobufcompiled.Gossiper{Address: va, Digest: d[:], Signature: make([]byte, 64)})
			out = append(out, &protobufcompiled.Gossiper{Address: va, Digest: make([]byte, 32), Signature: s})
			out = append(out, &protobufcompiled.Gossiper{Address: va, Digest: d[:], Signature: nil})
		case "target-listed":
			d, s := advA.W.Sign(msg)
			out = append(out, &protobufcompiled.Gossiper{Address: va, Digest: d[:], Signature: s})
		}
	}
	if class == "garbage" {
		// entries whose address is not an address at all: strings that decode to 0..8 bytes (shorter than, as long as,
		// and just longer than the checksum), the empty string, characters outside the alphabet
		for k := 0; k <= 8; k++ {
			raw := make([]byte, k)
			rng.Read(raw)
			d := make([]byte, 32)
			s := make([]byte, 64)
			rng.Read(d)
			out = append(out, &protobufcompiled.Gossiper{Address: string(serializer.Base58Encode(raw)), Digest: d, Signature: s})
			// and with the digest that belongs to (this "address", this item), so that the verifier gets as far as the key
			addr := string(serializer.Base58Encode(raw))
			dg := sha256.Sum256(append([]byte(addr), item[:]...))
			out = append(out, &protobufcompiled.Gossiper{Address: addr, Digest: dg[:], Signature: s})
		}
		out = append(out, &protobufcompiled.Gossiper{Address: "0OIl not base58", Digest: make([]byte, 32), Signature: make([]byte, 64)})
	}
	if strings.HasPrefix(class, "sybil-entries") {
		// genuinely signed entries of wallets that are nobody's peer (throw-away keys of the adversary): they verify,
		// and they say nothing about whether any real peer was informed ("sybil-entries:N" asks for exactly N of them)
		count := 3 + len(victims) + rng.Intn(6)
		if i := strings.IndexByte(class, ':'); i > 0 {
			count, _ = strconv.Atoi(class[i+1:])
		}
		for i := 0; i < count; i++ {
			sy := ledger.NewActor("sybil")
			d, s := sy.W.Sign(append([]byte(sy.Addr), item[:]...))
			out = append(out, &protobufcompiled.Gossiper{Address: sy.Addr, Digest: d[:], Signature: s})
		}
	}
	if class == "honest-entries-for-this-item-replayed" {
		for _, g := range genuine {
			out = append(out, proto.Clone(g).(*protobufcompiled.Gossiper))
		}
	}
	if class == "empty-list" {
		out = nil
	}
	rng.Shuffle(len(out), func(i, j int) { out[i], out[j] = out[j], out[i] })
	return out
}

func honestReach(t topo, origin, adv int) map[int]bool {
	seen := map[int]bool{origin: true}
	q := []int{origin}
	for len(q) > 0 {
		x := q[0]
		q = q[1:]
		for _, y := range t.adj[x] {
			if y != adv && !seen[y] {
				seen[y] = true
				q = append(q, y)
			}
		}
	}
	return seen
}

// c12Execution: the adversary gets the item first, emits it with forged lists to all its neighbours before any honest
// copy is delivered, then the honest traffic is delivered in PRNG order.
func c12Execution(w *core.WorkerCtx, net *vnet.Net, t topo, rng *rand.Rand, adv, origin int, kind, class string, hv *c12Harvest, seq int, dropOnly bool) {
	r := w.R
	net.ResetExecution()
	it, err := c11Originate(net, origin, kind, seq)
	if err != nil {
		r.Note("originate failed: " + err.Error())
		return
	}
	desc := fmt.Sprintf("topology %s adversary at %d origin %d item %s list class %s dropOnly=%v", t.name, adv, origin, kind, class, dropOnly)
	w.Mark("%s", desc)
	net.WaitSent()
	// deliver to the adversary first whatever is addressed to it
	var got *vnet.Msg
	for _, m := range net.Pending() {
		if m.To == adv && m.Item == it.hash {
			net.Deliver(m)
			got = m
		}
	}
	var genuine []*protobufcompiled.Gossiper
	if got != nil {
		if kind == "vrx" {
			var msg protobufcompiled.VrxMsgGossip
			if proto.Unmarshal(got.Bytes, &msg) == nil {
				genuine = msg.Gossipers
				if !dropOnly {
					for _, nb := range t.adj[adv] {
						if nb == origin {
							continue
						}
						// claim every honest node except the one addressed; for "target-listed" claim the target itself
						var victims []int
						for j := 0; j < t.k; j++ {
							if j != adv && j != origin && (j != nb) == (class != "target-listed") {
								victims = append(victims, j)
							}
						}
						fm := proto.Clone(&msg).(*protobufcompiled.VrxMsgGossip)
						if class == c12Poisoned {
							fm.Gossipers = c12Forge(net, rng, "empty-list", it.hash, adv, nil, genuine, hv)
							fm.Vertex.Signature[5] ^= 0x10
						} else {
							fm.Gossipers = c12Forge(net, rng, class, it.hash, adv, victims, genuine, hv)
						}
						b, _ := proto.Marshal(fm)
						net.Inject(adv, nb, "vrx", it.hash, b, false)
					}
				}
			}
		} else {
			var msg protobufcompiled.TrxMsgGossip
			if proto.Unmarshal(got.Bytes, &msg) == nil {
				genuine = msg.Gossipers
				if !dropOnly {
					for _, nb := range t.adj[adv] {
						if nb == origin {
							continue
						}
						var victims []int
						for j := 0; j < t.k; j++ {
							if j != adv && j != origin && (j != nb) == (class != "target-listed") {
								victims = append(victims, j)
							}
						}
						fm := proto.Clone(&msg).(*protobufcompiled.TrxMsgGossip)
						fm.Gossipers = c12Forge(net, rng, class, it.hash, adv, victims, genuine, hv)
						b, _ := proto.Marshal(fm)
						net.Inject(adv, nb, "trx", it.hash, b, false)
					}
				}
			}
		}
	}
	// the adversary's messages first, then everything else in PRNG order; the adversary drops whatever reaches it later
	x := &c11Exec{w: w, net: net, t: t, rng: rng, policy: "random"}
	for _, m := range net.Pending() {
		if m.From == adv {
			net.Deliver(m)
		}
	}
	if !x.drive() {
		r.Inconc("execution did not reach quiescence: " + desc)
		return
	}
	c11Retries(net, adv)
	net.Settle()
	// harvest genuine entries seen by the adversary for later "other item" forgeries
	for _, m := range net.Nodes[adv].Inbox {
		if m.Kind == "vrx" {
			var msg protobufcompiled.VrxMsgGossip
			if proto.Unmarshal(m.Bytes, &msg) == nil {
				hv.add(msg.Gossipers)
			}
		} else {
			var msg protobufcompiled.TrxMsgGossip
			if proto.Unmarshal(m.Bytes, &msg) == nil {
				hv.add(msg.Gossipers)
			}
		}
	}
	reach := honestReach(t, origin, adv)
	// delivery oracle restricted to honest nodes with an honest path; violations are reported under C12
	before := len(r.Violations)
	c12Judge(w, net, t, it, desc, adv, reach, class)
	_ = before
	r.Eval(1)
	r.Count("c12_network_executions", 1)
	r.Nontriv(fmt.Sprintf("net/%s/adv%d/origin%d/%s/%s/drop=%v", t.name, adv, origin, kind, class, dropOnly))
}

func c12Judge(w *core.WorkerCtx, net *vnet.Net, t topo, it c11Item, desc string, adv int, reach map[int]bool, class string) {
	r := w.R
	ev := net.Events()
	witness := func() any {
		var lines []string
		for _, e := range ev {
			if len(lines) > 80 {
				break
			}
			lines = append(lines, fmt.Sprintf("#%d node%d %s item=%s peer=%d ok=%v %s verified-gossipers=%d unverifiable=%d", e.Seq, e.Node, e.Kind, ledger.Hex(e.Item), e.Peer, e.OK, e.Err, len(e.Goss), e.BadG))
		}
		return map[string]any{"execution": desc, "delivery_order": net.OrderString(), "events": lines}
	}
	for j := 0; j < t.k; j++ {
		if j == adv || j == it.origin || !reach[j] {
			continue
		}
		held := false
		if it.kind == "vrx" {
			_, err := net.Nodes[j].Book.ReadVertex(context.Background(), it.hash)
			held = err == nil
		} else {
			trxs, _ := net.Nodes[j].Cache.ReadTransactions(net.Users[2].Addr)
			for _, x := range trxs {
				if x.Hash == it.hash {
					held = true
				}
			}
		}
		if !held {
			r.Violate("C12", "suppressed/"+class, fmt.Sprintf("%s: honest node %d has an honest path to the origin but never got item %s", desc, j, ledger.Hex(it.hash)), witness())
		}
	}
	// an honest node that processed a message must have forwarded to every peer that is not covered by a VALID entry
	addrOf := func(i int) string { return net.Nodes[i].Actor.Addr }
	for _, e := range ev {
		if e.Kind != "send" || e.Item != it.hash || e.Node == adv {
			continue
		}
		for _, g := range e.Goss {
			if g == addrOf(e.Peer) {
				r.Violate("C12", "sent-to-validly-listed-node", fmt.Sprintf("%s: node %d sent the item to node %d which is listed by a valid entry", desc, e.Node, e.Peer), witness())
			}
		}
	}
}

// c12Unit: one honest hub H with peers; the adversary hands H an item with a forged list; H must process it and
// forward to exactly the peers that are not covered by entries that really verify.
func c12Unit(w *core.WorkerCtx, rng *rand.Rand, rounds int) {
	r := w.R
	// star: 0 = hub H, 1,2 = honest peers, 3 = adversary, 4 = origin (honest), origin adjacent to adversary only
	t := mkTopo("unit-star", 5, [][2]int{{0, 1}, {0, 2}, {0, 3}, {3, 4}})
	adv, origin, hub := 3, 4, 0
	net, err := vnet.Build(t.k, t.adj, adv)
	if err != nil {
		r.Inconc("cannot build unit network: " + err.Error())
		return
	}
	defer net.Close()
	hv := &c12Harvest{byAddr: map[string][]*protobufcompiled.Gossiper{}}
	for i := 0; i < rounds; i++ {
		class := c12Classes[i%len(c12Classes)]
		kind := "vrx"
		if i%3 == 2 {
			kind = "trx"
		}
		if class == "honest-signature-for-another-item" {
			// honest traffic first: an earlier item reaches the hub carrying genuine entries of the two peers (the harness
			// holds their keys; in a real network these are the entries the peers attach when they forward). The hub
			// verifies them - rightly - for that item. They are what the adversary replays on the next item.
			net.ResetExecution()
			if wa, err := c11Originate(net, origin, "vrx", 900000+i); err == nil {
				net.WaitSent()
				for _, m := range net.Pending() {
					if m.To == adv {
						net.Deliver(m)
						var msg protobufcompiled.VrxMsgGossip
						if proto.Unmarshal(m.Bytes, &msg) == nil {
							var es []*protobufcompiled.Gossiper
							for _, v := range []int{1, 2} {
								va := net.Nodes[v].Actor
								d, sg := va.W.Sign(append([]byte(va.Addr), wa.hash[:]...))
								es = append(es, &protobufcompiled.Gossiper{Address: va.Addr, Digest: d[:], Signature: sg})
							}
							hv.add(es)
							msg.Gossipers = append(msg.Gossipers, es...)
							wb, _ := proto.Marshal(&msg)
							net.Inject(adv, hub, "vrx", wa.hash, wb, false)
						}
					}
				}
				xw := &c11Exec{w: w, net: net, t: t, rng: rng, policy: "fifo"}
				xw.drive()
				// the two peers were (validly) listed for that item and never got it: hand it to them now
				c11Heal(net, adv)
				r.Count("c12_unit_warmups", 1)
			}
		}
		net.ResetExecution()
		it, err := c11Originate(net, origin, kind, i+1)
		if err != nil {
			continue
		}
		net.WaitSent()
		var got *vnet.Msg
		for _, m := range net.Pending() {
			if m.To == adv {
				net.Deliver(m)
				if m.Item == it.hash {
					got = m // (a late message of the warm-up item may be in flight too)
				}
			}
		}
		if got == nil {
			r.Note("the adversary did not receive the item")
			continue
		}
		var genuine []*protobufcompiled.Gossiper
		var list []*protobufcompiled.Gossiper
		victims := []int{1, 2}
		if class == "target-listed" {
			victims = []int{hub}
		}
		var b []byte
		if kind == "vrx" {
			var msg protobufcompiled.VrxMsgGossip
			proto.Unmarshal(got.Bytes, &msg)
			genuine = msg.Gossipers
			list = c12Forge(net, rng, class, it.hash, adv, victims, genuine, hv)
			msg.Gossipers = list
			b, _ = proto.Marshal(&msg)
		} else {
			var msg protobufcompiled.TrxMsgGossip
			proto.Unmarshal(got.Bytes, &msg)
			genuine = msg.Gossipers
			list = c12Forge(net, rng, class, it.hash, adv, victims, genuine, hv)
			msg.Gossipers = list
			b, _ = proto.Marshal(&msg)
		}
		hv.add(genuine)
		// reference: the set of entries that really verify for (address, this item)
		valid := map[string]bool{}
		for _, g := range list {
			if net.GossiperOK(g, it.hash) {
				valid[g.Address] = true
			}
		}
		net.Inject(adv, hub, kind, it.hash, b, false)
		x := &c11Exec{w: w, net: net, t: t, rng: rng, policy: "fifo"}
		if !x.drive() {
			r.Inconc("unit execution did not reach quiescence")
			continue
		}
		// harvest what came back to the adversary (entries of the hub and its peers for this item: legitimate later)
		for _, m := range net.Nodes[adv].Inbox {
			if m.Kind == "vrx" {
				var msg protobufcompiled.VrxMsgGossip
				if proto.Unmarshal(m.Bytes, &msg) == nil {
					hv.add(msg.Gossipers)
				}
			} else {
				var msg protobufcompiled.TrxMsgGossip
				if proto.Unmarshal(m.Bytes, &msg) == nil {
					hv.add(msg.Gossipers)
				}
			}
		}
		desc := fmt.Sprintf("unit: adversary hands hub an item (%s) with list class %s (%d entries, %d of them valid)", kind, class, len(list), len(valid))
		w.Mark("%s", desc)
		// the hub processed it?
		processed := false
		sentTo := map[int]bool{}
		for _, e := range net.Events() {
			if e.Node == hub && e.Item == it.hash {
				if (e.Kind == "addleaf" || e.Kind == "save-awaited") && e.OK {
					processed = true
				}
				if e.Kind == "send" {
					sentTo[e.Peer] = true
				}
			}
		}
		hubAddr := net.Nodes[hub].Actor.Addr
		r.Eval(1)
		r.Count("c12_unit_lists", 1)
		r.Nontriv(fmt.Sprintf("unit/%s/%s/entries%d/valid%d", class, kind, bucketN(len(list)), len(valid)))
		if valid[hubAddr] {
			r.Note("a forged list contained a valid entry of the hub itself: impossible without its key")
		}
		if !processed && !valid[hubAddr] {
			r.Violate("C12", "node-skipped-processing/"+class, fmt.Sprintf("%s: the hub did not process the item although no valid entry names it", desc), map[string]any{"list_class": class, "order": net.OrderString()})
		}
		if processed {
			var want, have []int
			for _, p := range t.adj[hub] {
				if !valid[net.Nodes[p].Actor.Addr] {
					want = append(want, p)
				}
				if sentTo[p] {
					have = append(have, p)
				}
			}
			sort.Ints(want)
			sort.Ints(have)
			if fmt.Sprint(want) != fmt.Sprint(have) {
				sig := "forward-suppressed-by-forged-entry/" + class
				if len(have) > len(want) {
					sig = "valid-entry-not-honoured/" + class
				}
				r.Violate("C12", sig, fmt.Sprintf("%s: the hub forwarded to peers %v, the entries that really verify leave peers %v to be informed", desc, have, want), map[string]any{"list_class": class, "order": net.OrderString()})
			}
		}
		if i < 3 && w.Batch == 0 {
			r.Sample(6, map[string]any{"unit_case": desc, "hub_forwarded_to": fmt.Sprint(sentTo)})
		}
		c11Heal(net, adv)
	}
}

// c12PullHarvest: the adversary collects a signature the victim issues for another purpose (the signed request with
// which a node pulls a missing parent) and presents it as the victim's gossiper entry for that very hash.
// Topology: O-M, O-N, M-N, M-V, N-V (M adversary). M gets item X first, baits V with a child of X (V asks its peers
// for X and thereby signs X's hash), then hands X to N listing V before O's own copy reaches N.
func c12PullHarvest(w *core.WorkerCtx, rng *rand.Rand, rounds int) {
	r := w.R
	// indexes: 0=O, 1=N, 2=V, 3=M
	t := mkTopo("pull-harvest", 4, [][2]int{{0, 3}, {0, 1}, {3, 1}, {3, 2}, {1, 2}})
	const O, N, V, M = 0, 1, 2, 3
	net, err := vnet.Build(t.k, t.adj, M)
	if err != nil {
		r.Inconc("cannot build network: " + err.Error())
		return
	}
	defer net.Close()
	for i := 0; i < rounds; i++ {
		net.ResetExecution()
		net.Nodes[M].Pulls = nil
		it, err := c11Originate(net, O, "vrx", 5000+i)
		if err != nil {
			continue
		}
		desc := fmt.Sprintf("pull-harvest round %d: M baits V to sign the hash of item %s, then lists V when handing the item to N", i, ledger.Hex(it.hash))
		w.Mark("%s", desc)
		net.WaitSent()
		var toN, got *vnet.Msg
		for _, m := range net.Pending() {
			if m.To == M {
				net.Deliver(m)
				got = m
			} else if m.To == N {
				toN = m // held back: the adversary is faster than the honest copy
			}
		}
		if got == nil || toN == nil {
			r.Note("pull-harvest: expected messages not in flight")
			continue
		}
		var msg protobufcompiled.VrxMsgGossip
		if proto.Unmarshal(got.Bytes, &msg) != nil {
			continue
		}
		// the bait: a valid vertex sealed by M on top of X
		advA := net.Nodes[M].Actor
		bt := ledger.ForgeTrx(net.Users[0], net.Users[1].Addr, fmt.Sprintf("bait %d", i), nil, spice.Melange{SupplementaryCurrency: 2}, time.Now().Add(-time.Minute))
		bait := ledger.ForgeVertex(advA, bt, it.hash, it.hash, msg.Vertex.Weight+1, time.Now().Add(-time.Second))
		d, sg := advA.W.Sign(append([]byte(advA.Addr), bait.Hash[:]...))
		bm := &protobufcompiled.VrxMsgGossip{Vertex: gossip.VerifVertexToProtoVertex(&bait), Gossipers: []*protobufcompiled.Gossiper{{Address: advA.Addr, Digest: d[:], Signature: sg}}}
		bb, _ := proto.Marshal(bm)
		net.Inject(M, V, "vrx", bait.Hash, bb, false)
		for _, m := range net.Pending() {
			if m.From == M && m.To == V {
				net.Deliver(m)
			}
		}
		// let V's pull goroutines run (they call the peers' GetVertex synchronously)
		for k := 0; k < 200 && len(net.Nodes[M].Pulls) == 0; k++ {
			time.Sleep(time.Millisecond)
		}
		time.Sleep(5 * time.Millisecond)
		var captured *protobufcompiled.SignedHash
		for _, p := range net.Nodes[M].Pulls {
			if string(p.Data) == string(it.hash[:]) && p.Address == net.Nodes[V].Actor.Addr {
				captured = p
			}
		}
		own := func() *protobufcompiled.Gossiper {
			d, s := advA.W.Sign(append([]byte(advA.Addr), it.hash[:]...))
			return &protobufcompiled.Gossiper{Address: advA.Addr, Digest: d[:], Signature: s}
		}
		list := []*protobufcompiled.Gossiper{own()}
		if captured != nil {
			list = append(list, &protobufcompiled.Gossiper{Address: captured.Address, Digest: captured.Hash, Signature: captured.Signature})
			// and the same signature under the digest an entry would carry
			dg, _ := advA.W.Sign(append([]byte(captured.Address), it.hash[:]...))
			list = append(list, &protobufcompiled.Gossiper{Address: captured.Address, Digest: dg[:], Signature: captured.Signature})
		}
		fm := proto.Clone(&msg).(*protobufcompiled.VrxMsgGossip)
		fm.Gossipers = list
		fb, _ := proto.Marshal(fm)
		net.Inject(M, N, "vrx", it.hash, fb, false)
		for _, m := range net.Pending() {
			if m.From == M && m.To == N {
				net.Deliver(m)
			}
		}
		// now the honest traffic, the held copy included
		x := &c11Exec{w: w, net: net, t: t, rng: rng, policy: "fifo"}
		if !x.drive() {
			r.Inconc("pull-harvest execution did not reach quiescence")
			continue
		}
		c11Retries(net, M)
		net.Settle()
		reach := honestReach(t, O, M)
		c12Judge(w, net, t, it, desc, M, reach, "pull-request-signature-as-entry")
		r.Eval(1)
		r.Count("c12_pull_harvest_executions", 1)
		if captured != nil {
			r.Count("c12_pull_requests_captured", 1)
		}
		r.Nontriv(fmt.Sprintf("pull-harvest/captured=%v", captured != nil))
		if i == 0 {
			r.Sample(8, map[string]any{"case": desc, "pull_request_captured": captured != nil, "delivery_order": net.OrderString()})
		}
		c11Heal(net, M)
	}
}

// c12Joining: a node joins (its peer table entry appears) while a relay is busy admitting an item whose gossiper list
// names the joining node with a forged entry. Topology O-M, O-R, M-R; H joins R. M gets X first (the honest copy to R
// is held back), hands X to R listing H; while R's ledger admits X, H becomes R's peer. R must forward X to H.
func c12Joining(w *core.WorkerCtx, rng *rand.Rand, rounds int) {
	r := w.R
	const O, R, H, M = 0, 1, 2, 3
	t := mkTopo("joining", 4, [][2]int{{O, M}, {O, R}, {M, R}})
	full := mkTopo("joining", 4, [][2]int{{O, M}, {O, R}, {M, R}, {R, H}})
	for i := 0; i < rounds; i++ {
		net, err := vnet.Build(t.k, t.adj, M)
		if err != nil {
			r.Inconc("cannot build network: " + err.Error())
			return
		}
		it, err := c11Originate(net, O, "vrx", 7000+i)
		if err != nil {
			net.Close()
			continue
		}
		variant := i % 3
		desc := fmt.Sprintf("joining round %d: H joins R while R admits item %s that M relayed with a forged entry of H (variant %d)", i, ledger.Hex(it.hash), variant)
		w.Mark("%s", desc)
		net.WaitSent()
		var got *vnet.Msg
		for _, m := range net.Pending() {
			if m.To == M {
				net.Deliver(m)
				got = m
			}
		}
		var msg protobufcompiled.VrxMsgGossip
		if got == nil || proto.Unmarshal(got.Bytes, &msg) != nil {
			net.Close()
			continue
		}
		advA, hA := net.Nodes[M].Actor, net.Nodes[H].Actor
		d, sg := advA.W.Sign(append([]byte(advA.Addr), it.hash[:]...))
		own := &protobufcompiled.Gossiper{Address: advA.Addr, Digest: d[:], Signature: sg}
		var forged *protobufcompiled.Gossiper
		switch variant {
		case 0: // the adversary's signature under H's address
			forged = &protobufcompiled.Gossiper{Address: hA.Addr, Digest: d[:], Signature: sg}
		case 1: // random bytes
			junk := make([]byte, 64)
			rng.Read(junk)
			dg := sha256.Sum256(append([]byte(hA.Addr), it.hash[:]...))
			forged = &protobufcompiled.Gossiper{Address: hA.Addr, Digest: dg[:], Signature: junk}
		default: // H's genuine signature, for another item
			var other ledger.H
			rng.Read(other[:])
			d2, s2 := hA.W.Sign(append([]byte(hA.Addr), other[:]...))
			forged = &protobufcompiled.Gossiper{Address: hA.Addr, Digest: d2[:], Signature: s2}
		}
		fm := proto.Clone(&msg).(*protobufcompiled.VrxMsgGossip)
		fm.Gossipers = []*protobufcompiled.Gossiper{own, forged}
		fb, _ := proto.Marshal(fm)
		joined := false
		net.OnAddLeaf = func(node int, v *accountant.Vertex) {
			if node == R && v.Hash == it.hash && !joined {
				joined = true
				net.Connect(R, H)
			}
		}
		net.Inject(M, R, "vrx", it.hash, fb, false)
		for _, m := range net.Pending() {
			if m.From == M && m.To == R {
				net.Deliver(m)
			}
		}
		x := &c11Exec{w: w, net: net, t: full, rng: rng, policy: "fifo"}
		if !x.drive() {
			r.Inconc("joining execution did not reach quiescence")
			net.Close()
			continue
		}
		c11Retries(net, M)
		net.Settle()
		net.OnAddLeaf = nil
		if joined {
			reach := honestReach(full, O, M)
			c12Judge(w, net, full, it, desc, M, reach, "forged-entry-of-a-joining-node")
		}
		r.Eval(1)
		r.Count("c12_joining_executions", 1)
		r.Nontriv(fmt.Sprintf("joining/variant%d/joined=%v", variant, joined))
		net.Close()
	}
}

// c12ListLengths: the relay pads its copy with N entries that its own throw-away keys signed for this very item, for
// list lengths around every round number (quick) or every length up to 260 (thorough, spread over the batches). Paw
// graph: origin 0, malicious relay 1, honest relay 2 (peer of both), node 3 behind relay 2. The forged copy reaches
// relay 2 before the origin's own copy: node 3 must get the item whatever N is.
func c12ListLengths(w *core.WorkerCtx, rng *rand.Rand) {
	t := smallTopos[6]
	var lengths []int
	if w.Thorough() {
		for n := 1 + w.Batch%w.Batches; n <= 260; n += w.Batches {
			lengths = append(lengths, n)
		}
	} else {
		for _, c := range []int{2, 8, 16, 32, 50, 64, 100, 128, 200, 256} {
			lengths = append(lengths, c-1, c, c+1)
		}
	}
	net, err := vnet.Build(t.k, t.adj, 1)
	if err != nil {
		w.R.Inconc("cannot build network: " + err.Error())
		return
	}
	defer net.Close()
	hv := &c12Harvest{byAddr: map[string][]*protobufcompiled.Gossiper{}}
	for i, n := range lengths {
		kind := []string{"vrx", "trx"}[i%2]
		if !w.Thorough() || i%3 == 0 {
			// both kinds of item for the same length
			c12Execution(w, net, t, rng, 1, 0, []string{"trx", "vrx"}[i%2], fmt.Sprintf("sybil-entries:%d", n), hv, 50000+2*i, false)
			c11Heal(net, 1)
		}
		c12Execution(w, net, t, rng, 1, 0, kind, fmt.Sprintf("sybil-entries:%d", n), hv, 50001+2*i, false)
		c11Heal(net, 1)
		w.R.Count("c12_list_length_executions", 1)
	}
}

// c12AnnounceCollision: the adversary is a registered node too. It announces itself (validly signed with its own key)
// under the URL of an honest peer of the relay, then hands the relay an item whose list carries only its own valid
// entry. Its announcement may add the adversary to the relay's peer table; it must not take the honest peer out of it,
// and the item must be forwarded to every honest peer that no valid entry covers.
func c12AnnounceCollision(w *core.WorkerCtx) {
	r := w.R
	rig, err := svc.New(4, 60, 2048)
	if err != nil {
		r.Inconc("cannot build the node: " + err.Error())
		return
	}
	defer rig.Close()
	ctx := context.Background()
	conn := func(owner *ledger.Actor, url string) *protobufcompiled.ConnectionData {
		at := uint64(time.Now().UnixNano())
		data := append([]byte(owner.Addr), []byte(url)...)
		data = binary.LittleEndian.AppendUint64(data, at)
		d, s := owner.W.Sign(data)
		return &protobufcompiled.ConnectionData{PublicAddress: owner.Addr, Url: url, CreatedAt: at, Digest: d[:], Signature: s}
	}
	before := rig.G.Peers()
	for round := 0; round < w.Pick(6, 30); round++ {
		adv := ledger.NewActor("adversary")
		victim := round % len(rig.Peers)
		url := "peer-" + rig.Peers[victim].Name
		w.Mark("announce collision round %d: adversary announces under %s", round, url)
		var aerr error
		if round%2 == 0 {
			_, aerr = rig.Gossip.Announce(ctx, conn(adv, url))
		} else {
			_, aerr = rig.Gossip.Discover(ctx, conn(adv, url))
		}
		after := rig.G.Peers()
		for a, u := range before {
			if after[a] != u {
				r.Violate("C12", "honest-peer-evicted-by-announcement", fmt.Sprintf("an announcement validly signed by another wallet under the URL %s (answer: %v) took the honest peer %s out of the relay's peer table", url, aerr, u), nil)
			}
		}
		// an item with the adversary's own valid entry only
		tr := ledger.ForgeTrx(rig.Users[1], rig.Users[2].Addr, fmt.Sprintf("announce collision %d", round), []byte("contract"), spice.Melange{}, time.Now().Add(-time.Minute))
		pt, err := transformers.TrxToProtoTrx(tr)
		if err != nil {
			continue
		}
		d, sg := adv.W.Sign(append([]byte(adv.Addr), tr.Hash[:]...))
		rig.Gossip.GossipTrx(ctx, &protobufcompiled.TrxMsgGossip{Trx: pt, Gossipers: []*protobufcompiled.Gossiper{{Address: adv.Addr, Digest: d[:], Signature: sg}}})
		time.Sleep(2 * time.Millisecond) // the forwards run in goroutines
		for pi, p := range rig.Peers {
			got := 0
			for k := 0; k < 200 && got == 0; k++ {
				if got = p.TrxCopies(pt.Hash); got == 0 {
					time.Sleep(time.Millisecond)
				}
			}
			r.Eval(1)
			if got == 0 {
				r.Violate("C12", "suppressed/announcement-under-an-honest-url", fmt.Sprintf("after an adversary announced itself under the URL of honest peer %d, an item listing only the adversary's own entry was not forwarded to honest peer %d", victim, pi), nil)
			}
		}
		r.Count("c12_announce_collision_rounds", 1)
		r.Nontriv(fmt.Sprintf("announce-collision/rpc%d/victim%d/answer-ok=%v", round%2, victim, aerr == nil))
		rig.Cache.RemoveAwaitedTransaction(tr.Hash, rig.Users[2].Addr)
	}
}

func c12Worker(w *core.WorkerCtx) {
	if w.Batch == 2 || (w.Thorough() && w.Batch%4 == 2) {
		c12AnnounceCollision(w)
	}
	if w.Batch == 1 || w.Thorough() {
		c12ListLengths(w, core.Rand(w.Seed, "C12len", w.Batch))
	}
	c12Unit(w, core.Rand(w.Seed, "C12unit", w.Batch), w.Pick(20, 400))
	if w.Batch%2 == 0 {
		c12PullHarvest(w, core.Rand(w.Seed, "C12pull", w.Batch), w.Pick(4, 40))
	} else {
		c12Joining(w, core.Rand(w.Seed, "C12join", w.Batch), w.Pick(3, 30))
	}
	rng := core.Rand(w.Seed, "C12", w.Batch)
	// network level: adversary at every position of small graphs (the origin elsewhere)
	topos := []topo{
		mkTopo("kite", 4, [][2]int{{0, 1}, {0, 3}, {3, 1}, {1, 2}}), // origin 0, adversary 3 next to origin and relay 1; node 2 behind relay 1
		smallTopos[5], smallTopos[6], smallTopos[7], smallTopos[8], smallTopos[2],
		largeTopo(rng, 5, "ring"), largeTopo(rng, 6, "random"),
	}
	seq := 1000
	for ti, t := range topos {
		if ti%w.Batches != w.Batch%w.Batches && !(w.Batches < len(topos) && ti%w.Batches == w.Batch) {
			continue
		}
		for adv := 0; adv < t.k; adv++ {
			if t.name == "kite" && adv != 3 {
				continue
			}
			net, err := vnet.Build(t.k, t.adj, adv)
			if err != nil {
				w.R.Inconc("cannot build network: " + err.Error())
				continue
			}
			hv := &c12Harvest{byAddr: map[string][]*protobufcompiled.Gossiper{}}
			execs := w.Pick(6, 60)
			for i := 0; i < execs; i++ {
				origin := rng.Intn(t.k)
				for origin == adv {
					origin = rng.Intn(t.k)
				}
				if t.name == "kite" {
					origin = 0
				}
				// the adversary must be adjacent to the origin to get the item first; otherwise it simply relays late
				kind := "vrx"
				if i%4 == 3 {
					kind = "trx"
				}
				seq++
				c12Execution(w, net, t, rng, adv, origin, kind, c12Classes[(i+ti)%len(c12Classes)], hv, seq, i%7 == 6)
				c11Heal(net, adv)
				if i == 0 && (t.name == "kite" || w.Thorough()) {
					seq++
					c12Execution(w, net, t, rng, adv, origin, "vrx", c12Poisoned, hv, seq, false)
					c11Heal(net, adv)
				}
			}
			net.Close()
		}
	}
}

func init() {
	core.Register(&core.Check{
		Spec: core.Spec{
			Prop:        "C12",
			Rule:        "Same virtual network as C11 with one position played by the harness as a malicious relay (it owns that position's keys only). List classes: random bytes; well-formed entries with a wrong digest; honest nodes' genuine signatures for other items (harvested from earlier traffic), also re-labelled with this item's digest; honest addresses signed with the adversary's key; genuine entries with address/signature swapped between nodes; copies of its own entry also under a victim's address; a signature the victim issued for another purpose (its signed missing-parent request for the item's hash, provoked with a bait vertex) presented as its entry; mixtures with nil/zero parts; the target itself listed; the honest entries for this very item replayed (legitimate); empty list. Unit level: the relay hands a hub an item with such a list: the hub must process it and forward to exactly the peers not covered by entries that really verify (reference = the harness's own ed25519 check of address|item hash). Network level: the relay, adjacent to the origin, gets the item first and injects forged copies to all its neighbours before any honest copy is delivered, or just drops; afterwards PRNG delivery order: every honest node with an honest path to the origin must hold the item and nobody may be skipped. Non-trivial = every list/execution; distinct by (class, item kind, topology, relay position, origin). Two further adversaries: it provokes and harvests the victim's signed missing-parent request (bait vertex) and presents that signature as the victim's entry; and it lists a node that is not yet the relay's peer and joins (peer table entry added from a hook inside the relay's ledger admission) while the relay admits the item. List class sybil-entries pads the list with genuinely signed entries of throw-away wallets that are nobody's peer. The unit part first lets the hub verify genuine entries of its peers for an earlier item and then replays exactly those entries on the next item. List lengths: on the paw graph the relay pads its copy with exactly N genuinely signed throw-away entries, N around every round number (quick) or every N up to 260 (thorough). Announcement collision: the adversary announces itself (validly signed) under the URL of an honest peer, then hands over an item listing only its own entry: the honest peer stays in the peer table and gets the item. The garbage class carries entries whose address decodes to 0-8 bytes or is no base58 at all, with random and with matching digests.",
			Assumptions: []string{"the adversary controls one relay position and cannot forge ed25519 signatures of honest nodes", "lists with nil or short-digest entries are judged by C15 (crash safety)"},
			MinEvals:    40, MinNontriv: 15,
		},
		Plan: func(tier string) core.Plan {
			if tier == "thorough" {
				return core.Plan{Batches: 8, Parallel: 8, Timeout: 60 * time.Minute}
			}
			return core.Plan{Batches: 8, Parallel: 8, Timeout: 10 * time.Minute}
		},
		Worker: c12Worker,
	})
}
