package checks

import (
	"bytes"
	"encoding/hex"
	"fmt"
	"math/rand"
	"os"
	"path/filepath"
	"sync"
	"time"

	"github.com/bartossh/Computantis/src/aeswrapper"
	"github.com/bartossh/Computantis/src/fileoperations"
	"github.com/bartossh/Computantis/src/wallet"

	"verifharness/core"
)

// C20 — a wallet file yields the original wallet or an error, never anything else.

type c20Out struct {
	w        wallet.Wallet
	err      error
	panicked any
}

func c20Read(h fileoperations.Helper) (o c20Out) {
	defer func() {
		if p := recover(); p != nil {
			o.panicked = p
		}
	}()
	o.w, o.err = h.ReadWallet()
	return
}

func c20Decrypt(key, data []byte) (out []byte, err error, panicked any) {
	defer func() {
		if p := recover(); p != nil {
			panicked = p
		}
	}()
	out, err = aeswrapper.New().Decrypt(key, data)
	return
}

func c20Region(pos, n int) string {
	switch {
	case pos < 12:
		return "nonce"
	case pos >= n-16:
		return "tag"
	default:
		return "body"
	}
}

// c20Concurrent: several wallets saved at the same moment in to different files of one directory (shared and distinct
// keys), then read back: every file holds exactly the wallet that was saved in to it.
func c20Concurrent(w *core.WorkerCtx, rng *rand.Rand) {
	r := w.R
	sealer := aeswrapper.New()
	rounds := w.Pick(6, 60)
	for round := 0; round < rounds; round++ {
		k := 2 + rng.Intn(7)
		shared := make([]byte, 16+16*(round%2))
		rng.Read(shared)
		type job struct {
			w0 wallet.Wallet
			h  fileoperations.Helper
		}
		jobs := make([]job, k)
		dir := filepath.Join(w.Scratch, fmt.Sprintf("conc_%d", round))
		os.MkdirAll(dir, 0o755)
		for i := range jobs {
			w0, err := wallet.New()
			if err != nil {
				r.Inconc("wallet.New failed: " + err.Error())
				return
			}
			key := shared
			if round%3 == 2 {
				key = make([]byte, len(shared))
				rng.Read(key)
			}
			path := filepath.Join(dir, fmt.Sprintf("w%d", i))
			jobs[i] = job{w0, fileoperations.New(fileoperations.Config{WalletPath: path, WalletPasswd: hex.EncodeToString(key), WalletPemPath: path + ".pem"}, sealer)}
		}
		w.Mark("concurrent saves round %d wallets %d", round, k)
		start := make(chan struct{})
		errs := make([]error, k)
		perr := make([]error, k)
		var wg sync.WaitGroup
		for i := range jobs {
			wg.Add(1)
			go func(i int) {
				defer wg.Done()
				<-start
				for rep := 0; rep < 3; rep++ {
					errs[i] = jobs[i].h.SaveWallet(&jobs[i].w0)
					perr[i] = jobs[i].h.SaveToPem(&jobs[i].w0)
				}
			}(i)
		}
		close(start)
		wg.Wait()
		for i := range jobs {
			r.Eval(1)
			r.Count("c20_concurrent_saves", 1)
			r.Nontriv(fmt.Sprintf("concurrent/%d-wallets/sharedkey=%v", k, round%3 != 2))
			if errs[i] != nil {
				r.Violate("C20", "concurrent/save-failed", fmt.Sprintf("SaveWallet failed while %d wallets were saved in to different files of one directory: %v", k, errs[i]), nil)
				continue
			}
			o := c20Read(jobs[i].h)
			switch {
			case o.panicked != nil:
				r.Violate("C20", "panic/concurrent-save", fmt.Sprintf("ReadWallet panicked after concurrent saves: %v", o.panicked), nil)
			case o.err != nil:
				r.Violate("C20", "concurrent/saved-wallet-unreadable", fmt.Sprintf("a wallet saved (without error) at the same time as %d others in the same directory cannot be read back: %v", k-1, o.err), nil)
			case !bytes.Equal(o.w.Private, jobs[i].w0.Private) || o.w.Address() != jobs[i].w0.Address():
				r.Violate("C20", "concurrent/different-wallet-returned", fmt.Sprintf("file %d of %d saved at the same time reads back as a different wallet (address %s instead of %s)", i, k, o.w.Address(), jobs[i].w0.Address()), nil)
			}
			if perr[i] == nil {
				wp, err := jobs[i].h.ReadFromPem()
				if err != nil || !bytes.Equal(wp.Private, jobs[i].w0.Private) || !bytes.Equal(wp.Public, jobs[i].w0.Public) {
					r.Violate("C20", "concurrent/pem-differs", fmt.Sprintf("PEM file %d of %d saved at the same time reads back differently (err=%v)", i, k, err), nil)
				}
			} else {
				r.Violate("C20", "concurrent/pem-save-failed", fmt.Sprintf("SaveToPem failed during concurrent saves: %v", perr[i]), nil)
			}
		}
		os.RemoveAll(dir)
	}
}

// c20BackToBack: several wallet files are read one right after the other and all results are kept; at the end every
// result must still be the wallet that was saved in to its file (reads must not share state through what they return).
func c20BackToBack(w *core.WorkerCtx, rng *rand.Rand) {
	r := w.R
	sealer := aeswrapper.New()
	rounds := w.Pick(4, 40)
	for round := 0; round < rounds; round++ {
		k := 2 + rng.Intn(6)
		key := make([]byte, 16+16*(round%2))
		rng.Read(key)
		dir := filepath.Join(w.Scratch, fmt.Sprintf("b2b_%d", round))
		os.MkdirAll(dir, 0o755)
		var ws []wallet.Wallet
		var hs []fileoperations.Helper
		for i := 0; i < k; i++ {
			w0, err := wallet.New()
			if err != nil {
				return
			}
			path := filepath.Join(dir, fmt.Sprintf("w%d", i))
			// the wallets of one directory are named the way operators name them: numbered, by extension, with several
			// dots, without any; every second round the names differ only in what follows their last dot
			pemPath := path + ".pem"
			if round%2 == 1 {
				pemPath = filepath.Join(dir, []string{"node.1", "node.2", "wallet.pem", "wallet.key", "plain", "a.b.c", "a.b.d", ".hidden"}[i%8])
			}
			h := fileoperations.New(fileoperations.Config{WalletPath: path, WalletPasswd: hex.EncodeToString(key), WalletPemPath: pemPath}, sealer)
			if h.SaveWallet(&w0) != nil || h.SaveToPem(&w0) != nil {
				continue
			}
			ws = append(ws, w0)
			hs = append(hs, h)
		}
		w.Mark("back to back reads round %d wallets %d", round, len(ws))
		got := make([]c20Out, len(ws))
		pems := make([]wallet.Wallet, len(ws))
		perr := make([]error, len(ws))
		for i := range hs {
			got[i] = c20Read(hs[i])
		}
		for i := range hs {
			pems[i], perr[i] = hs[i].ReadFromPem()
		}
		for i := range ws {
			r.Eval(1)
			r.Count("c20_back_to_back_reads", 1)
			r.Nontriv(fmt.Sprintf("back-to-back/%d-wallets", len(ws)))
			if got[i].err != nil || got[i].panicked != nil {
				r.Violate("C20", "roundtrip/gob-differs", fmt.Sprintf("reading wallet %d of %d back to back failed: %v %v", i, len(ws), got[i].err, got[i].panicked), nil)
				continue
			}
			if !bytes.Equal(got[i].w.Private, ws[i].Private) || !bytes.Equal(got[i].w.Public, ws[i].Public) || got[i].w.Address() != ws[i].Address() {
				r.Violate("C20", "roundtrip/returned-wallet-changed-by-a-later-read", fmt.Sprintf("wallet %d of %d files read one after the other no longer holds the keys saved in to its file once the others were read (address %s, saved %s)", i, len(ws), got[i].w.Address(), ws[i].Address()), nil)
			}
			if perr[i] != nil || !bytes.Equal(pems[i].Private, ws[i].Private) || !bytes.Equal(pems[i].Public, ws[i].Public) {
				r.Violate("C20", "roundtrip/pem-wallet-changed-by-a-later-read", fmt.Sprintf("PEM wallet %d of %d read one after the other differs from what was saved (err=%v)", i, len(ws), perr[i]), nil)
			}
		}
		os.RemoveAll(dir)
	}
}

// c20Held: a wallet as ReadWallet returned it, next to copies of the keys that were saved in to that file.
type c20Held struct {
	idx       int
	got       wallet.Wallet
	priv, pub []byte
	addr      string
}

func c20Worker(w *core.WorkerCtx) {
	r := w.R
	rng := core.Rand(w.Seed, "C20", w.Batch)
	dir := w.Scratch
	c20Concurrent(w, core.Rand(w.Seed, "C20conc", w.Batch))
	c20BackToBack(w, core.Rand(w.Seed, "C20b2b", w.Batch))
	wallets := w.Pick(5, 80)
	sealer := aeswrapper.New()
	var held []c20Held
	for wi := 0; wi < wallets; wi++ {
		keyLen := 32
		if (wi+w.Batch)%2 == 1 {
			keyLen = 16
		}
		key := make([]byte, keyLen)
		rng.Read(key)
		w0, err := wallet.New()
		if err != nil {
			r.Inconc("wallet.New failed: " + err.Error())
			return
		}
		path := filepath.Join(dir, fmt.Sprintf("wallet_%d", wi))
		h := fileoperations.New(fileoperations.Config{WalletPath: path, WalletPasswd: hex.EncodeToString(key), WalletPemPath: path + ".pem"}, sealer)
		w.Mark("wallet %d keylen %d save", wi, keyLen)
		if err := h.SaveWallet(&w0); err != nil {
			r.Violate("C20", "roundtrip/save-failed", fmt.Sprintf("SaveWallet with a %d byte key failed: %v", keyLen, err), nil)
			continue
		}
		r.Eval(1)
		o := c20Read(h)
		if o.panicked != nil || o.err != nil || !bytes.Equal(o.w.Private, w0.Private) || !bytes.Equal(o.w.Public, w0.Public) || o.w.Address() != w0.Address() {
			r.Violate("C20", "roundtrip/gob-differs", fmt.Sprintf("save/read with the same %d byte key: err=%v panic=%v equal-private=%v", keyLen, o.err, o.panicked, bytes.Equal(o.w.Private, w0.Private)), nil)
		}
		r.Nontriv(fmt.Sprintf("roundtrip/gob/%d", keyLen))
		// wallets read earlier stay what they were: a later read must not change a value already handed out
		if o.err == nil && o.panicked == nil {
			held = append(held, c20Held{wi, o.w, append([]byte{}, w0.Private...), append([]byte{}, w0.Public...), w0.Address()})
		}
		for hi := range held {
			hd := &held[hi]
			r.Eval(1)
			if !bytes.Equal(hd.got.Private, hd.priv) || !bytes.Equal(hd.got.Public, hd.pub) || hd.got.Address() != hd.addr {
				r.Violate("C20", "roundtrip/returned-wallet-changed-by-a-later-read", fmt.Sprintf("the wallet returned for file %d changed after wallet file %d was read (address now %s, was %s)", hd.idx, wi, hd.got.Address(), hd.addr), nil)
				hd.priv, hd.pub, hd.addr = append([]byte{}, hd.got.Private...), append([]byte{}, hd.got.Public...), hd.got.Address()
			}
		}
		r.Count("c20_held_wallets_rechecked", len(held))
		// PEM round trip
		r.Eval(1)
		if err := h.SaveToPem(&w0); err != nil {
			r.Violate("C20", "roundtrip/pem-save-failed", err.Error(), nil)
		} else {
			wp, err := h.ReadFromPem()
			if err != nil || !bytes.Equal(wp.Private, w0.Private) || !bytes.Equal(wp.Public, w0.Public) || wp.Address() != w0.Address() {
				r.Violate("C20", "roundtrip/pem-differs", fmt.Sprintf("PEM save/read: err=%v", err), nil)
			}
			r.Nontriv("roundtrip/pem")
		}
		raw, err := os.ReadFile(path)
		if err != nil {
			r.Inconc("cannot read back the wallet file: " + err.Error())
			return
		}
		n := len(raw)
		r.Count("file_bytes", n)
		// the modification time of the file as it was saved: altered content of the same length is put in place with this
		// time (what bit rot, a time-preserving copy or a rewrite within one clock tick leave behind), so that nothing but
		// the content tells the altered file from the one that was read before
		var savedAt time.Time
		if fi, err := os.Stat(path); err == nil {
			savedAt = fi.ModTime()
		}

		judge := func(kind string, pos int, desc string, data []byte, hh fileoperations.Helper, useKey []byte) {
			r.Eval(1)
			w.Mark("wallet %d %s pos %d", wi, kind, pos)
			if data != nil {
				if err := os.WriteFile(path, data, 0o644); err != nil {
					r.Inconc("cannot write scratch wallet file: " + err.Error())
					return
				}
				if len(data) == n && !savedAt.IsZero() {
					if os.Chtimes(path, savedAt, savedAt) == nil {
						r.Count("c20_altered_in_place_same_size_and_time", 1)
					}
				}
			}
			o := c20Read(hh)
			witness := map[string]any{"kind": kind, "pos": pos, "file_len": n, "key_len": keyLen, "desc": desc, "file_hex": hex.EncodeToString(data)}
			switch {
			case o.panicked != nil:
				r.Violate("C20", "panic/"+kind, fmt.Sprintf("ReadWallet panicked on %s: %v", desc, o.panicked), witness)
			case o.err == nil:
				same := bytes.Equal(o.w.Private, w0.Private)
				r.Violate("C20", "wallet-returned/"+kind, fmt.Sprintf("ReadWallet returned a wallet (identical=%v) for %s", same, desc), witness)
			}
			// the same through Decrypt directly
			if data != nil {
				_, derr, p := c20Decrypt(useKey, data)
				if p != nil {
					r.Violate("C20", "panic/decrypt/"+kind, fmt.Sprintf("Decrypt panicked on %s: %v", desc, p), witness)
				} else if derr == nil {
					r.Violate("C20", "decrypt-accepted/"+kind, fmt.Sprintf("Decrypt accepted %s", desc), witness)
				}
			}
			reg := ""
			if kind != "wrongkey" && kind != "keybit" {
				reg = c20Region(pos, n)
			}
			r.Nontriv(fmt.Sprintf("%s/%d/%s/k%d", kind, pos, reg, keyLen))
		}

		// every truncation length 0..n-1
		for l := 0; l < n; l++ {
			judge("truncate", l, fmt.Sprintf("file truncated to %d of %d bytes", l, n), append([]byte{}, raw[:l]...), h, key)
		}
		// every position x 4 single byte changes
		for pos := 0; pos < n; pos++ {
			for mi, f := range []func(b byte) byte{
				func(b byte) byte { return b ^ 0xFF },
				func(b byte) byte { return b ^ 0x01 },
				func(b byte) byte { return b + 1 },
				func(b byte) byte { return b ^ byte(1+rng.Intn(255)) },
			} {
				d := append([]byte{}, raw...)
				d[pos] = f(d[pos])
				judge(fmt.Sprintf("flip%d", mi), pos, fmt.Sprintf("byte %d of %d changed from %02x to %02x", pos, n, raw[pos], d[pos]), d, h, key)
			}
		}
		// extension by trailing bytes
		for _, extra := range []int{1, 12, 16} {
			d := append(append([]byte{}, raw...), make([]byte, extra)...)
			judge("extend", n+extra, fmt.Sprintf("file extended by %d zero bytes", extra), d, h, key)
		}
		// wrong keys: every one bit neighbour of the right key and random keys of both lengths
		os.WriteFile(path, raw, 0o644)
		for bit := 0; bit < keyLen*8; bit++ {
			k2 := append([]byte{}, key...)
			k2[bit/8] ^= 1 << (bit % 8)
			h2 := fileoperations.New(fileoperations.Config{WalletPath: path, WalletPasswd: hex.EncodeToString(k2)}, sealer)
			judge("keybit", bit, fmt.Sprintf("key with bit %d flipped", bit), nil, h2, k2)
			if _, derr, p := c20Decrypt(k2, raw); p != nil || derr == nil {
				r.Violate("C20", "decrypt-accepted/keybit", fmt.Sprintf("Decrypt with key bit %d flipped: err=%v panic=%v", bit, derr, p), nil)
			}
		}
		for i := 0; i < 64; i++ {
			kl := 16 + 16*rng.Intn(2)
			k2 := make([]byte, kl)
			rng.Read(k2)
			switch {
			case i == 0 && keyLen == 32:
				k2 = append([]byte{}, key[:16]...) // prefix of the right key
			case i == 1 && keyLen == 16:
				k2 = append(append([]byte{}, key...), make([]byte, 16)...) // the right key extended by zero bytes
			case i == 2 && keyLen == 16:
				k2 = append(append([]byte{}, key...), key...) // the right key twice
			case i == 3 && keyLen == 32:
				k2 = append(append([]byte{}, key[:16]...), make([]byte, 16)...) // first half of the right key, zero tail
			case i == 4 && keyLen == 32:
				k2 = append(make([]byte, 16), key[16:]...) // zero head, second half of the right key
			}
			if bytes.Equal(k2, key) {
				continue
			}
			h2 := fileoperations.New(fileoperations.Config{WalletPath: path, WalletPasswd: hex.EncodeToString(k2)}, sealer)
			judge("wrongkey", i, fmt.Sprintf("wrong %d byte key", kl), nil, h2, k2)
		}
		// the untouched file still reads back (the harness did not destroy it)
		o = c20Read(h)
		if o.err != nil || !bytes.Equal(o.w.Private, w0.Private) {
			r.Violate("C20", "roundtrip/gob-differs", "the restored original file no longer reads back", nil)
		}
		if wi == 0 {
			r.Sample(3, map[string]any{"wallet_address": w0.Address(), "key_len": keyLen, "file_len": n, "cases": "truncations 0..n-1, 4 single-byte changes at every offset, extensions, all 1-bit key neighbours, 64 random keys"})
		}
		os.Remove(path)
		os.Remove(path + ".pem")
		os.Remove(path + ".pem.pub")
	}
	r.Count("wallets", wallets)
}

func init() {
	core.Register(&core.Check{
		Spec: core.Spec{
			Prop:        "C20",
			Rule:        "For every generated wallet (16 and 32 byte keys alternating): save/read round trip through encrypted GOB and PEM must return identical keys and address; then the encrypted file is replaced by every truncation 0..len-1, by 4 different single byte changes at every offset, by zero extensions, and read with every 1-bit neighbour of the key and 64 PRNG keys: ReadWallet (and Decrypt directly) must return an error; a returned wallet or a panic (recover) is a violation. Exhaustive over offsets and key bits for each wallet. Besides: 2-8 wallets saved at the same moment (3 times each, GOB and PEM) in to different files of one directory, with a shared or with distinct keys, must each read back as the wallet that was saved in to that file. Every wallet returned by ReadWallet is kept and compared again with the saved keys after every later read (a value handed out must not change). Non-trivial = every corrupted/truncated/wrong-key case; distinct by (kind, offset, file region, key length). Several wallet files read one right after the other (no collection in between) must each still hold the keys saved in to them. Wrong keys include relatives of the right key: its zero extension, its doubling, its halves with a zero head or tail. PEM files of one directory are also named the way operators name them (names that differ only after the last dot). Altered content of the same length is put in place with the modification time of the saved file, so that nothing but the content tells it from the file read before.",
			Assumptions: []string{"AES-GCM tag forgery probability is negligible", "wallets come from wallet.New (crypto/rand), keys from the seeded PRNG"},
			Exhaustive:  true,
			MinEvals:    2000, MinNontriv: 500,
		},
		Plan: func(tier string) core.Plan {
			if tier == "thorough" {
				return core.Plan{Batches: 14, Parallel: 14, Timeout: 20 * time.Minute}
			}
			return core.Plan{Batches: 4, Parallel: 4, Timeout: 5 * time.Minute}
		},
		Worker: c20Worker,
		OnCrash: func(c core.Crash, res *core.Result) {
			if !c.TimedOut && (containsAny(c.Stderr, "panic:", "fatal error:")) {
				res.Violate("C20", "crash/"+core.TopRepoFrame(c.Stderr), "worker process crashed while reading a wallet file: "+core.CrashHeadline(c.Stderr)+"; last mark: "+c.LastMark, map[string]any{"marks": c.Marks})
				return
			}
			res.Inconc(fmt.Sprintf("batch %d ended abnormally (timeout=%v): %s", c.Batch, c.TimedOut, core.CrashHeadline(c.Stderr)))
		},
	})
}
