package checks

import (
	"context"
	"crypto/sha256"
	"encoding/binary"
	"fmt"
	"math/rand"
	"net"
	"strings"
	"sync"
	"sync/atomic"
	"time"

	"github.com/bartossh/Computantis/src/accountant"
	"github.com/bartossh/Computantis/src/cache"
	"github.com/bartossh/Computantis/src/gossip"
	"github.com/bartossh/Computantis/src/pipe"
	"github.com/bartossh/Computantis/src/protobufcompiled"
	"github.com/bartossh/Computantis/src/serializer"
	"github.com/bartossh/Computantis/src/spice"
	"github.com/bartossh/Computantis/src/transformers"
	"github.com/bartossh/Computantis/src/wallet"
	"google.golang.org/grpc"
	"google.golang.org/grpc/credentials/insecure"
	"google.golang.org/grpc/test/bufconn"
	"google.golang.org/protobuf/proto"
	"google.golang.org/protobuf/types/known/emptypb"

	"verifharness/core"
	"verifharness/ledger"
	"verifharness/svc"
)

// C15 — no request can crash a node.

type c15env struct {
	tail  []*protobufcompiled.Vertex // vertices a malicious peer keeps streaming after the shaped one
	w     *core.WorkerCtx
	rig   *svc.Rig
	rng   *rand.Rand
	addrs []string
	last  *svc.State // state after the previous call
	seq   int
	// firstSeen: when an awaiting cache entry (address|hash) was first observed
	firstSeen map[string]time.Time
	// keep: awaiting transactions that later request shapes refer to (never drained)
	keep map[[32]byte]bool
}

// shortKeyAddress is a well formed address (valid version and checksum) of a key that is not 32 bytes long.
func shortKeyAddress(n int) string {
	key := make([]byte, n)
	for i := range key {
		key[i] = byte(i + 1)
	}
	vers := append([]byte{0}, key...)
	h1 := sha256.Sum256(vers)
	h2 := sha256.Sum256(h1[:])
	return string(serializer.Base58Encode(append(vers, h2[:4]...)))
}

func (e *c15env) bytesShapes(valid []byte, withHuge bool) [][]byte {
	mk := func(n int) []byte {
		b := make([]byte, n)
		e.rng.Read(b)
		return b
	}
	out := [][]byte{nil, {}, mk(1), mk(31), mk(32), mk(33), mk(64)}
	if withHuge {
		out = append(out, mk(1<<20))
	}
	if valid != nil {
		out = append(out, valid)
	}
	return out
}

func (e *c15env) stringShapes(valid string) []string {
	out := []string{"", "junk-not-base58-0OIl", valid, shortKeyAddress(16), shortKeyAddress(33), strings.Repeat("1", 70)}
	// well formed base58 that decodes to fewer bytes than version + checksum, exactly as many, one more
	for _, n := range []int{1, 3, 4, 5} {
		b := make([]byte, n)
		for i := range b {
			b[i] = byte(7*i + n)
		}
		out = append(out, string(serializer.Base58Encode(b)))
	}
	out = append(out, "1111")
	return out
}

func shapeName(b []byte) string {
	if b == nil {
		return "nil"
	}
	return fmt.Sprintf("len%d", len(b))
}

// call runs one handler invocation under recover and judges it.
func (e *c15env) call(svcName, rpc, shape string, mayChange bool, f func() (any, error)) {
	r := e.w.R
	e.seq++
	e.w.Mark("%s.%s %s", svcName, rpc, shape)
	before := e.last
	if before == nil {
		before, _ = e.rig.State(e.addrs)
	}
	if before != nil {
		e.noteAwaiting(before)
	}
	var err error
	var panicked any
	var stack string
	func() {
		defer func() {
			if p := recover(); p != nil {
				panicked = p
				stack = firstRepoFrame()
			}
		}()
		_, err = f()
	}()
	r.Eval(1)
	r.Count("c15_calls", 1)
	outcome := "ok"
	if err != nil {
		outcome = "error"
	}
	if panicked != nil {
		outcome = "panic"
		r.Violate("C15", fmt.Sprintf("panic/%s.%s/%s", svcName, rpc, stack), fmt.Sprintf("%s.%s panicked on request shape [%s]: %v", svcName, rpc, shape, panicked), map[string]any{"service": svcName, "rpc": rpc, "shape": shape})
	}
	r.Nontriv(fmt.Sprintf("%s.%s/%s/%s", svcName, rpc, shape, outcome))
	after, derr := e.rig.State(e.addrs)
	if after != nil {
		e.noteAwaiting(after)
	}
	if derr != nil || before == nil {
		r.Inconc("state snapshot failed")
		e.last = nil
		return
	}
	if (err != nil || panicked != nil) && !mayChange && after.Whole != before.Whole {
		// let background goroutines of earlier successful calls settle once and compare again
		time.Sleep(3 * time.Millisecond)
		after2, _ := e.rig.State(e.addrs)
		if after2 != nil {
			if only, gone := svc.OnlyAwaitingRemoved(before, after2); only && e.allOld(gone) {
				// the awaiting cache drops entries five minutes after they were saved: not an effect of this request
				r.Count("c15_awaiting_entries_expired_during_a_call", len(gone))
			} else if ok, why := svc.SameOrOnlyTipsDropped(before, after2); !ok && after2.Whole == after.Whole {
				if only {
					why += "; first seen " + e.ages(gone) + " ago"
				}
				r.Violate("C15", fmt.Sprintf("rejected-request-changed-state/%s.%s", svcName, rpc), fmt.Sprintf("%s.%s returned %v for request shape [%s] but ledger / awaiting cache / peer table changed: %s", svcName, rpc, err, shape, why), map[string]any{"service": svcName, "rpc": rpc, "shape": shape})
			} else if why == "tips dropped" {
				r.Count("c15_refused_requests_that_dropped_invalid_tips", 1)
			}
			after = after2
		}
	}
	e.last = after
	if e.seq%400 == 0 {
		e.drainAwaiting()
	}
	if e.seq%997 == 1 {
		r.Sample(10, map[string]any{"service": svcName, "rpc": rpc, "request_shape": shape, "outcome": outcome})
	}
}

// noteAwaiting remembers when each awaiting cache entry was first observed (monotonic clock).
func (e *c15env) noteAwaiting(s *svc.State) {
	if e.firstSeen == nil {
		e.firstSeen = map[string]time.Time{}
	}
	now := time.Now()
	for k := range s.Await {
		if _, ok := e.firstSeen[k]; !ok {
			e.firstSeen[k] = now
		}
	}
}

// allOld: every listed entry was first observed at least 4.5 minutes ago (the cache keeps entries for 5 minutes and
// sweeps every 3): its disappearance is expiry. Younger entries are never excused.
func (e *c15env) allOld(keys []string) bool {
	for _, k := range keys {
		t, ok := e.firstSeen[k]
		if !ok || time.Since(t) < 270*time.Second {
			return false
		}
	}
	return true
}

// drainAwaiting takes the awaiting contracts that have piled up off the cache (as their receivers could). The awaiting cache keeps one
// growing list per address and rewrites it on every save; with thousands of entries the list's own rewrites push young
// entries out of its 512 KB cache shard, which would look like an effect of whatever request happens to run then.
func (e *c15env) drainAwaiting() {
	for _, u := range e.rig.Users {
		trxs, err := e.rig.Cache.ReadTransactions(u.Addr)
		if err != nil || len(trxs) < 40 {
			continue
		}
		for _, t := range trxs {
			if t.ReceiverAddress != u.Addr || e.keep[t.Hash] {
				continue
			}
			e.rig.Cache.RemoveAwaitedTransaction(t.Hash, u.Addr) // straight from the cache: sealing them would only grow the ledger
		}
	}
	e.last = nil
	e.w.R.Count("c15_awaiting_drains", 1)
}

func (e *c15env) ages(keys []string) string {
	var out []string
	for _, k := range keys {
		if t, ok := e.firstSeen[k]; ok {
			out = append(out, time.Since(t).Round(time.Second).String())
		} else {
			out = append(out, "never")
		}
	}
	return fmt.Sprint(out)
}

func firstRepoFrame() string {
	buf := make([]byte, 16384)
	n := runtimeStack(buf)
	return core.TopRepoFrame("panic:" + string(buf[:n]))
}

// signedHashGrid enumerates the full product of shapes for a SignedHash based request.
func (e *c15env) signedHashGrid(svcName, rpc string, owner *ledger.Actor, extraData [][]byte, f func(in *protobufcompiled.SignedHash) (any, error)) {
	datas := e.bytesShapes([]byte(owner.Addr), true)
	datas = append(datas, extraData...)
	for _, addr := range e.stringShapes(owner.Addr) {
		for _, data := range datas {
			good := sha256.Sum256(data)
			_, goodSig := owner.W.Sign(data)
			for _, hash := range e.bytesShapes(good[:], false) {
				for _, sig := range e.bytesShapes(goodSig, false) {
					in := &protobufcompiled.SignedHash{Address: addr, Data: data, Hash: hash, Signature: sig}
					shape := fmt.Sprintf("address=%s data=%s hash=%s%s signature=%s%s", addrShape(addr, owner.Addr), shapeName(data), shapeName(hash), okTag(string(hash) == string(good[:])), shapeName(sig), okTag(string(sig) == string(goodSig)))
					e.rig.Flash.RemoveAddress(addr) // the read throttle is not what is examined here
					e.call(svcName, rpc, shape, false, func() (any, error) { return f(in) })
				}
			}
		}
	}
}

func okTag(b bool) string {
	if b {
		return "(valid)"
	}
	return ""
}

func addrShape(a, valid string) string {
	switch {
	case a == "":
		return "empty"
	case a == valid:
		return "valid"
	case strings.HasPrefix(a, "junk"):
		return "junk"
	case strings.HasPrefix(a, "1111111111"):
		return "ones"
	case len(a) < 12:
		if raw, err := serializer.Base58Decode([]byte(a)); err == nil {
			return fmt.Sprintf("decodes-to-%d-bytes", len(raw))
		}
		return "short"
	default:
		return fmt.Sprintf("short-key(len%d)", len(a))
	}
}

// protoTrx builds a wire transaction signed by issuer (and optionally the receiver).
func protoTrx(issuer, receiver *ledger.Actor, subject string, data []byte, sp *protobufcompiled.Spice, createdAt uint64, counter bool) *protobufcompiled.Transaction {
	var m spice.Melange
	if sp != nil {
		m = spice.Melange{Currency: sp.Currency, SupplementaryCurrency: sp.SupplementaryCurrency}
	}
	t := ledger.ForgeTrx(issuer, receiver.Addr, subject, data, m, time.Unix(0, int64(createdAt)))
	if counter {
		ledger.CounterSign(&t, receiver)
	}
	return &protobufcompiled.Transaction{Subject: subject, Data: data, Hash: t.Hash[:], CreatedAt: createdAt, ReceiverAddress: receiver.Addr, IssuerAddress: issuer.Addr,
		ReceiverSignature: t.ReceiverSignature, IssuerSignature: t.IssuerSignature, Spice: sp}
}

type trxMut struct {
	name  string
	apply func(t *protobufcompiled.Transaction)
}

func (e *c15env) trxMutations() []trxMut {
	var out []trxMut
	addB := func(field string, set func(t *protobufcompiled.Transaction, b []byte), huge bool) {
		for _, b := range e.bytesShapes(nil, huge) {
			b := b
			out = append(out, trxMut{field + "=" + shapeName(b), func(t *protobufcompiled.Transaction) { set(t, b) }})
		}
	}
	addS := func(field string, set func(t *protobufcompiled.Transaction, s string)) {
		for _, s := range e.stringShapes(e.rig.Users[2].Addr) {
			s := s
			out = append(out, trxMut{field + "=" + addrShape(s, e.rig.Users[2].Addr), func(t *protobufcompiled.Transaction) { set(t, s) }})
		}
	}
	addB("hash", func(t *protobufcompiled.Transaction, b []byte) { t.Hash = b }, false)
	addB("data", func(t *protobufcompiled.Transaction, b []byte) { t.Data = b }, true)
	addB("issuer_signature", func(t *protobufcompiled.Transaction, b []byte) { t.IssuerSignature = b }, false)
	addB("receiver_signature", func(t *protobufcompiled.Transaction, b []byte) { t.ReceiverSignature = b }, false)
	addS("issuer_address", func(t *protobufcompiled.Transaction, s string) { t.IssuerAddress = s })
	addS("receiver_address", func(t *protobufcompiled.Transaction, s string) { t.ReceiverAddress = s })
	addS("subject", func(t *protobufcompiled.Transaction, s string) { t.Subject = s })
	out = append(out,
		trxMut{"spice=nil", func(t *protobufcompiled.Transaction) { t.Spice = nil }},
		trxMut{"spice=empty", func(t *protobufcompiled.Transaction) { t.Spice = &protobufcompiled.Spice{} }},
		trxMut{"spice=max", func(t *protobufcompiled.Transaction) {
			t.Spice = &protobufcompiled.Spice{Currency: ^uint64(0), SupplementaryCurrency: ^uint64(0)}
		}},
		trxMut{"created_at=0", func(t *protobufcompiled.Transaction) { t.CreatedAt = 0 }},
		trxMut{"created_at=max", func(t *protobufcompiled.Transaction) { t.CreatedAt = ^uint64(0) }},
		trxMut{"unchanged", func(t *protobufcompiled.Transaction) {}},
	)
	return out
}

// resignTrx redoes hash and issuer signature over the current fields when the harness owns the issuer key.
func (e *c15env) resignTrx(t *protobufcompiled.Transaction) bool {
	for _, u := range e.rig.Users {
		if u.Addr == t.IssuerAddress {
			var m spice.Melange
			if t.Spice != nil {
				m = spice.Melange{Currency: t.Spice.Currency, SupplementaryCurrency: t.Spice.SupplementaryCurrency}
			}
			ft := ledger.ForgeTrx(u, t.ReceiverAddress, t.Subject, t.Data, m, time.Unix(0, int64(t.CreatedAt)))
			t.Hash = ft.Hash[:]
			t.IssuerSignature = ft.IssuerSignature
			return true
		}
	}
	return false
}

func (e *c15env) freshTrx(contract bool) *protobufcompiled.Transaction {
	e.seq++
	var data []byte
	sp := &protobufcompiled.Spice{Currency: 0, SupplementaryCurrency: uint64(1 + e.seq%1000)}
	if contract {
		data = []byte(fmt.Sprintf("contract %d", e.seq))
	}
	return protoTrx(e.rig.Users[0], e.rig.Users[1], fmt.Sprintf("subject %d", e.seq), data, sp, uint64(time.Now().Add(-time.Minute).UnixNano())+uint64(e.seq), false)
}

// freshVertex forges a valid wire vertex on a current tip.
func (e *c15env) freshVertex(orphan bool) *protobufcompiled.Vertex {
	s, _ := ledger.TakeSnap(e.rig.Book)
	var tip ledger.H
	var wgt uint64
	for t := range s.Leaves {
		tip = t
		wgt = s.Live[t].V.Weight
	}
	if orphan {
		e.rng.Read(tip[:])
	}
	e.seq++
	t := ledger.ForgeTrx(e.rig.Users[0], e.rig.Users[1].Addr, fmt.Sprintf("gossiped %d", e.seq), nil, spice.Melange{SupplementaryCurrency: uint64(1 + e.seq%100)}, time.Now().Add(-time.Minute))
	v := ledger.ForgeVertex(e.rig.PeerAct[0], t, tip, tip, wgt+1, time.Now().Add(-time.Second))
	return gossip.VerifVertexToProtoVertex(&v)
}

type vrxMut struct {
	name  string
	apply func(v *protobufcompiled.Vertex)
}

func (e *c15env) vrxMutations() []vrxMut {
	var out []vrxMut
	addB := func(field string, set func(v *protobufcompiled.Vertex, b []byte)) {
		for _, b := range e.bytesShapes(nil, false) {
			b := b
			out = append(out, vrxMut{field + "=" + shapeName(b), func(v *protobufcompiled.Vertex) { set(v, b) }})
		}
	}
	addB("vertex.hash", func(v *protobufcompiled.Vertex, b []byte) { v.Hash = b })
	addB("vertex.left_parent", func(v *protobufcompiled.Vertex, b []byte) { v.LeftParentHash = b })
	addB("vertex.right_parent", func(v *protobufcompiled.Vertex, b []byte) { v.RightParentHash = b })
	addB("vertex.signature", func(v *protobufcompiled.Vertex, b []byte) { v.Signature = b })
	for _, s := range e.stringShapes(e.rig.PeerAct[0].Addr) {
		s := s
		out = append(out, vrxMut{"vertex.signer=" + addrShape(s, e.rig.PeerAct[0].Addr), func(v *protobufcompiled.Vertex) { v.SignerPublicAddress = s }})
	}
	out = append(out,
		vrxMut{"vertex.transaction=nil", func(v *protobufcompiled.Vertex) { v.Transaction = nil }},
		vrxMut{"vertex.transaction=empty", func(v *protobufcompiled.Vertex) { v.Transaction = &protobufcompiled.Transaction{} }},
		vrxMut{"vertex.weight=max", func(v *protobufcompiled.Vertex) { v.Weight = ^uint64(0) }},
		vrxMut{"unchanged", func(v *protobufcompiled.Vertex) {}},
	)
	for _, tm := range e.trxMutations() {
		tm := tm
		out = append(out, vrxMut{"vertex.transaction." + tm.name, func(v *protobufcompiled.Vertex) {
			if v.Transaction != nil {
				tm.apply(v.Transaction)
			}
		}})
	}
	return out
}

func (e *c15env) gossiperLists(item []byte) map[string][]*protobufcompiled.Gossiper {
	var ih ledger.H
	copy(ih[:], item)
	p := e.rig.PeerAct[0]
	d, s := p.W.Sign(append([]byte(p.Addr), ih[:]...))
	valid := &protobufcompiled.Gossiper{Address: p.Addr, Digest: d[:], Signature: s}
	long := []*protobufcompiled.Gossiper{}
	for i := 0; i < 300; i++ {
		long = append(long, proto.Clone(valid).(*protobufcompiled.Gossiper))
	}
	return map[string][]*protobufcompiled.Gossiper{
		"nil":               nil,
		"[empty]":           {{}},
		"[valid]":           {valid},
		"[short-digest]":    {{Address: p.Addr, Digest: d[:5], Signature: s}},
		"[nil-digest]":      {{Address: p.Addr, Digest: nil, Signature: s}},
		"[long-digest]":     {{Address: p.Addr, Digest: append(append([]byte{}, d[:]...), 1, 2, 3), Signature: s}},
		"[short-key-addr]":  {{Address: shortKeyAddress(16), Digest: d[:], Signature: s}},
		"[junk-addr]":       {{Address: "junk", Digest: d[:], Signature: nil}},
		"[short-signature]": {{Address: p.Addr, Digest: d[:], Signature: s[:10]}},
		"long(300)":         long,
	}
}

func (e *c15env) connData(owner *ledger.Actor, addr, url string, createdAt uint64, resign bool) *protobufcompiled.ConnectionData {
	var data []byte
	data = append(data, []byte(addr)...)
	data = append(data, []byte(url)...)
	data = binary.LittleEndian.AppendUint64(data, createdAt)
	d, s := owner.W.Sign(data)
	_ = resign
	return &protobufcompiled.ConnectionData{PublicAddress: addr, Url: url, CreatedAt: createdAt, Digest: d[:], Signature: s}
}

// c15Concurrent: requests do not come one at a time. Many clients call the read endpoints at the same moment with
// challenges that are fresh, expired (a node with a one second challenge life), foreign or missing, and propose /
// gossip at the same time. A crash of the process (also a runtime throw that no recover() sees) ends the worker and is
// attributed by the journal; nothing else is judged here.
func c15Concurrent(w *core.WorkerCtx) {
	r := w.R
	rig, err := svc.New(4, 1, 2048)
	if err != nil {
		r.Inconc("cannot build the node: " + err.Error())
		return
	}
	defer rig.Close()
	ctx := context.Background()
	rounds := w.Pick(4, 24)
	var actors []*ledger.Actor
	for i := 0; i < 2000; i++ {
		actors = append(actors, ledger.NewActor("c"))
	}
	for round := 0; round < rounds; round++ {
		w.Mark("concurrent requests round %d (expired challenges: %v)", round, round%2 == 0)
		reqs := make([]*protobufcompiled.SignedHash, len(actors))
		for i, a := range actors {
			if b, err := rig.Notary.Data(ctx, &protobufcompiled.Address{Public: a.Addr}); err == nil && b != nil {
				if i%8 == 0 {
					reqs[i] = svc.Sign(a, b.Blob)
				} else {
					// the challenge is looked at before the signature: most requests need none
					reqs[i] = &protobufcompiled.SignedHash{Address: a.Addr, Data: b.Blob, Hash: make([]byte, 32), Signature: make([]byte, 64)}
				}
			}
		}
		// half of the rounds: let the challenges expire (life time 1 s; the cleaner only runs every 2 s)
		if round%2 == 0 {
			time.Sleep(1050 * time.Millisecond)
		}
		var wg sync.WaitGroup
		start := make(chan struct{})
		var calls atomic.Int64
		for g := 0; g < 16; g++ {
			wg.Add(1)
			go func(g int) {
				defer wg.Done()
				<-start
				n := len(actors)
				for k := 0; k < n; k++ {
					i := (k + g*(n/16)) % n
					req := reqs[i]
					if req == nil {
						continue
					}
					switch (g + k) % 5 {
					case 0, 1:
						rig.Notary.Waiting(ctx, req)
					case 2, 3:
						rig.Notary.TransactionsInDAG(ctx, req)
					default:
						rig.Notary.Data(ctx, &protobufcompiled.Address{Public: req.Address})
					}
					calls.Add(1)
				}
			}(g)
		}
		close(start)
		wg.Wait()
		r.Eval(int(calls.Load()))
		r.Count("c15_concurrent_calls", int(calls.Load()))
		r.Nontriv(fmt.Sprintf("concurrent/expired=%v", round%2 == 0))
	}
}

// c15OrphanFlood: a peer keeps sending correctly sealed vertices whose parents the node does not know. The node parks
// them (500 at most), replays them on its ticks (25 times each at most), gives up on them and parks new ones: over a
// long life every slot of the orphan buffer is filled, emptied and refilled many times. No such vertex may crash the
// node, whatever the buffer has been through before.
func c15OrphanFlood(w *core.WorkerCtx) {
	r := w.R
	rig, err := svc.New(4, 60, 2048)
	if err != nil {
		r.Inconc("cannot build the node: " + err.Error())
		return
	}
	defer rig.Close()
	ctx := context.Background()
	rng := core.Rand(w.Seed, "C15flood", w.Batch)
	seq := 0
	orphan := func() *protobufcompiled.Vertex {
		seq++
		var l, rr ledger.H
		rng.Read(l[:])
		rng.Read(rr[:])
		if seq%3 == 0 {
			rr = l
		}
		t := ledger.ForgeTrx(rig.Users[1], rig.Users[2].Addr, fmt.Sprintf("orphan %d", seq), []byte("contract"), spice.Melange{}, time.Now().Add(-time.Minute))
		v := ledger.ForgeVertex(rig.PeerAct[seq%2], t, l, rr, uint64(2+seq%50), time.Now().Add(-time.Second))
		return gossip.VerifVertexToProtoVertex(&v)
	}
	sent, refused, replays := 0, 0, 0
	send := func(k int) {
		for i := 0; i < k; i++ {
			w.Mark("orphan flood: vertex %d through gossip.GossipVrx (parked now %d)", seq+1, rig.Book.VerifParkedLen())
			if _, err := rig.Gossip.GossipVrx(ctx, &protobufcompiled.VrxMsgGossip{Vertex: orphan()}); err != nil {
				refused++
			}
			sent++
		}
	}
	tick := func(k int) {
		for i := 0; i < k; i++ {
			w.Mark("orphan flood: replay %d of the orphan buffer (parked now %d)", replays+1, rig.Book.VerifParkedLen())
			rig.Book.VerifRetryOne(ctx)
			replays++
		}
	}
	// fill to the brim and beyond, replay a little, fill again; then a long life of replays and arrivals
	send(470)
	tick(8)
	send(60)
	tick(40)
	send(30)
	for round := 0; round < w.Pick(12, 60); round++ {
		tick(100 + rng.Intn(100))
		send(20 + rng.Intn(40))
	}
	r.Eval(sent + replays)
	r.Count("c15_orphan_flood_vertices_sent", sent)
	r.Count("c15_orphan_flood_vertices_refused", refused)
	r.Count("c15_orphan_flood_replays", replays)
	r.Nontriv(fmt.Sprintf("orphan-flood/parked-at-end=%d", bucketN(rig.Book.VerifParkedLen())))
	// the node still works
	if _, err := rig.Book.CalculateBalance(ctx, rig.Users[0].Addr); err != nil {
		r.Note("orphan flood: balance query afterwards: " + err.Error())
	}
}

// c15EmptyLedger: a joining node serves requests while its ledger is still empty (the sync has not happened yet, or the
// peer's stream was refused and the node keeps running): correctly signed requests of every kind must be answered,
// with an error where there is nothing to answer from, never with a crash.
func c15EmptyLedger(w *core.WorkerCtx) {
	svc.NoGenesis = true
	rig, err := svc.New(4, 60, 2048)
	svc.NoGenesis = false
	if err != nil {
		w.R.Inconc("cannot build the node: " + err.Error())
		return
	}
	defer rig.Close()
	e := &c15env{w: w, rig: rig, rng: core.Rand(w.Seed, "C15empty", w.Batch)}
	for _, u := range rig.Users {
		e.addrs = append(e.addrs, u.Addr)
	}
	ctx := context.Background()
	for round := 0; round < 2; round++ {
		for ui, u := range rig.Users {
			signed := func() *protobufcompiled.SignedHash {
				b, err := rig.Notary.Data(ctx, &protobufcompiled.Address{Public: u.Addr})
				if err != nil || b == nil {
					return svc.Sign(u, []byte("no challenge"))
				}
				return svc.Sign(u, b.Blob)
			}
			shape := fmt.Sprintf("valid request of wallet %d on a node with an empty ledger", ui)
			e.call("notary", "Balance", shape, true, func() (any, error) {
				rig.Flash.RemoveAddress(u.Addr)
				return rig.Notary.Balance(ctx, svc.Sign(u, []byte(u.Addr)))
			})
			e.call("notary", "TransactionsInDAG", shape, true, func() (any, error) {
				rig.Flash.RemoveAddress(u.Addr)
				return rig.Notary.TransactionsInDAG(ctx, signed())
			})
			e.call("notary", "Waiting", shape, true, func() (any, error) {
				rig.Flash.RemoveAddress(u.Addr)
				return rig.Notary.Waiting(ctx, signed())
			})
			e.call("notary", "Saved", shape, true, func() (any, error) {
				var h [32]byte
				return rig.Notary.Saved(ctx, svc.Sign(u, h[:]))
			})
			e.call("gossip", "GetVertex", shape, true, func() (any, error) {
				var h [32]byte
				h[0] = byte(ui + 1)
				return rig.Gossip.GetVertex(ctx, svc.Sign(rig.PeerAct[0], h[:]))
			})
			e.call("notary", "Propose", shape+" (transfer)", true, func() (any, error) {
				t := ledger.ForgeTrx(u, rig.Users[(ui+1)%len(rig.Users)].Addr, fmt.Sprintf("empty ledger %d %d", round, ui), nil, spice.Melange{SupplementaryCurrency: 1}, time.Now().Add(-time.Minute))
				p, _ := transformers.TrxToProtoTrx(t)
				return rig.Notary.Propose(ctx, p)
			})
			e.call("notary", "Propose", shape+" (contract), then Reject", true, func() (any, error) {
				t := ledger.ForgeTrx(u, rig.Users[(ui+1)%len(rig.Users)].Addr, fmt.Sprintf("empty ledger contract %d %d", round, ui), []byte("contract"), spice.Melange{}, time.Now().Add(-time.Minute))
				p, _ := transformers.TrxToProtoTrx(t)
				if _, err := rig.Notary.Propose(ctx, p); err != nil {
					return nil, err
				}
				return rig.Notary.Reject(ctx, svc.Sign(rig.Users[(ui+1)%len(rig.Users)], t.Hash[:]))
			})
			e.call("gossip", "GossipVrx", shape, true, func() (any, error) {
				t := ledger.ForgeTrx(u, rig.Users[(ui+1)%len(rig.Users)].Addr, fmt.Sprintf("empty ledger vertex %d %d", round, ui), []byte("c"), spice.Melange{}, time.Now().Add(-time.Minute))
				var l ledger.H
				l[0] = 9
				v := ledger.ForgeVertex(rig.PeerAct[0], t, l, l, 2, time.Now().Add(-time.Second))
				return rig.Gossip.GossipVrx(ctx, &protobufcompiled.VrxMsgGossip{Vertex: gossip.VerifVertexToProtoVertex(&v)})
			})
		}
		for i := 0; i < 3; i++ {
			w.Mark("empty ledger: replay of the orphan buffer")
			rig.Book.VerifRetryOne(ctx)
		}
	}
	w.R.Count("c15_empty_ledger_rounds", 2)
}

// c15ExpiredEntries: several awaiting contracts of one wallet have expired from the cache (their references are still
// on the wallet's lists, that is how the cache cleans up: on the next read): the Waiting request that meets two, three,
// all of them expired - first, middle, last in the list - must be answered.
func c15ExpiredEntries(w *core.WorkerCtx) {
	rig, err := svc.New(4, 60, 2048)
	if err != nil {
		w.R.Inconc("cannot build the node: " + err.Error())
		return
	}
	defer rig.Close()
	e := &c15env{w: w, rig: rig, rng: core.Rand(w.Seed, "C15expired", w.Batch)}
	for _, u := range rig.Users {
		e.addrs = append(e.addrs, u.Addr)
	}
	ctx := context.Background()
	I, R := rig.Users[1], rig.Users[2]
	seq := 0
	for _, pattern := range [][]int{{0, 1}, {3, 4}, {1, 3}, {0, 2, 4}, {0, 1, 2, 3, 4}, {2}, {4}, {1, 2, 3}} {
		var hashes [][32]byte
		for i := 0; i < 5; i++ {
			seq++
			t := ledger.ForgeTrx(I, R.Addr, fmt.Sprintf("expiring %d", seq), []byte("contract"), spice.Melange{}, time.Now().Add(-time.Minute))
			if p, err := transformers.TrxToProtoTrx(t); err == nil {
				if _, err := rig.Notary.Propose(ctx, p); err == nil {
					hashes = append(hashes, t.Hash)
				}
			}
		}
		for _, k := range pattern {
			if k < len(hashes) {
				rig.Cache.VerifExpire(hashes[k])
			}
		}
		shape := fmt.Sprintf("valid request; entries %v of the wallet's 5 newest awaiting contracts have expired", pattern)
		for _, who := range []*ledger.Actor{R, I} {
			who := who
			e.call("notary", "Waiting", shape, true, func() (any, error) {
				rig.Flash.RemoveAddress(who.Addr)
				b, err := rig.Notary.Data(ctx, &protobufcompiled.Address{Public: who.Addr})
				if err != nil {
					return nil, err
				}
				return rig.Notary.Waiting(ctx, svc.Sign(who, b.Blob))
			})
		}
		// what is left is taken out by the receiver
		for _, h := range hashes {
			rig.Notary.Reject(ctx, svc.Sign(R, h[:]))
		}
	}
	w.R.Count("c15_expired_entry_patterns", 8)
}

// c15RefusedOnKnownParents: vertices that the ledger refuses only after it has looked at their parents - a child of an
// overdrawing tip (the tip fails its funds test when the child arrives), a child whose weight is far below the window,
// a second vertex for a transaction that is sealed already - must leave nothing behind (the dropped tip aside).
func c15RefusedOnKnownParents(w *core.WorkerCtx) {
	rig, err := svc.New(4, 60, 2048)
	if err != nil {
		w.R.Inconc("cannot build the node: " + err.Error())
		return
	}
	defer rig.Close()
	e := &c15env{w: w, rig: rig, rng: core.Rand(w.Seed, "C15refused", w.Batch)}
	for _, u := range rig.Users {
		e.addrs = append(e.addrs, u.Addr)
	}
	ctx := context.Background()
	u := rig.Users
	send := func(v *accountant.Vertex) (any, error) {
		rig.Flash.RemoveAddress(string(v.Hash[:]))
		return rig.Gossip.GossipVrx(ctx, &protobufcompiled.VrxMsgGossip{Vertex: gossip.VerifVertexToProtoVertex(v)})
	}
	tipOf := func() (ledger.H, uint64) {
		s, _ := ledger.TakeSnap(rig.Book)
		var tip ledger.H
		var wgt uint64
		for h := range s.Leaves {
			if v, ok := s.Vertex(h); ok && v.Weight >= wgt {
				tip, wgt = h, v.Weight
			}
		}
		return tip, wgt
	}
	for round := 0; round < 12; round++ {
		tip, wgt := tipOf()
		// an overdrawing tip (admitted: a tip is judged when it is built upon)
		over := ledger.ForgeTrx(u[1+round%2], u[3].Addr, fmt.Sprintf("overdraw %d", round), nil, spice.Melange{Currency: 1 << 40}, time.Now().Add(-time.Minute))
		ov := ledger.ForgeVertex(rig.PeerAct[0], over, tip, tip, wgt+1, time.Now().Add(-time.Second))
		send(&ov)
		ct := ledger.ForgeTrx(u[0], u[1].Addr, fmt.Sprintf("child of an overdrawing tip %d", round), []byte("c"), spice.Melange{}, time.Now().Add(-time.Minute))
		cv := ledger.ForgeVertex(rig.PeerAct[1], ct, ov.Hash, ov.Hash, wgt+2, time.Now().Add(-time.Second))
		e.last = nil
		e.call("gossip", "GossipVrx", "child of an overdrawing tip (refused after its parent was looked at)", false, func() (any, error) { return send(&cv) })
		// a second vertex for a sealed transaction, on known parents
		tip, wgt = tipOf()
		ht := ledger.ForgeTrx(u[0], u[2].Addr, fmt.Sprintf("held %d", round), []byte("h"), spice.Melange{}, time.Now().Add(-time.Minute))
		hv := ledger.ForgeVertex(rig.PeerAct[0], ht, tip, tip, wgt+1, time.Now().Add(-time.Second))
		send(&hv)
		tip2, wgt2 := tipOf()
		dv := ledger.ForgeVertex(rig.PeerAct[1], ht, tip2, tip2, wgt2+1, time.Now().Add(-time.Second))
		e.last = nil
		e.call("gossip", "GossipVrx", "second vertex for a sealed transaction", false, func() (any, error) { return send(&dv) })
	}
	w.R.Count("c15_refused_on_known_parents_rounds", 12)
}

// c15AfterTruncation: requests about things the node has checkpointed. 1030 transfers are proposed through the notary,
// the ledger truncates, and then the oldest transactions (now in the storage, not in the graph), the newest and unknown
// ones are asked for through notary.Saved and pulled through gossip.GetVertex, next to balance and history requests.
func c15AfterTruncation(w *core.WorkerCtx) {
	rig, err := svc.New(4, 60, 2048)
	if err != nil {
		w.R.Inconc("cannot build the node: " + err.Error())
		return
	}
	defer rig.Close()
	e := &c15env{w: w, rig: rig, rng: core.Rand(w.Seed, "C15trunc", w.Batch)}
	for _, u := range rig.Users {
		e.addrs = append(e.addrs, u.Addr)
	}
	ctx := context.Background()
	u := rig.Users
	var hashes [][32]byte
	for i := 0; i < 1030; i++ {
		t := ledger.ForgeTrx(u[0], u[1+i%3].Addr, fmt.Sprintf("before truncation %d", i), nil, spice.Melange{SupplementaryCurrency: uint64(1 + i%9)}, time.Now().Add(-time.Minute))
		p, err := transformers.TrxToProtoTrx(t)
		if err != nil {
			continue
		}
		if _, err := rig.Notary.Propose(ctx, p); err == nil {
			hashes = append(hashes, t.Hash)
		}
	}
	w.Mark("c15 after truncation: truncating a ledger of %d proposals", len(hashes))
	if err := rig.Book.VerifTruncate(ctx); err != nil {
		w.R.Note("c15 after truncation: truncation failed: " + err.Error())
	}
	s, _ := ledger.TakeSnap(rig.Book)
	if s == nil || len(s.Stored) == 0 {
		w.R.Note("c15 after truncation: nothing was checkpointed")
		return
	}
	var vhashes []ledger.H
	for h := range s.Stored {
		vhashes = append(vhashes, h)
		if len(vhashes) == 6 {
			break
		}
	}
	ask := append([][32]byte{}, hashes[:6]...)
	ask = append(ask, hashes[len(hashes)-3:]...)
	ask = append(ask, [32]byte{1, 2, 3})
	for i, h := range ask {
		h := h
		shape := fmt.Sprintf("valid request for transaction %d of %d after a truncation (checkpointed: %v)", i, len(ask), i < 6)
		e.call("notary", "Saved", shape, true, func() (any, error) { return rig.Notary.Saved(ctx, svc.Sign(u[0], h[:])) })
	}
	for i, h := range vhashes {
		h := h
		e.call("gossip", "GetVertex", fmt.Sprintf("pull of checkpointed vertex %d", i), true, func() (any, error) { return rig.Gossip.GetVertex(ctx, svc.Sign(rig.PeerAct[0], h[:])) })
	}
	for _, who := range u {
		who := who
		e.call("notary", "Balance", "valid request after a truncation", true, func() (any, error) {
			rig.Flash.RemoveAddress(who.Addr)
			return rig.Notary.Balance(ctx, svc.Sign(who, []byte(who.Addr)))
		})
		e.call("notary", "TransactionsInDAG", "valid request after a truncation", true, func() (any, error) {
			rig.Flash.RemoveAddress(who.Addr)
			b, err := rig.Notary.Data(ctx, &protobufcompiled.Address{Public: who.Addr})
			if err != nil {
				return nil, err
			}
			return rig.Notary.TransactionsInDAG(ctx, svc.Sign(who, b.Blob))
		})
	}
	w.R.Count("c15_after_truncation_scenarios", 1)
}

func c15Worker(w *core.WorkerCtx) {
	if w.Batch%4 == 0 {
		c15ExpiredEntries(w)
		c15RefusedOnKnownParents(w)
	}
	if w.Batch%4 == 1 {
		c15AfterTruncation(w)
	}
	if w.Batch%4 == 1 {
		c15Concurrent(w)
	}
	if w.Batch%4 == 3 {
		c15EmptyLedger(w)
	}
	if w.Batch%4 == 2 {
		c15OrphanFlood(w)
	}
	rng := core.Rand(w.Seed, "C15", w.Batch)
	rig, err := svc.New(4, 60, 2048)
	if err != nil {
		w.R.Inconc("cannot build the node: " + err.Error())
		return
	}
	defer rig.Close()
	e := &c15env{w: w, rig: rig, rng: rng}
	for _, u := range rig.Users {
		e.addrs = append(e.addrs, u.Addr)
	}
	ctx := context.Background()
	u0 := rig.Users[0]
	// some history and one awaiting contract
	for i := 0; i < 3; i++ {
		rig.Notary.Propose(ctx, e.freshTrx(false))
	}
	awaiting := e.freshTrx(true)
	rig.Notary.Propose(ctx, awaiting)
	e.keep = map[[32]byte]bool{[32]byte(awaiting.Hash): true}
	time.Sleep(20 * time.Millisecond)

	part := w.Batch % 4
	switch part {
	case 0:
		// SignedHash based requests: the full shape product
		challenge := func() [][]byte {
			b, err := rig.Notary.Data(ctx, &protobufcompiled.Address{Public: u0.Addr})
			if err != nil || b == nil {
				return nil
			}
			return [][]byte{b.Blob}
		}
		e.signedHashGrid("notary", "Reject", rig.Users[1], [][]byte{awaiting.Hash}, func(in *protobufcompiled.SignedHash) (any, error) { return rig.Notary.Reject(ctx, in) })
		e.signedHashGrid("notary", "Saved", u0, nil, func(in *protobufcompiled.SignedHash) (any, error) { return rig.Notary.Saved(ctx, in) })
		e.signedHashGrid("notary", "Balance", u0, nil, func(in *protobufcompiled.SignedHash) (any, error) { return rig.Notary.Balance(ctx, in) })
		e.signedHashGrid("notary", "Waiting", u0, challenge(), func(in *protobufcompiled.SignedHash) (any, error) { return rig.Notary.Waiting(ctx, in) })
	case 1:
		challenge := func() [][]byte {
			b, err := rig.Notary.Data(ctx, &protobufcompiled.Address{Public: u0.Addr})
			if err != nil || b == nil {
				return nil
			}
			return [][]byte{b.Blob}
		}
		e.signedHashGrid("notary", "TransactionsInDAG", u0, challenge(), func(in *protobufcompiled.SignedHash) (any, error) {
			return rig.Notary.TransactionsInDAG(ctx, in)
		})
		e.signedHashGrid("gossip", "GetVertex", u0, [][]byte{rig.Genesis.Hash[:]}, func(in *protobufcompiled.SignedHash) (any, error) { return rig.Gossip.GetVertex(ctx, in) })
		e.signedHashGrid("webhooks", "Webhooks", u0, [][]byte{[]byte("http://127.0.0.1:1/hook"), []byte("::not a url\x00")}, func(in *protobufcompiled.SignedHash) (any, error) {
			return rig.Webhooks.Webhooks(ctx, in)
		})
		for _, a := range e.stringShapes(u0.Addr) {
			a := a
			e.call("notary", "Data", "public="+addrShape(a, u0.Addr), true, func() (any, error) { return rig.Notary.Data(ctx, &protobufcompiled.Address{Public: a}) })
		}
		e.call("notary", "Alive", "empty", false, func() (any, error) { return rig.Notary.Alive(ctx, &emptypb.Empty{}) })
		e.call("gossip", "Alive", "empty", false, func() (any, error) { return rig.Gossip.Alive(ctx, &emptypb.Empty{}) })
		e.call("webhooks", "Alive", "empty", false, func() (any, error) { return rig.Webhooks.Alive(ctx, &emptypb.Empty{}) })
	case 2:
		// Transaction based requests (Propose, Confirm, GossipTrx): one field at a time and pairs, stale and re-signed
		muts := e.trxMutations()
		for _, rpc := range []string{"Propose", "Confirm", "GossipTrx"} {
			run := func(shape string, t *protobufcompiled.Transaction) {
				switch rpc {
				case "Propose":
					e.call("notary", rpc, shape, false, func() (any, error) { return rig.Notary.Propose(ctx, t) })
				case "Confirm":
					e.call("notary", rpc, shape, false, func() (any, error) { return rig.Notary.Confirm(ctx, t) })
				default:
					for ln, list := range e.gossiperLists(t.Hash) {
						tt := proto.Clone(t).(*protobufcompiled.Transaction)
						e.call("gossip", rpc, shape+" gossipers="+ln, false, func() (any, error) {
							return rig.Gossip.GossipTrx(ctx, &protobufcompiled.TrxMsgGossip{Trx: tt, Gossipers: list})
						})
						if !w.Thorough() && ln != "nil" && ln != "[short-digest]" && e.seq%5 != 0 {
							continue
						}
					}
				}
			}
			for i, m := range muts {
				for _, resign := range []bool{false, true} {
					t := e.freshTrx(i%2 == 0)
					if rpc == "Confirm" {
						t = protoTrx(rig.Users[0], rig.Users[1], fmt.Sprintf("confirm %d", e.seq), []byte("c"), &protobufcompiled.Spice{}, uint64(time.Now().UnixNano()), true)
					}
					m.apply(t)
					tag := ""
					if resign {
						if !e.resignTrx(t) {
							continue
						}
						tag = " (re-signed)"
					}
					run(m.name+tag, t)
				}
			}
			// pairs (sampled in quick, all in thorough)
			for i := range muts {
				for j := i + 1; j < len(muts); j++ {
					if !w.Thorough() && rng.Intn(12) != 0 {
						continue
					}
					t := e.freshTrx(j%2 == 0)
					muts[i].apply(t)
					muts[j].apply(t)
					if rng.Intn(2) == 0 {
						e.resignTrx(t)
					}
					run(muts[i].name+" & "+muts[j].name, t)
				}
			}
			e.call("gossip", "GossipTrx", "trx=nil", false, func() (any, error) { return rig.Gossip.GossipTrx(ctx, &protobufcompiled.TrxMsgGossip{}) })
		}
	case 3:
		// vertices: GossipVrx, the missing-parent pull and DAG sync from a malicious peer; Announce / Discover
		vm := e.vrxMutations()
		for _, m := range vm {
			v := e.freshVertex(false)
			m.apply(v)
			lists := e.gossiperLists(v.Hash)
			for ln, list := range lists {
				if !w.Thorough() && ln != "nil" && ln != "[valid]" && ln != "[short-digest]" && rng.Intn(4) != 0 {
					continue
				}
				vv := proto.Clone(v).(*protobufcompiled.Vertex)
				e.call("gossip", "GossipVrx", m.name+" gossipers="+ln, false, func() (any, error) {
					return rig.Gossip.GossipVrx(ctx, &protobufcompiled.VrxMsgGossip{Vertex: vv, Gossipers: list})
				})
			}
		}
		e.call("gossip", "GossipVrx", "vertex=nil", false, func() (any, error) { return rig.Gossip.GossipVrx(ctx, &protobufcompiled.VrxMsgGossip{}) })
		// refused vertices that reference existing state: a vertex carrying a transaction that is awaiting on this node
		for _, m := range vm {
			if m.name == "unchanged" {
				continue
			}
			aw := e.freshTrx(true)
			if _, err := rig.Notary.Propose(ctx, aw); err != nil {
				continue
			}
			e.last = nil
			at, err := transformers.ProtoTrxToTrx(aw)
			if err != nil {
				continue
			}
			s, _ := ledger.TakeSnap(rig.Book)
			var tip ledger.H
			var wgt uint64
			for t := range s.Leaves {
				tip, wgt = t, s.Live[t].V.Weight
			}
			v := ledger.ForgeVertex(rig.PeerAct[0], at, tip, tip, wgt+1, time.Now().Add(-time.Second))
			pv := gossip.VerifVertexToProtoVertex(&v)
			m.apply(pv)
			if pv.Transaction != nil {
				// the reference to the awaiting entry stays intact; something else is wrong with the vertex
				pv.Transaction.Hash = aw.Hash
				pv.Transaction.ReceiverAddress = aw.ReceiverAddress
			}
			e.call("gossip", "GossipVrx", "carries an awaiting transaction; "+m.name, false, func() (any, error) {
				return rig.Gossip.GossipVrx(ctx, &protobufcompiled.VrxMsgGossip{Vertex: pv})
			})
		}
		// ... and vertices that answer to the hash of a vertex the node holds already (genesis, a tip) while naming the
		// awaiting transaction: unsigned garbage, a re-broadcast of the held vertex with the transaction swapped
		{
			aw := e.freshTrx(true)
			if _, err := rig.Notary.Propose(ctx, aw); err == nil {
				e.last = nil
				s, _ := ledger.TakeSnap(rig.Book)
				var held []*accountant.Vertex
				g := rig.Genesis
				held = append(held, &g)
				for t := range s.Leaves {
					c := s.Live[t].V
					held = append(held, &c)
				}
				for hi, hv := range held {
					for vi := 0; vi < 3; vi++ {
						pv := gossip.VerifVertexToProtoVertex(hv)
						switch vi {
						case 0: // the held vertex as it is, only the transaction reference swapped
							pv.Transaction.Hash = aw.Hash
							pv.Transaction.ReceiverAddress = aw.ReceiverAddress
						case 1: // the awaiting transaction as a whole under the held vertex's hash
							pv.Transaction = proto.Clone(aw).(*protobufcompiled.Transaction)
						case 2: // no signatures at all
							pv.Transaction = proto.Clone(aw).(*protobufcompiled.Transaction)
							pv.Signature = nil
							pv.Transaction.IssuerSignature = nil
						}
						rig.Flash.RemoveAddress(string(hv.Hash[:])) // as after the 20 s duplicate-suppression window
						e.call("gossip", "GossipVrx", fmt.Sprintf("hash of a held vertex (%d) naming an awaiting transaction (variant %d)", hi, vi), false, func() (any, error) {
							return rig.Gossip.GossipVrx(ctx, &protobufcompiled.VrxMsgGossip{Vertex: pv})
						})
					}
				}
			}
		}
		// missing parent pull: the peers answer GetVertex with shaped vertices
		for _, m := range vm {
			m := m
			for _, p := range rig.Peers {
				p.GetVrx = func(in *protobufcompiled.SignedHash) (*protobufcompiled.Vertex, error) {
					v := e.freshVertex(true)
					m.apply(v)
					return v, nil
				}
			}
			orphan := e.freshVertex(true)
			e.call("gossip", "GossipVrx+pull", "orphan; peers answer the pull with "+m.name, true, func() (any, error) {
				return rig.Gossip.GossipVrx(ctx, &protobufcompiled.VrxMsgGossip{Vertex: orphan})
			})
			time.Sleep(2 * time.Millisecond) // the pull runs in goroutines of the node; a crash there ends the worker and is attributed by the journal
		}
		for _, p := range rig.Peers {
			p.GetVrx = nil
		}
		time.Sleep(50 * time.Millisecond)
		// Announce / Discover
		now := uint64(time.Now().UnixNano())
		stranger := ledger.NewActor("stranger")
		for _, rpc := range []string{"Announce", "Discover"} {
			for _, addr := range e.stringShapes(stranger.Addr) {
				for _, url := range []string{"", "127.0.0.1:1", "::::bad url\x00"} {
					base := e.connData(stranger, addr, url, now, true)
					for _, dg := range e.bytesShapes(base.Digest, false) {
						for _, sg := range e.bytesShapes(base.Signature, false) {
							cd := &protobufcompiled.ConnectionData{PublicAddress: addr, Url: url, CreatedAt: now, Digest: dg, Signature: sg}
							shape := fmt.Sprintf("address=%s url=%q digest=%s signature=%s", addrShape(addr, stranger.Addr), url, shapeName(dg), shapeName(sg))
							if rpc == "Announce" {
								e.call("gossip", rpc, shape, false, func() (any, error) { return rig.Gossip.Announce(ctx, cd) })
							} else {
								e.call("gossip", rpc, shape, false, func() (any, error) { return rig.Gossip.Discover(ctx, cd) })
							}
						}
					}
				}
			}
		}
		c15Sync(e, vm)
	}
	// PRNG structural mutation of serialised valid requests (kept when they still decode)
	c15WireMutation(e, w.Pick(1500, 120000))
}

// c15Sync: the joining node's DAG sync against an in-memory malicious peer that streams shaped vertices.
func c15Sync(e *c15env, vm []vrxMut) {
	// vertices that are well formed on the wire and refused by the loader (a seal that does not verify, the genesis a
	// second time, a transaction that moves nothing), each followed by three thousand more vertices sent back to back, several times over
	refused := []vrxMut{
		{"refused-by-loader/sealing-signature-altered", func(v *protobufcompiled.Vertex) { v.Signature[3] ^= 0x20 }},
		{"refused-by-loader/hash-altered", func(v *protobufcompiled.Vertex) { v.Hash[9] ^= 0x02 }},
		{"refused-by-loader/weight-altered", func(v *protobufcompiled.Vertex) { v.Weight += 7 }},
		{"refused-by-loader/issuer-signature-altered", func(v *protobufcompiled.Vertex) { v.Transaction.IssuerSignature[5] ^= 0x01 }},
	}
	var all []vrxMut
	var more []int
	for i, m := range vm {
		if !e.w.Thorough() && i%3 != 0 {
			continue
		}
		all = append(all, m)
		more = append(more, (i%4)*5)
	}
	for rep := 0; rep < e.w.Pick(4, 12); rep++ {
		for _, m := range refused {
			all = append(all, m)
			more = append(more, 3000)
		}
	}
	for i, m := range all {
		m := m
		lis := bufconn.Listen(1 << 20)
		srv := grpc.NewServer()
		protobufcompiled.RegisterGossipAPIServer(srv, &maliciousPeer{e: e, m: m, more: more[i]})
		go srv.Serve(lis)
		a := ledger.NewActor("joiner")
		ctx, cancel := context.WithCancel(context.Background())
		book, err := accountant.NewAccountingBook(ctx, accountant.Config{Truncate: 1 << 50}, wallet.NewVerifier(), &a.W, ledger.NoLog{})
		if err != nil {
			cancel()
			continue
		}
		fl, _ := cache.NewFlash()
		hc, _ := cache.New(800, 64)
		g := gossip.VerifNewGossiper("joiner", ledger.NoLog{}, time.Second, &a.W, wallet.NewVerifier(), book, hc, fl, pipe.New(10, 10),
			[]grpc.DialOption{grpc.WithTransportCredentials(insecure.NewCredentials()), grpc.WithContextDialer(func(ctx context.Context, s string) (net.Conn, error) { return lis.DialContext(ctx) })})
		e.w.Mark("gossip.updateDag (client side) peer streams %s", m.name)
		var perr any
		done := make(chan struct{})
		go func() {
			defer close(done)
			defer func() {
				if p := recover(); p != nil {
					perr = p
				}
			}()
			g.UpdateDag(ctx, "passthrough:///bufnet")
		}()
		select {
		case <-done:
		case <-time.After(20 * time.Second):
			e.w.R.Note("updateDag against a malicious peer did not return within 20 s for " + m.name)
		}
		e.w.R.Eval(1)
		e.w.R.Count("c15_sync_streams", 1)
		e.w.R.Nontriv("gossip.updateDag/" + m.name)
		if perr != nil {
			e.w.R.Violate("C15", "panic/gossip.updateDag/"+firstRepoFrame(), fmt.Sprintf("DAG sync panicked when the peer streams a vertex with %s: %v", m.name, perr), nil)
		}
		time.Sleep(5 * time.Millisecond)
		srv.Stop()
		cancel()
		book.VerifClose()
		fl.Close()
		hc.Close()
	}
}

type maliciousPeer struct {
	protobufcompiled.UnimplementedGossipAPIServer
	e    *c15env
	m    vrxMut
	more int
}

func (p *maliciousPeer) LoadDag(_ *emptypb.Empty, stream protobufcompiled.GossipAPI_LoadDagServer) error {
	g := gossip.VerifVertexToProtoVertex(&p.e.rig.Genesis)
	stream.Send(g)
	v := p.e.freshVertex(false)
	p.m.apply(v)
	stream.Send(v)
	// the stream goes on after the shaped vertex: whatever the loader made of it, the client is still receiving
	for i := 0; i < p.more; i++ {
		if len(p.e.tail) == 0 {
			for k := 0; k < 64; k++ {
				p.e.tail = append(p.e.tail, p.e.freshVertex(false))
			}
		}
		if stream.Send(p.e.tail[i%len(p.e.tail)]) != nil {
			break
		}
	}
	return nil
}

// c15WireMutation mutates serialised valid requests (bit flips, byte deletion/duplication, length prefix edits) and
// sends what still decodes to the matching handler.
func c15WireMutation(e *c15env, n int) {
	rig := e.rig
	ctx := context.Background()
	rng := e.rng
	for i := 0; i < n; i++ {
		kind := i % 5
		var b []byte
		switch kind {
		case 0:
			b, _ = proto.Marshal(e.freshTrx(i%2 == 0))
		case 1:
			b, _ = proto.Marshal(svc.Sign(rig.Users[0], []byte(rig.Users[0].Addr)))
		case 2:
			v := e.freshVertex(i%3 == 0)
			b, _ = proto.Marshal(&protobufcompiled.VrxMsgGossip{Vertex: v, Gossipers: e.gossiperLists(v.Hash)["[valid]"]})
		case 3:
			t := e.freshTrx(true)
			b, _ = proto.Marshal(&protobufcompiled.TrxMsgGossip{Trx: t, Gossipers: e.gossiperLists(t.Hash)["[valid]"]})
		default:
			b, _ = proto.Marshal(e.connData(rig.Users[3], rig.Users[3].Addr, "127.0.0.1:1", uint64(i), true))
		}
		for k := 0; k < 1+rng.Intn(3); k++ {
			if len(b) == 0 {
				break
			}
			p := rng.Intn(len(b))
			switch rng.Intn(5) {
			case 0:
				b[p] ^= 1 << uint(rng.Intn(8))
			case 1:
				b = append(b[:p], b[p+1:]...)
			case 2:
				b = append(b[:p], append([]byte{b[p]}, b[p:]...)...)
			case 3:
				b[p] = byte(rng.Intn(40)) // often lands on a length prefix or tag
			default:
				q := rng.Intn(len(b))
				if q > p {
					b = append(b[:p], b[q:]...)
				}
			}
		}
		shape := fmt.Sprintf("wire-mutated kind %d (%d bytes)", kind, len(b))
		switch kind {
		case 0:
			var m protobufcompiled.Transaction
			if proto.Unmarshal(b, &m) != nil {
				continue
			}
			if i%2 == 0 {
				e.call("notary", "Propose", shape, false, func() (any, error) { return rig.Notary.Propose(ctx, &m) })
			} else {
				e.call("notary", "Confirm", shape, false, func() (any, error) { return rig.Notary.Confirm(ctx, &m) })
			}
		case 1:
			var m protobufcompiled.SignedHash
			if proto.Unmarshal(b, &m) != nil {
				continue
			}
			rig.Flash.RemoveAddress(m.Address)
			switch i % 7 {
			case 0:
				e.call("notary", "Reject", shape, false, func() (any, error) { return rig.Notary.Reject(ctx, &m) })
			case 1:
				e.call("notary", "Saved", shape, false, func() (any, error) { return rig.Notary.Saved(ctx, &m) })
			case 2:
				e.call("notary", "Balance", shape, false, func() (any, error) { return rig.Notary.Balance(ctx, &m) })
			case 3:
				e.call("notary", "Waiting", shape, false, func() (any, error) { return rig.Notary.Waiting(ctx, &m) })
			case 4:
				e.call("notary", "TransactionsInDAG", shape, false, func() (any, error) { return rig.Notary.TransactionsInDAG(ctx, &m) })
			case 5:
				e.call("gossip", "GetVertex", shape, false, func() (any, error) { return rig.Gossip.GetVertex(ctx, &m) })
			default:
				e.call("webhooks", "Webhooks", shape, false, func() (any, error) { return rig.Webhooks.Webhooks(ctx, &m) })
			}
		case 2:
			var m protobufcompiled.VrxMsgGossip
			if proto.Unmarshal(b, &m) != nil {
				continue
			}
			e.call("gossip", "GossipVrx", shape, false, func() (any, error) { return rig.Gossip.GossipVrx(ctx, &m) })
		case 3:
			var m protobufcompiled.TrxMsgGossip
			if proto.Unmarshal(b, &m) != nil {
				continue
			}
			e.call("gossip", "GossipTrx", shape, false, func() (any, error) { return rig.Gossip.GossipTrx(ctx, &m) })
		default:
			var m protobufcompiled.ConnectionData
			if proto.Unmarshal(b, &m) != nil {
				continue
			}
			e.call("gossip", "Announce", shape, false, func() (any, error) { return rig.Gossip.Announce(ctx, &m) })
		}
		e.w.R.Count("c15_wire_mutants_decodable", 1)
	}
}

func init() {
	core.Register(&core.Check{
		Spec: core.Spec{
			Prop:        "C15",
			Rule:        "Every handler of the notary, gossip and webhooks services (built through the hooks on one real node with real ledger, caches, challenge provider, juggler and stub peers) is called directly under recover(). Request shapes: for SignedHash requests (Reject, Saved, Balance, Waiting, TransactionsInDAG, GetVertex, Webhooks) the full product of address {empty, junk, valid, valid-checksum address of a 16/33 byte key, long} x data {nil, empty, 1, 31, 32, 33, 64, 1 MiB, own address, challenge / known hash} x hash {nil..64, the right digest} x signature {nil..64, the right signature}; for Transaction requests (Propose, Confirm, GossipTrx) and Vertex requests (GossipVrx) every field one at a time with the same shape classes (sub-messages nil/empty/valid), sampled pairs, stale and re-signed with the real key so that code behind the signature check is reached, combined with gossiper lists {nil, [empty], [valid], short/nil/long digest, short-key address, short signature, 300 entries}; ConnectionData (Announce, Discover) as a product. Client side: the missing-parent pull with peers answering GetVertex with shaped vertices, and the DAG sync against an in-memory (bufconn) peer streaming shaped vertices. Plus PRNG structural mutation of serialised valid requests (kept when proto.Unmarshal accepts them); this is not coverage guided. Verdicts: a recovered panic, or a worker crash (panic in a goroutine the handler started, attributed through the journal) is a violation; for a call that returned an error the digest of ledger snapshot (without the orphan buffer), awaiting listings of all known addresses and peer table must be unchanged. Non-trivial = every call; distinct by (service.rpc, shape, outcome). One batch calls the read endpoints from 16 goroutines at once with fresh, expired (one second challenge life), foreign and missing challenges (a crash there ends the worker and is attributed by the journal). Refused vertices that reference existing state are included: vertices carrying an awaiting transaction with something else wrong, and vertices under the hash of a vertex the node holds (genesis, tips; duplicate suppression cleared as after its 20 s window) naming an awaiting transaction. A state change that consists only of awaiting entries first observed at least 4.5 minutes earlier is the cache's own 5 minute expiry, not an effect of the request. Orphan flood: 470 correctly sealed vertices with unknown parents through GossipVrx, replays of the orphan buffer, more orphans, then a long alternation of replays and arrivals (every slot of the buffer filled, emptied and refilled many times). Empty ledger: every kind of correctly signed request on a node that has no genesis and has not loaded a DAG (a joining node that keeps serving). Expired entries: eight patterns of expired contracts among a wallet's five newest, then Waiting for both parties. Vertices refused after the ledger looked at their parents (children of overdrawing tips, second vertices for sealed transactions) must leave nothing behind but the dropped tip. Every read RPC after a truncation of a whole node (checkpointed and live transactions). Malicious sync peers keep streaming (up to three thousand vertices back to back) after a vertex the loader refuses.",
			Assumptions: []string{"a request is never a nil message (gRPC never delivers one); repeated fields never hold nil elements (not producible by decoding)", "the orphan buffer is not part of 'the ledger': a vertex arriving before its parent is reported as an error and parked"},
			MinEvals:    3000, MinNontriv: 500,
		},
		Plan: func(tier string) core.Plan {
			if tier == "thorough" {
				return core.Plan{Batches: 12, Parallel: 12, Timeout: 60 * time.Minute}
			}
			return core.Plan{Batches: 4, Parallel: 4, Timeout: 10 * time.Minute}
		},
		Worker: c15Worker,
		OnCrash: func(c core.Crash, res *core.Result) {
			if !c.TimedOut && containsAny(c.Stderr, "panic:", "fatal error:") {
				res.Violate("C15", "crash/"+core.TopRepoFrame(c.Stderr), "the node process crashed (panic outside the handler's own goroutine): "+core.CrashHeadline(c.Stderr)+"; request in flight: "+c.LastMark, map[string]any{"last_requests": c.Marks, "stderr_head": headN(c.Stderr, 2500)})
				return
			}
			res.Inconc(fmt.Sprintf("batch %d ended abnormally (timeout=%v): %s; last mark: %s", c.Batch, c.TimedOut, core.CrashHeadline(c.Stderr), c.LastMark))
		},
	})
}
