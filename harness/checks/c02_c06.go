package checks

import (
	"context"
	"fmt"
	"github.com/bartossh/Computantis/src/accountant"
	"github.com/bartossh/Computantis/src/gossip"
	"github.com/bartossh/Computantis/src/protobufcompiled"
	"github.com/bartossh/Computantis/src/transaction"
	"github.com/bartossh/Computantis/src/transformers"
	"time"
	"verifharness/svc"

	"github.com/bartossh/Computantis/src/spice"

	"verifharness/core"
	"verifharness/ledger"
)

// c02Witness is the fixed two-node history of the known finding `overdrawn/cross-branch`:
// the same funds spent through two nodes before gossip crosses, then merged.
func c02Witness(w *core.WorkerCtx) {
	rng := core.Rand(w.Seed, "C02w")
	world := ledger.NewWorld(rng, w.R, []string{"C02"}, allSnapOracles, "c02 fixed witness: W holds 10; node A seals W->X 10, node B seals W->Y 10, vertices exchanged, both nodes merge")
	defer world.Close()
	d, err := ledger.Setup(world, ledger.Profile{Nodes: 2, Users: 4, SupplyClass: 0, Delivery: "manual"})
	if err != nil {
		w.R.Inconc("witness setup failed: " + err.Error())
		return
	}
	_ = d
	a, b := world.Nodes[0], world.Nodes[1]
	u := world.Users
	f := world.NewTrx(u[0], u[1].Addr, spice.Melange{Currency: 10}, nil)
	fv, err := world.Propose(a, &f, "fund W")
	if err != nil {
		w.R.Inconc("witness funding failed")
		return
	}
	world.Deliver(b, &fv, "net")
	t1 := world.NewTrx(u[1], u[2].Addr, spice.Melange{Currency: 10}, nil)
	t2 := world.NewTrx(u[1], u[3].Addr, spice.Melange{Currency: 10}, nil)
	v1, e1 := world.Propose(a, &t1, "W->X on A")
	v2, e2 := world.Propose(b, &t2, "W->Y on B")
	if e1 != nil || e2 != nil {
		w.R.Inconc("witness proposals failed")
		return
	}
	world.Deliver(b, &v1, "net")
	world.Deliver(a, &v2, "net")
	for i := 0; i < 2; i++ {
		m := world.NewTrx(u[0], u[1].Addr, spice.Melange{}, []byte("merge"))
		mv, err := world.Propose(a, &m, "merge on A")
		if err == nil {
			world.Deliver(b, &mv, "net")
		}
	}
	world.CheckConservation(a)
	world.CheckConservation(b)
	w.R.Sample(2, map[string]any{"witness": world.Desc, "operations": world.Trace})
}

// c02Wrap: a wallet that owns nearly the whole 2^64-1 supply spends in two steps whose whole parts add up to exactly
// 2^64-1 while the fractional parts carry: the running total of its spends sits on the wrap-around boundary. The second
// spend exceeds what is left and must not be confirmed.
func c02Wrap(w *core.WorkerCtx) {
	rng := core.Rand(w.Seed, "C02wrap")
	desc := "c02 spends whose total sits on the 2^64 boundary: supply (2^64-1).999..., spend 2^63.6, then (2^63-1).5"
	world := ledger.NewWorld(rng, w.R, []string{"C02", "C01"}, allSnapOracles, desc)
	defer world.Close()
	if _, err := ledger.Setup(world, ledger.Profile{Nodes: 2, Users: 4, SupplyClass: 2, Delivery: "lockstep"}); err != nil {
		w.R.Inconc("wrap witness setup failed: " + err.Error())
		return
	}
	n0, n1 := world.Nodes[0], world.Nodes[1]
	u := world.Users
	step := func(amt spice.Melange, what string) {
		t := world.NewTrx(u[0], u[1].Addr, amt, nil)
		if v, err := world.Propose(n0, &t, what); err == nil {
			world.Deliver(n1, &v, "net")
		}
		for i := 0; i < 2; i++ {
			m := world.NewTrx(u[2], u[3].Addr, spice.Melange{}, []byte("confirm"))
			if v, err := world.Propose(n0, &m, "confirm"); err == nil {
				world.Deliver(n1, &v, "net")
			}
		}
	}
	step(spice.Melange{Currency: 1 << 63, SupplementaryCurrency: 6 * (ledger.E18 / 10)}, "first spend 2^63.6")
	step(spice.Melange{Currency: 1<<63 - 1, SupplementaryCurrency: 5 * (ledger.E18 / 10)}, "second spend (2^63-1).5: whole parts now add up to 2^64-1 with a carry")
	step(spice.Melange{Currency: 1<<63 - 1, SupplementaryCurrency: 4 * (ledger.E18 / 10)}, "third spend (2^63-1).4: exactly what is left plus 0.000000000000000001 less")
	for _, n := range world.Nodes {
		world.CheckConservation(n)
	}
	world.NontrivFor("C02", "wrap-boundary-witness")
	world.EvalFor("C02", 1)
}

// c02ProbesAfterTruncation: a single chain of 1040 transfers among five wallets, a truncation from its only tip, then
// the overspend probes: no wallet may spend one unit more than it owns over all vertices, live and checkpointed, each
// counted once - in particular not the wallets paid right around the cut.
func c02ProbesAfterTruncation(w *core.WorkerCtx) {
	rng := core.Rand(w.Seed, "C02probes", w.Batch)
	desc := "c02 probes after truncation: chain of 1040 transfers, truncation, every wallet tries to spend one unit more than it owns"
	world := ledger.NewWorld(rng, w.R, []string{"C02"}, allSnapOracles, desc)
	defer world.Close()
	d, err := ledger.Setup(world, ledger.Profile{Nodes: 1, Users: 6, SupplyClass: 0, Delivery: "lockstep"})
	if err != nil {
		w.R.Inconc("setup failed: " + err.Error())
		return
	}
	n := world.Nodes[0]
	u := world.Users
	world.Quiet = true
	for i := 0; i < 1040; i++ {
		// every wallet is paid in turn, so that whichever vertex ends up next to the cut pays one of them
		t := world.NewTrx(u[0], u[1+i%5].Addr, spice.Melange{SupplementaryCurrency: uint64(100 + i%9)}, nil)
		world.Propose(n, &t, "grow")
	}
	world.Quiet = false
	world.Observe(n, ledger.OpInfo{Kind: "milestone", OK: true})
	world.TruncateChecked(n, d, false)
	world.OverspendProbes(n, d)
	w.R.Count("c02_probe_scenarios_after_truncation", 1)
}

// c02SyncAfter: conservation also holds on a node that obtained the ledger by syncing. After a multi-node scenario
// (its ledger has forks and merges) a fresh node syncs from node 0, merges the tips, and is held to the conservation
// oracle (its own reported balances against the reference over all vertices) and to the overspend probes.
func c02SyncAfter(d *ledger.Driver) {
	world := d.W
	src := world.Nodes[0]
	if s, err := ledger.TakeSnap(src.Book); err != nil || len(s.Stored) > 0 || src.BackgroundMayAct(s) {
		return
	}
	n, err := world.AddSyncedNode("SY", src)
	if err != nil || n == nil {
		return
	}
	// first the probes on the ledger as it was loaded (whatever tips it has), then on a single tip
	world.OverspendProbesOnAnyTips(n, nil)
	// merge the tips of the synced node (a proposal takes two at a time) until one is left: then every vertex it holds is
	// counted by its balance answers
	for i := 0; i < 60; i++ {
		t := world.NewTrx(world.Users[0], world.Users[1].Addr, spice.Melange{}, []byte("after sync"))
		world.Propose(n, &t, "on the synced node")
		if i >= 2 && len(n.Prev.Leaves) == 1 {
			break
		}
	}
	world.CheckConservation(n)
	world.OverspendProbes(n, nil)
	world.NontrivFor("C02", "synced-node-conservation")
	world.Res.Count("c02_synced_nodes_checked", 1)
	world.CloseNode(n)
}

func c02Worker(w *core.WorkerCtx) {
	if w.Batch == 4 {
		c02ProbesAfterTruncation(w)
	}
	if w.Batch == 1 {
		c02Wrap(w)
	}
	if w.Batch == 2 {
		c01TruncationRace(w, []string{"C02"})
	}
	if w.Batch == 3 {
		c05SeamProbes(w, []string{"C02"})
	}
	if w.Batch == 0 {
		c02Witness(w)
	}
	if w.Batch == 5 || (w.Thorough() && w.Batch%20 == 5) {
		c02OneSpendTwoNodes(w)
	}
	if w.Batch == 6 || (w.Thorough() && w.Batch%20 == 6) {
		c02TrustedChild(w)
	}
	if w.Batch == 7 || (w.Thorough() && w.Batch%20 == 7) {
		c02RootTip(w, []string{"C02"})
	}
	n := w.Pick(10, 50)
	// (a) single node, sequential: the ledger is a single chain, conservation must hold strictly
	runRandomScenarios(w, []string{"C02"}, n, func(p *ledger.Profile) {
		p.Delivery = "lockstep"
		p.Nodes = 1
		p.PForge, p.PReplay, p.PRules, p.PTrust, p.PConcurrent = 0, 0, 0, 0, 0
		p.POverdraft = 0.3
		p.Name = "single-chain/" + p.Name
	}, nil, func(d *ledger.Driver) {
		d.QuietEvery = 8
		d.OnQuiet = func(d *ledger.Driver) {
			for _, nd := range d.W.Nodes {
				d.W.CheckConservation(nd)
			}
		}
	})
	// (b) concurrent conflict through different nodes, delayed and partitioned delivery, forged branches
	runRandomScenarios(w, []string{"C02"}, n, func(p *ledger.Profile) {
		if p.Nodes < 2 {
			p.Nodes = 2
		}
		if p.Delivery == "lockstep" {
			p.Delivery = "delayed"
		}
		p.PTrust = 0
		p.POverdraft = 0.2
		p.Name = "conflict/" + p.Name
	}, c02SyncAfter, func(d *ledger.Driver) {
		d.QuietEvery = 10
		d.OnQuiet = func(d *ledger.Driver) {
			for _, nd := range d.W.Nodes {
				d.W.CheckConservation(nd)
			}
		}
	})
	c02Truncation(w)
}

// c06Notary: the balance a wallet owner is told through the node's API (notary Balance, which memorises answers)
// equals the ledger's own answer after every kind of change: a transfer sealed on proposal, a contract with spice
// confirmed or rejected by its receiver, a vertex that arrived by gossip. Both wallets of the transaction are asked
// before the change (so that an answer is memorised) and after it; the invalidation runs in goroutines of the node,
// so the comparison polls (bounded) and only a value that stays wrong is a violation.
func c06Notary(w *core.WorkerCtx) {
	r := w.R
	rng := core.Rand(w.Seed, "C06notary", w.Batch)
	rig, err := svc.New(4, 60, 2048)
	if err != nil {
		r.Inconc("cannot build the node: " + err.Error())
		return
	}
	defer rig.Close()
	ctx := context.Background()
	u := rig.Users
	ask := func(a *ledger.Actor) (string, bool) {
		rig.Flash.RemoveAddress(a.Addr)
		sp, err := rig.Notary.Balance(ctx, svc.Sign(a, []byte(a.Addr)))
		if err != nil {
			return "error", false
		}
		// the node memorises the answer in a goroutine of its own after it has replied. The client of this workload is one
		// that waits until that has happened before it does anything else (on a loaded machine the goroutine can run
		// after the next operation's invalidation and bring the old answer back: observed, DESIGN 5.4, not judged)
		for try := 0; try < 400; try++ {
			if _, err := rig.Cache.ReadBalance(a.Addr); err == nil {
				break
			}
			time.Sleep(500 * time.Microsecond)
		}
		return ledger.MelStr(spice.Melange{Currency: sp.Currency, SupplementaryCurrency: sp.SupplementaryCurrency}), true
	}
	ledgerSays := func(a *ledger.Actor) (string, bool) {
		b, err := rig.Book.CalculateBalance(ctx, a.Addr)
		if err != nil {
			return "error", false
		}
		return ledger.MelStr(b.Spice), true
	}
	propose := func(t transaction.Transaction) error {
		p, err := transformers.TrxToProtoTrx(t)
		if err != nil {
			return err
		}
		_, err = rig.Notary.Propose(ctx, p)
		return err
	}
	// funding
	for i := 1; i < len(u); i++ {
		propose(ledger.ForgeTrx(u[0], u[i].Addr, fmt.Sprintf("fund %d", i), nil, spice.Melange{Currency: 1000}, time.Now().Add(-time.Minute)))
	}
	ops := w.Pick(24, 300)
	var lateOrphans []ledger.H
	for i := 0; i < ops; i++ {
		a, b := u[rng.Intn(len(u))], u[rng.Intn(len(u))]
		if a == b {
			continue
		}
		amt := spice.Melange{Currency: uint64(rng.Intn(3)), SupplementaryCurrency: uint64(1 + rng.Intn(1000))}
		kind := []string{"transfer", "contract-confirmed", "contract-rejected", "gossiped-vertex", "gossiped-orphan"}[i%5]
		w.Mark("c06 notary op %d %s", i, kind)
		// memorise both answers
		ask(a)
		ask(b)
		time.Sleep(2 * time.Millisecond) // the node stores the memorised answer in a goroutine
		if i%2 == 1 {
			// as after half a minute without a request: the request throttle (20 s) has forgotten both wallets, the
			// memorised balances (5 min) are still there
			rig.Flash.RemoveAddress(a.Addr)
			rig.Flash.RemoveAddress(b.Addr)
		}
		var opErr error
		switch kind {
		case "transfer":
			opErr = propose(ledger.ForgeTrx(a, b.Addr, fmt.Sprintf("t %d", i), nil, amt, time.Now().Add(-time.Minute)))
		case "contract-confirmed", "contract-rejected":
			t := ledger.ForgeTrx(a, b.Addr, fmt.Sprintf("c %d", i), []byte("contract with spice"), amt, time.Now().Add(-time.Minute))
			if opErr = propose(t); opErr == nil {
				if kind == "contract-confirmed" {
					ledger.CounterSign(&t, b)
					p, _ := transformers.TrxToProtoTrx(t)
					_, opErr = rig.Notary.Confirm(ctx, p)
				} else {
					_, opErr = rig.Notary.Reject(ctx, svc.Sign(b, t.Hash[:]))
				}
			}
		case "gossiped-orphan":
			// the vertex arrives before its parent, is parked, and is admitted by the node's retry routine later
			s, _ := ledger.TakeSnap(rig.Book)
			var tip ledger.H
			var wgt uint64
			for h := range s.Leaves {
				tip, wgt = h, s.Live[h].V.Weight
			}
			pt := ledger.ForgeTrx(u[0], u[1].Addr, fmt.Sprintf("gp %d", i), []byte("parent"), spice.Melange{}, time.Now().Add(-time.Minute))
			pv := ledger.ForgeVertex(rig.PeerAct[i%2], pt, tip, tip, wgt+1, time.Now().Add(-time.Second))
			t := ledger.ForgeTrx(a, b.Addr, fmt.Sprintf("go %d", i), nil, amt, time.Now().Add(-time.Minute))
			cv := ledger.ForgeVertex(rig.PeerAct[(i+1)%2], t, pv.Hash, pv.Hash, wgt+2, time.Now().Add(-time.Second))
			rig.Gossip.GossipVrx(ctx, &protobufcompiled.VrxMsgGossip{Vertex: gossip.VerifVertexToProtoVertex(&cv)})
			_, opErr = rig.Gossip.GossipVrx(ctx, &protobufcompiled.VrxMsgGossip{Vertex: gossip.VerifVertexToProtoVertex(&pv)})
			for k := 0; k < 4; k++ {
				rig.Book.VerifRetryOne(ctx)
			}
			// the node's own retry ticker may have taken the parked copy at any moment; wait (bounded) until the copy
			// is in the ledger, and remember it when it is not: it can still be admitted during a later operation
			admitted := false
			for try := 0; try < 400 && !admitted; try++ {
				if _, err := rig.Book.ReadVertex(ctx, cv.Hash); err == nil {
					admitted = true
				} else {
					rig.Book.VerifRetryOne(ctx)
					time.Sleep(5 * time.Millisecond)
				}
			}
			if !admitted {
				lateOrphans = append(lateOrphans, cv.Hash)
			}
		default:
			s, _ := ledger.TakeSnap(rig.Book)
			var tip ledger.H
			var wgt uint64
			for h := range s.Leaves {
				tip, wgt = h, s.Live[h].V.Weight
			}
			t := ledger.ForgeTrx(a, b.Addr, fmt.Sprintf("g %d", i), nil, amt, time.Now().Add(-time.Minute))
			v := ledger.ForgeVertex(rig.PeerAct[i%2], t, tip, tip, wgt+1, time.Now().Add(-time.Second))
			_, opErr = rig.Gossip.GossipVrx(ctx, &protobufcompiled.VrxMsgGossip{Vertex: gossip.VerifVertexToProtoVertex(&v)})
		}
		// a follow-up so that the vertex is confirmed and the ledger has one tip again
		propose(ledger.ForgeTrx(u[0], u[1].Addr, fmt.Sprintf("follow %d", i), []byte("f"), spice.Melange{}, time.Now().Add(-time.Minute)))
		if s, err := ledger.TakeSnap(rig.Book); err != nil || len(s.Leaves) != 1 {
			continue
		}
		for ri, who := range []*ledger.Actor{a, b} {
			role := []string{"issuer", "receiver"}[ri]
			want, wok := ledgerSays(who)
			got, gok := "", false
			for try := 0; try < 400; try++ {
				got, gok = ask(who)
				if got == want && gok == wok {
					break
				}
				time.Sleep(5 * time.Millisecond)
			}
			r.Eval(1)
			r.Count("c06_notary_balance_comparisons", 1)
			r.Nontriv(fmt.Sprintf("notary-balance/%s/%s/op-ok=%v", kind, role, opErr == nil))
			if got != want || gok != wok {
				sig := "notary-balance-stale/" + kind + "/" + role
				if kind == "gossiped-orphan" {
					sig = "notary-balance-stale/admitted-by-retry" // known finding: the retry routine has no way to tell the cache
				}
				r.Violate("C06", sig, fmt.Sprintf("after a %s (result %v) the node keeps answering the %s's balance query with %s; its ledger computes %s", kind, opErr, role, got, want), nil)
			}
		}
	}
	// a balance request that cannot be answered: the wallet has just proposed more than it holds (a tentative tip that
	// the next proposals will drop). The ledger answers with an error, and so must the node - on the first request
	// and on every later one; once the tip is gone the node answers with the ledger's number again.
	for k := 0; k < w.Pick(4, 16); k++ {
		a := u[2+k%2]
		w.Mark("c06 notary: unanswerable balance %d", k)
		have, ok := ledgerSays(a)
		if !ok {
			continue
		}
		var cur, sup uint64
		fmt.Sscanf(have, "%d.%d", &cur, &sup)
		if propose(ledger.ForgeTrx(a, u[0].Addr, fmt.Sprintf("more than I hold %d", k), nil, spice.Melange{Currency: cur + 1 + uint64(k)}, time.Now().Add(-time.Minute))) != nil {
			continue
		}
		for phase := 0; phase < 2; phase++ {
			if phase == 1 {
				for f := 0; f < 2; f++ {
					propose(ledger.ForgeTrx(u[0], u[1].Addr, fmt.Sprintf("judge %d.%d", k, f), nil, spice.Melange{SupplementaryCurrency: 1}, time.Now().Add(-time.Minute)))
				}
			}
			if s, err := ledger.TakeSnap(rig.Book); err != nil || len(s.Leaves) != 1 {
				break
			}
			want, wok := ledgerSays(a)
			got, gok := "", false
			asked := 0
			for try := 0; try < 400; try++ {
				got, gok = ask(a)
				asked++
				if got == want && gok == wok && asked >= 3 {
					break
				}
				if got != want || gok != wok {
					time.Sleep(5 * time.Millisecond)
				}
			}
			r.Eval(1)
			r.Count("c06_notary_balance_comparisons", 1)
			r.Nontriv(fmt.Sprintf("notary-balance/unanswerable/phase%d/ledger-answers=%v", phase, wok))
			if got != want || gok != wok {
				r.Violate("C06", fmt.Sprintf("notary-balance-stale/unanswerable/phase%d", phase), fmt.Sprintf("wallet %s proposed more than it holds; %s the node keeps answering its balance query with %s, its ledger computes %s", a.Name, []string{"while the tentative tip stands", "after the tip was dropped"}[phase], got, want), nil)
			}
		}
	}
}

// c06Drained: a wallet is funded, the funding is checkpointed by a first truncation, the wallet spends everything, and a
// second truncation checkpoints that spend: its checkpointed funds must drop to exactly zero and every balance answer
// with them (a single chain, so the truncations always start from the one tip).
func c06Drained(w *core.WorkerCtx, report []string) {
	rng := core.Rand(w.Seed, "C06drained")
	desc := "c06 drained wallet: D funded 7.25, 1020 vertices, truncation, D spends 7.25, 1020 vertices, truncation, balance of D"
	world := ledger.NewWorld(rng, w.R, report, allSnapOracles, desc)
	defer world.Close()
	d, err := ledger.Setup(world, ledger.Profile{Nodes: 1, Users: 4, SupplyClass: 0, Delivery: "lockstep"})
	if err != nil {
		w.R.Inconc("setup failed: " + err.Error())
		return
	}
	n := world.Nodes[0]
	u := world.Users
	grow := func(k int) {
		world.Quiet = true
		for i := 0; i < k; i++ {
			t := world.NewTrx(u[0], u[1+i%2].Addr, spice.Melange{SupplementaryCurrency: uint64(1 + i%9)}, nil)
			world.Propose(n, &t, "grow")
		}
		world.Quiet = false
		world.Observe(n, ledger.OpInfo{Kind: "milestone", OK: true})
	}
	f := world.NewTrx(u[0], u[3].Addr, spice.Melange{Currency: 7, SupplementaryCurrency: ledger.E18 / 4}, nil)
	fv, err := world.Propose(n, &f, "fund D")
	if err != nil {
		w.R.Inconc("funding failed")
		return
	}
	grow(1020)
	for a := 0; a < 3; a++ {
		world.TruncateChecked(n, d, false)
		if _, ok := n.Prev.Stored[fv.Hash]; ok {
			break
		}
		grow(60)
	}
	sp := world.NewTrx(u[3], u[0].Addr, spice.Melange{Currency: 7, SupplementaryCurrency: ledger.E18 / 4}, nil)
	sv, err := world.Propose(n, &sp, "D spends everything")
	if err != nil {
		w.R.Note("drained wallet: the spend was refused: " + err.Error())
		return
	}
	grow(1020)
	for a := 0; a < 3; a++ {
		world.TruncateChecked(n, d, false)
		if _, ok := n.Prev.Stored[sv.Hash]; ok {
			break
		}
		grow(60)
	}
	_, drained := n.Prev.Stored[sv.Hash]
	addrs := append(world.AllAddresses(), ledger.NewActor("never-seen").Addr)
	world.CheckBalances(n, addrs)
	for _, p := range report {
		world.NontrivFor(p, fmt.Sprintf("drained-wallet/spend-checkpointed=%v", drained))
		world.EvalFor(p, 1)
	}
	// the drained wallet owns nothing: it must not be able to spend a single unit (nor may anybody else overspend)
	world.OverspendProbes(n, d)
	w.R.Count("c06_drained_wallet_scenarios", 1)
}

func c06Worker(w *core.WorkerCtx) {
	if w.Batch == 2 {
		c06Drained(w, []string{"C06"})
	}
	if w.Batch == 1 {
		c06Notary(w)
	}
	n := w.Pick(12, 60)
	runRandomScenarios(w, []string{"C06"}, n, func(p *ledger.Profile) {
		p.PSelf = 0.15
		p.PBoundary = 0.5
	}, nil, func(d *ledger.Driver) {
		d.QuietEvery = 6
		d.OnQuiet = func(d *ledger.Driver) {
			addrs := append(d.W.AllAddresses(), ledger.NewActor("never-seen").Addr)
			for _, nd := range d.W.Nodes {
				d.W.CheckBalances(nd, addrs)
			}
			d.W.CheckAgreement(addrs)
		}
	})
	c06Truncation(w)
}

func init() {
	core.Register(&core.Check{
		Spec: core.Spec{
			Prop:        "C02",
			Rule:        "At quiescent points (every 8-10 operations and at the end) of (a) single-node sequential histories whose ledger is a single chain (detected on the snapshot: any overdrawn wallet there is a violation) and (b) conflicting histories (same funds spent through different nodes before gossip crosses, partitions healed, forged branches, then merged) the union of confirmed vertices (live+checkpoint) of every node is summed with big integers: no wallet but the genesis issuer may have spent more than it received, totals must equal what the genesis wallet issued and never exceed the supply; with a single tip the node's own CalculateBalance answers must equal the reference per wallet and add up. Overdrawn wallets are classified by the C01 per-vertex verdicts: own-history / single-chain (violations) vs cross-branch (known finding). Non-trivial = every quiescent evaluation; distinct by (chain?, confirmed-count bucket, tips bucket, checkpoint present, overdrawn count). Batch 0 first replays the fixed 2-node witness of the known finding. Fixed witness in every run: a wallet owning (2^64-1).999... spends 2^63.6, then (2^63-1).5 (whole parts add up to exactly 2^64-1 with a fractional carry, the running total sits on the wrap-around boundary), then (2^63-1).4; what exceeds the funds must not be confirmed. One batch runs the truncation-race scenario (overdrawing tentative tip, truncation racing with 24 proposals) under the conservation oracle. Overspend probes: at the end of every long scenario (single tip) each wallet proposes one smallest unit more than it owns over all vertices of the ledger, each counted once, followed by proposals that make the node judge that tip; every second wallet then spends exactly what it owns. One batch runs the probes on wallets that own amounts on both sides of the currency seam. After every multi-node scenario a fresh node syncs from node 0 and is probed on the tips it loaded and again after merging them; one batch probes a plain 1040-vertex chain right after its truncation. One transaction handed to two nodes at once (the gossiped vertex verifies slowly while the node seals its own copy): confirmed once. A trusted sealer's vertices without spice on overdrawing tips of a stranger (gossip, orphan buffer, one of two parents). An overdrawing tentative tip whose parent a truncation cuts away (a second root), then the node's own vertices.",
			Assumptions: []string{ledgerAssume, "scenarios of this check use no trusted sealers (the statement excludes vertices sealed under the exemption)"},
			MinEvals:    100, MinNontriv: 10,
		},
		Plan:   ledgerPlan(8, 56),
		Worker: c02Worker,
	})
	core.Register(&core.Check{
		Spec: core.Spec{
			Prop:        "C06",
			Rule:        "At quiescent points of random multi-node histories (all generators, self transfers, boundary amounts, post-truncation ledgers) CalculateBalance is queried for every wallet, node wallet, sealer and a never-seen address, repeatedly (map order decides the tip): every answer must equal checkpoint + inflow - outflow over one current tip and its live ancestors (big integers, from the snapshot), an error is admissible only when some tip's sum is negative or unrepresentable; ledger digest equal before/after; nodes with identical vertex sets hold identical checkpoint funds and, single-tipped, answer identically. Non-trivial = queries on ledgers with several tips, checkpoint funds, invalid sums or issuer=receiver wallets; distinct by (tips bucket, distinct sums, invalid, funds, self). One batch asks through the node's API instead: on a real node (notary + gossip services) both wallets of a transfer ask notary Balance before (so that an answer is memorised) and after a transfer sealed on proposal, a contract with spice confirmed / rejected by its receiver, and a gossiped vertex; the answer must become the ledger's own CalculateBalance answer (bounded polling, the node invalidates in goroutines; only a value that stays wrong is a violation). A fixed single-chain scenario funds a wallet, checkpoints the funding, lets the wallet spend everything and checkpoints that spend: the balance must be exactly zero. The notary-level batch also admits a transfer through the orphan retry path (known finding: memorised balances stay stale there). Around every judged truncation four clients keep asking for balances; every answer, computed before, during or after the cut, must be the pre-truncation answer. The notary workload also forgets the request throttle before gossiped changes arrive. A wallet that proposed more than it holds asks for its balance while the tentative tip stands and after it was dropped: an error stays an error, never a memorised number.",
			Assumptions: []string{ledgerAssume},
			MinEvals:    500, MinNontriv: 8,
		},
		Plan:   ledgerPlan(8, 56),
		Worker: c06Worker,
	})
	_ = fmt.Sprint
}

// c02OneSpendTwoNodes: an honest client hands ONE transaction, which spends all its wallet holds, to two nodes at the
// same moment. Each seals it; the vertex of the first node reaches the second while that one is sealing its own copy
// (the gossiped vertex has passed the look-ups made before the ledger lock and is still being verified). Whatever the
// order inside the second node, the spend may be confirmed there once; the wallet received X and must not have spent 2X.
func c02OneSpendTwoNodes(w *core.WorkerCtx) {
	rng := core.Rand(w.Seed, "C02twonodes", w.Batch)
	desc := fmt.Sprintf("c02 one spend sealed at two nodes at once seed=%d batch=%d", w.Seed, w.Batch)
	w.Mark("%s", desc)
	for round := 0; round < w.Pick(8, 30); round++ {
		world := ledger.NewWorld(rng, w.R, []string{"C02"}, allSnapOracles, desc)
		world.SlowRepeat = 4 * time.Millisecond
		if _, err := ledger.Setup(world, ledger.Profile{Nodes: 2, Users: 4, SupplyClass: 0, Delivery: "lockstep"}); err != nil {
			w.R.Inconc("setup failed: " + err.Error())
			world.Close()
			return
		}
		b, c := world.Nodes[0], world.Nodes[1]
		u := world.Users
		amt := spice.Melange{Currency: uint64(1 + rng.Intn(1000)), SupplementaryCurrency: uint64(rng.Intn(1000))}
		ft := world.NewTrx(u[0], u[1].Addr, amt, nil)
		fv, err := world.Propose(b, &ft, "fund")
		if err != nil || world.Deliver(c, &fv, "fund") != nil {
			world.Close()
			continue
		}
		t := world.NewTrx(u[1], u[2].Addr, amt, nil)
		vb, err := world.Propose(b, &t, "the spend sealed by the first node")
		if err != nil {
			world.Close()
			continue
		}
		world.SlowAlways(vb.Hash)
		gap := time.Duration(100+rng.Intn(900)) * time.Microsecond
		sealFirst := round%4 == 3 // now and then the other way round: the node seals first, the gossip arrives right after
		var errGossip, errSeal error
		world.Concurrent(c, []func(){
			func() {
				if sealFirst {
					time.Sleep(gap)
				}
				errGossip = c.Book.AddLeaf(world.Ctx, ledger.CloneVertex(&vb))
			},
			func() {
				if !sealFirst {
					time.Sleep(gap)
				}
				tt := t
				va, err := c.Book.CreateLeaf(world.Ctx, &tt)
				errSeal = err
				if err == nil {
					world.Hist.Add(&va)
				}
			},
		})
		world.Observe(c, ledger.OpInfo{Kind: "concurrent", OK: true})
		// the next vertex takes what tips there are as its parents
		for k := 0; k < 2; k++ {
			m := world.NewTrx(u[0], u[3].Addr, spice.Melange{}, []byte(fmt.Sprintf("next %d", k)))
			world.Propose(c, &m, "next vertex")
		}
		world.CheckConservation(c)
		w.R.Count("c02_one_spend_handed_to_two_nodes_at_once", 1)
		world.NontrivFor("C02", fmt.Sprintf("one-spend-two-nodes/gossip-admitted=%v/sealed=%v/seal-first=%v", errGossip == nil, errSeal == nil, sealFirst))
		world.Close()
	}
}

// c02TrustedChild: the node trusts a sealer. That sealer's vertices skip the funds test - their parents do not. An
// overdrawing vertex sealed by somebody the node does not trust arrives and becomes a tentative tip; a vertex of the
// trusted sealer that carries no spice names it as its parent (by gossip, by the orphan buffer, and as one of two
// parents). The overdrawing tip must be dropped as always: over the confirmed vertices no wallet is overdrawn.
func c02TrustedChild(w *core.WorkerCtx) {
	rng := core.Rand(w.Seed, "C02trustedchild", w.Batch)
	desc := fmt.Sprintf("c02 a trusted sealer's vertex names an overdrawing tip as its parent seed=%d batch=%d", w.Seed, w.Batch)
	w.Mark("%s", desc)
	world := ledger.NewWorld(rng, w.R, []string{"C02"}, allSnapOracles, desc)
	defer world.Close()
	if _, err := ledger.Setup(world, ledger.Profile{Nodes: 1, Users: 5, SupplyClass: 0, Delivery: "lockstep"}); err != nil {
		w.R.Inconc("setup failed: " + err.Error())
		return
	}
	n := world.Nodes[0]
	u := world.Users
	trusted, stranger := world.Sealers[0], world.Sealers[1]
	world.Trust(n, trusted.Addr, true)
	for i := 1; i < len(u); i++ {
		t := world.NewTrx(u[0], u[i].Addr, spice.Melange{Currency: 10}, nil)
		world.Propose(n, &t, "fund")
	}
	for round := 0; round < w.Pick(9, 30); round++ {
		var tip ledger.H
		var wgt uint64
		found := false
		for h := range n.Prev.Leaves {
			if v, ok := n.Prev.Vertex(h); ok && v.Weight >= wgt {
				tip, wgt, found = h, v.Weight, true
			}
		}
		if !found {
			break
		}
		from := u[1+round%4]
		ot := world.NewTrx(from, u[1+(round+1)%4].Addr, spice.Melange{Currency: uint64(1000 + rng.Intn(1000))}, nil)
		ov := ledger.ForgeVertex(stranger, ot, tip, tip, wgt+1, world.Now())
		ct := world.NewTrx(u[0], u[1].Addr, spice.Melange{}, []byte(fmt.Sprintf("sealed by the trusted sealer %d", round)))
		var cerr error
		entry := []string{"gossip", "orphan-replay", "two-parents"}[round%3]
		switch entry {
		case "gossip":
			world.Deliver(n, &ov, "overdrawing vertex of a stranger")
			cv := ledger.ForgeVertex(trusted, ct, ov.Hash, ov.Hash, wgt+2, world.Now())
			cerr = world.Deliver(n, &cv, "vertex of the trusted sealer on the overdrawing tip")
		case "orphan-replay":
			cv := ledger.ForgeVertex(trusted, ct, ov.Hash, ov.Hash, wgt+2, world.Now())
			cerr = world.Deliver(n, &cv, "vertex of the trusted sealer before its overdrawing parent")
			world.Deliver(n, &ov, "overdrawing vertex of a stranger")
			for k := 0; k < 4; k++ {
				world.Retry(n)
			}
		default:
			world.Deliver(n, &ov, "overdrawing vertex of a stranger")
			cv := ledger.ForgeVertex(trusted, ct, tip, ov.Hash, wgt+2, world.Now())
			cerr = world.Deliver(n, &cv, "vertex of the trusted sealer on the old tip and the overdrawing tip")
		}
		for k := 0; k < 2; k++ {
			m := world.NewTrx(u[0], u[2].Addr, spice.Melange{}, []byte("next"))
			world.Propose(n, &m, "next vertex")
		}
		world.CheckConservation(n)
		w.R.Count("c02_trusted_children_of_overdrawing_tips", 1)
		world.NontrivFor("C02", fmt.Sprintf("trusted-child/%s/child-refused=%v", entry, cerr != nil))
	}
}

// c02RootTip: a gossiped vertex that overdraws its issuer hangs off an old vertex and is still a tentative tip when the
// node truncates; the truncation cuts its parent away, so that the tip has no live parent left (a second root of the
// graph). The node's next own vertices choose their parents among the tips: the overdrawing one must be dropped as
// always - over the confirmed vertices, live and checkpointed, no wallet is overdrawn.
func c02RootTip(w *core.WorkerCtx, props []string) {
	rng := core.Rand(w.Seed, props[0]+"roottip", w.Batch)
	for variant := 0; variant < w.Pick(2, 4); variant++ {
		desc := fmt.Sprintf("c02 an overdrawing tentative tip whose parent is cut away by a truncation, variant %d seed=%d batch=%d", variant, w.Seed, w.Batch)
		w.Mark("%s", desc)
		world := ledger.NewWorld(rng, w.R, props, allSnapOracles, desc)
		if _, err := ledger.Setup(world, ledger.Profile{Nodes: 1, Users: 4, SupplyClass: 0, Delivery: "lockstep"}); err != nil {
			w.R.Inconc("setup failed: " + err.Error())
			world.Close()
			return
		}
		n := world.Nodes[0]
		u := world.Users
		f := world.NewTrx(u[0], u[1].Addr, spice.Melange{Currency: 10}, nil)
		world.Propose(n, &f, "fund")
		var old accountant.Vertex
		for i := 0; i < 6; i++ {
			t := world.NewTrx(u[0], u[2].Addr, spice.Melange{}, []byte(fmt.Sprintf("early %d", i)))
			if v, err := world.Propose(n, &t, "early"); err == nil && i == 2+variant%3 {
				old = v
			}
		}
		world.Quiet = true
		for i := 0; i < 1040+rng.Intn(30); i++ {
			t := world.NewTrx(u[0], u[2+i%2].Addr, spice.Melange{}, []byte(fmt.Sprintf("contract %d", i)))
			world.Propose(n, &t, "grow")
		}
		world.Quiet = false
		world.Observe(n, ledger.OpInfo{Kind: "milestone", OK: true})
		ot := world.NewTrx(u[1], u[3].Addr, spice.Melange{Currency: 50}, nil)
		ov := ledger.ForgeVertex(world.Sealers[0], ot, old.Hash, old.Hash, old.Weight+1, world.Now())
		derr := world.Deliver(n, &ov, "overdrawing vertex on an old parent")
		cut := false
		for a := 0; a < 12 && !cut; a++ {
			world.Truncate(n)
			_, cut = n.Prev.Stored[old.Hash]
		}
		_, stillTip := n.Prev.Leaves[ov.Hash]
		for k := 0; k < 3; k++ {
			m := world.NewTrx(u[0], u[2].Addr, spice.Melange{}, []byte(fmt.Sprintf("after the truncation %d", k)))
			world.Propose(n, &m, "the node's next own vertex")
		}
		world.CheckConservation(n)
		if props[0] == "C07" {
			// the wallet held 10 before the truncation and holds 10 after it: a transfer of 50 that the node would have
			// refused as a parent before the cut must not become a confirmed vertex after it
			world.EvalFor("C07", 1)
			if _, present := n.Prev.Vertex(ov.Hash); present && cut {
				if _, leaf := n.Prev.Leaves[ov.Hash]; !leaf {
					world.Violate("C07", "transfer-validated-against-other-funds-after-truncation", fmt.Sprintf("node %s: wallet %s held 10 before and after the truncation; its transfer of 50 sat on a tentative tip whose parent the truncation cut away, and the node's next own vertices confirmed it (admitted by gossip: %v)", n.Name, world.NameOf(u[1].Addr), derr == nil))
				}
			}
		}
		w.R.Count("c02_tentative_tips_orphaned_by_a_truncation", 1)
		world.NontrivFor(props[0], fmt.Sprintf("root-tip/admitted=%v/parent-cut=%v/still-a-tip-after-the-cut=%v", derr == nil, cut, stillTip))
		world.Close()
	}
}
