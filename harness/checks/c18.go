package checks

import (
	"context"
	"fmt"
	"os"
	"path/filepath"
	"regexp"
	"sort"
	"strings"
	"sync"
	"sync/atomic"
	"time"

	"github.com/bartossh/Computantis/src/accountant"
	"github.com/bartossh/Computantis/src/spice"
	"github.com/bartossh/Computantis/src/wallet"

	"verifharness/core"
	"verifharness/ledger"
)

// C18 — concurrent use of a node is free of data races (Go race detector; the check is built with -race).

type c18Node struct {
	a      *ledger.Actor
	book   *accountant.AccountingBook
	cancel context.CancelFunc
}

func c18Book(truncate uint64) (*c18Node, error) {
	a := ledger.NewActor("n")
	ctx, cancel := context.WithCancel(context.Background())
	b, err := accountant.NewAccountingBook(ctx, accountant.Config{Truncate: truncate}, wallet.NewVerifier(), &a.W, ledger.NoLog{})
	if err != nil {
		cancel()
		return nil, err
	}
	return &c18Node{a: a, book: b, cancel: cancel}, nil
}

func (n *c18Node) close() {
	n.cancel()
	n.book.VerifClose()
}

func c18Sync(dst, src *c18Node) bool {
	ctx, cc := context.WithCancelCause(context.Background())
	dst.book.LoadDag(cc, src.book.StreamDAG(ctx))
	cc(nil)
	return dst.book.DagLoaded()
}

var c18Sink atomic.Uint64

// touch reads every field of a vertex the way a serialiser would (lengths and first bytes of the byte fields).
func touch(v *accountant.Vertex) {
	if v == nil {
		return
	}
	t := &v.Transaction
	x := v.Weight + uint64(len(v.Signature)) + uint64(len(v.SignerPublicAddress)) + uint64(v.CreatedAt.Nanosecond()) + uint64(v.Hash[0]) + uint64(v.LeftParentHash[0]) + uint64(v.RightParentHash[0])
	x += uint64(len(t.Data)) + uint64(len(t.Subject)) + uint64(len(t.IssuerSignature)) + uint64(len(t.ReceiverSignature)) + uint64(len(t.IssuerAddress)) + uint64(len(t.ReceiverAddress)) + t.Spice.Currency + t.Spice.SupplementaryCurrency + uint64(t.CreatedAt.Nanosecond()) + uint64(t.Hash[0])
	if len(t.Data) > 0 {
		x += uint64(t.Data[0])
	}
	if len(v.Signature) > 0 {
		x += uint64(v.Signature[0])
	}
	c18Sink.Add(x)
}

// c18Mix runs the concurrent workload on the target for the given duration.
func c18Mix(w *core.WorkerCtx, target *c18Node, feeders []*c18Node, users []*ledger.Actor, dur time.Duration, withTruncate bool, tag string) {
	r := w.R
	ctx := context.Background()
	var stop atomic.Bool
	var wg sync.WaitGroup
	cnt := map[string]*atomic.Int64{}
	for _, k := range []string{"propose", "deliver", "deliver_orphan_first", "balance", "history", "read_vertex", "read_trx", "stream", "trust", "truncate_hook", "forged_heavy"} {
		cnt[k] = &atomic.Int64{}
	}
	var known sync.Map // vertex hashes for by-hash reads
	var parkedSeen, parkedDrained atomic.Int64
	var orphans, orphanV sync.Map
	var rebroadcast atomic.Int64
	var ferrs sync.Map
	seq := atomic.Int64{}

	// a second peer of the target: it delivers every other parked vertex once more, a moment after the first copy was
	// parked (its parent is still unknown then, so the copy cannot be admitted on arrival)
	dupCh := make(chan accountant.Vertex, 4096)
	var parkedN atomic.Int64
	wg.Add(1)
	go func() {
		defer wg.Done()
		for !stop.Load() {
			select {
			case v := <-dupCh:
				time.Sleep(500 * time.Microsecond)
				target.book.AddLeaf(ctx, ledger.CloneVertex(&v))
				rebroadcast.Add(1)
			case <-time.After(50 * time.Millisecond):
			}
		}
	}()
	// feeders: each builds its own branch on its own book and delivers to the target, sometimes child before parent
	for fi, f := range feeders {
		wg.Add(1)
		go func(fi int, f *c18Node) {
			defer wg.Done()
			var hold *accountant.Vertex
			for !stop.Load() {
				n := seq.Add(1)
				t := ledger.ForgeTrx(users[0], users[1+int(n)%3].Addr, fmt.Sprintf("%s-f%d-%d", tag, fi, n), nil, spice.Melange{SupplementaryCurrency: uint64(1 + n%50)}, time.Now().Add(-time.Minute))
				v, err := f.book.CreateLeaf(ctx, &t)
				if err != nil {
					continue
				}
				known.Store(v.Hash, v.Transaction.Hash)
				if fi == 0 && hold == nil && n%4 == 0 {
					c := v
					hold = &c // delivered after its child
					continue
				}
				err = target.book.AddLeaf(ctx, ledger.CloneVertex(&v))
				if fi == 0 {
					ferrs.Store(c17ErrClass(err), true)
				}
				if ledger.IsParked(err) {
					orphans.Store(v.Hash, true) // only the real retry ticker can admit it later
					orphanV.Store(v.Hash, v)
					// the same vertex from another peer, while its first copy is parked and its parent still unknown
					if parkedN.Add(1)%2 == 0 {
						select {
						case dupCh <- v:
						default:
						}
					}
				}
				cnt["deliver"].Add(1)
				if hold != nil {
					target.book.AddLeaf(ctx, ledger.CloneVertex(hold))
					hold = nil
					cnt["deliver_orphan_first"].Add(1)
				}
				time.Sleep(time.Duration(200+n%300) * time.Microsecond)
			}
		}(fi, f)
	}
	// local proposers
	for p := 0; p < 2; p++ {
		wg.Add(1)
		go func(p int) {
			defer wg.Done()
			for !stop.Load() {
				n := seq.Add(1)
				t := ledger.ForgeTrx(users[0], users[1+int(n)%3].Addr, fmt.Sprintf("%s-p%d-%d", tag, p, n), nil, spice.Melange{SupplementaryCurrency: uint64(1 + n%50)}, time.Now().Add(-time.Minute))
				if v, err := target.book.CreateLeaf(ctx, &t); err == nil {
					known.Store(v.Hash, v.Transaction.Hash)
					cnt["propose"].Add(1)
				}
				time.Sleep(time.Duration(300+n%500) * time.Microsecond)
			}
		}(p)
	}
	// readers
	for q := 0; q < 2; q++ {
		wg.Add(1)
		go func(q int) {
			defer wg.Done()
			for !stop.Load() {
				target.book.CalculateBalance(ctx, users[q%len(users)].Addr)
				cnt["balance"].Add(1)
				time.Sleep(300 * time.Microsecond)
			}
		}(q)
	}
	wg.Add(1)
	go func() {
		defer wg.Done()
		for !stop.Load() {
			target.book.ReadDAGTransactionsByAddress(ctx, users[1].Addr)
			cnt["history"].Add(1)
			time.Sleep(700 * time.Microsecond)
		}
	}()
	// two peers keep pulling vertices and transactions the node does not hold (hashes nobody ever saw)
	for g := 0; g < 2; g++ {
		wg.Add(1)
		go func(g int) {
			defer wg.Done()
			var h ledger.H
			for i := 0; !stop.Load(); i++ {
				h[0], h[1], h[2], h[3] = byte(g+1), byte(i), byte(i>>8), byte(i>>16)
				target.book.ReadVertex(ctx, h)
				target.book.ReadTransactionByHash(ctx, h)
				cnt["read_vertex"].Add(1)
				if i%8 == 7 {
					time.Sleep(300 * time.Microsecond)
				}
			}
		}(g)
	}
	wg.Add(1)
	go func() {
		defer wg.Done()
		for !stop.Load() {
			known.Range(func(k, v any) bool {
				if stop.Load() {
					return false
				}
				if rv, err := target.book.ReadVertex(ctx, k.(ledger.H)); err == nil {
					touch(&rv)
				}
				cnt["read_vertex"].Add(1)
				target.book.ReadTransactionByHash(ctx, v.(ledger.H))
				cnt["read_trx"].Add(1)
				return cnt["read_vertex"].Load()%40 != 0
			})
			time.Sleep(time.Millisecond)
		}
	}()
	wg.Add(1)
	go func() {
		defer wg.Done()
		for !stop.Load() {
			sctx, cancel := context.WithCancel(ctx)
			n := 0
			for v := range target.book.StreamDAG(sctx) {
				n++
				touch(v) // a syncing peer serialises every field of what it is handed
				if n%97 == 0 {
					time.Sleep(50 * time.Microsecond)
				}
			}
			cancel()
			cnt["stream"].Add(1)
			time.Sleep(2 * time.Millisecond)
		}
	}()
	// impatient clients: balance and history reads whose context is cancelled after a few visited ancestors, and
	// proposals / deliveries under contexts that are cancelled already
	wg.Add(1)
	go func() {
		defer wg.Done()
		i := 0
		for !stop.Load() {
			i++
			c := newCountCtx(1 + i%37)
			switch i % 4 {
			case 0:
				target.book.CalculateBalance(c, users[i%len(users)].Addr)
			case 1:
				target.book.ReadDAGTransactionsByAddress(c, users[i%len(users)].Addr)
			case 2:
				// a history read given up after 50-250 microseconds, the result looked at all the same
				cc, cancel := context.WithCancel(ctx)
				d := time.Duration(50+i%200) * time.Microsecond
				go func() { time.Sleep(d); cancel() }()
				trxs, err := target.book.ReadDAGTransactionsByAddress(cc, users[i%len(users)].Addr)
				if err == nil {
					for k := range trxs {
						_ = trxs[k].Hash
					}
				}
				cancel()
			default:
				cc, cancel := context.WithCancel(ctx)
				d := time.Duration(50+i%200) * time.Microsecond
				go func() { time.Sleep(d); cancel() }()
				target.book.CalculateBalance(cc, users[i%len(users)].Addr)
				cancel()
			}
			cnt["balance"].Add(1)
			time.Sleep(400 * time.Microsecond)
		}
	}()
	// a slow peer: it is in the middle of a stream nearly all the time (also when a truncation runs)
	wg.Add(1)
	go func() {
		defer wg.Done()
		for !stop.Load() {
			sctx, cancel := context.WithCancel(ctx)
			n := 0
			for v := range target.book.StreamDAG(sctx) {
				n++
				touch(v)
				if n%10 == 0 {
					time.Sleep(400 * time.Microsecond)
				}
				if stop.Load() {
					break
				}
			}
			cancel()
			cnt["stream"].Add(1)
		}
	}()
	wg.Add(1)
	go func() {
		defer wg.Done()
		i := 0
		for !stop.Load() {
			i++
			if i%2 == 0 {
				target.book.AddTrustedNode(feeders[0].a.Addr)
			} else {
				target.book.RemoveTrustedNode(feeders[0].a.Addr)
			}
			cnt["trust"].Add(1)
			target.book.DagLoaded()
			target.book.Address()
			time.Sleep(3 * time.Millisecond)
		}
	}()
	// the monitor of the real retry ticker: parked vertices must exist at times and drain without the harness' help
	wg.Add(1)
	go func() {
		defer wg.Done()
		last := 0
		for !stop.Load() {
			l := target.book.VerifParkedLen()
			if l > 0 {
				parkedSeen.Add(1)
			}
			if l < last {
				parkedDrained.Add(1)
			}
			last = l
			time.Sleep(20 * time.Millisecond)
		}
	}()
	if withTruncate {
		wg.Add(1)
		go func() {
			defer wg.Done()
			time.Sleep(dur / 4)
			// a heavy vertex makes the node's own truncation loop run the real truncate in its own goroutine
			s := 0
			for !stop.Load() && s < 3 {
				s++
				var tipH ledger.H
				var tipW uint64
				sctx, cancel := context.WithCancel(ctx)
				for v := range target.book.StreamDAG(sctx) {
					if v.Weight >= tipW {
						tipW, tipH = v.Weight, v.Hash
					}
				}
				cancel()
				n := seq.Add(1)
				t := ledger.ForgeTrx(users[0], users[2].Addr, fmt.Sprintf("%s-heavy-%d", tag, n), nil, spice.Melange{SupplementaryCurrency: 7}, time.Now().Add(-time.Minute))
				hv := ledger.ForgeVertex(feeders[0].a, t, tipH, tipH, 3600+uint64(s)*6000, time.Now().Add(-time.Second))
				if err := target.book.AddLeaf(ctx, ledger.CloneVertex(&hv)); err == nil {
					cnt["forged_heavy"].Add(1)
				}
				time.Sleep(dur / 6)
				if err := target.book.VerifTruncate(ctx); err == nil {
					cnt["truncate_hook"].Add(1)
				}
				time.Sleep(dur / 8)
			}
		}()
	}
	time.Sleep(dur)
	stop.Store(true)
	wg.Wait()
	total := 0
	for k, c := range cnt {
		r.Count("c18_"+k, int(c.Load()))
		total += int(c.Load())
	}
	r.Eval(total)
	r.Count("c18_parked_observed_polls", int(parkedSeen.Load()))
	r.Count("c18_parked_drained_by_ticker", int(parkedDrained.Load()))
	// a vertex that was reported as arriving before its parent and is in the ledger now was admitted by the node's own
	// retry ticker (the harness never re-delivers and does not use the retry hook here)
	nOrphans, admitted := 0, 0
	orphans.Range(func(k, _ any) bool {
		nOrphans++
		if _, err := target.book.ReadVertex(ctx, k.(ledger.H)); err == nil {
			admitted++
		}
		return true
	})
	ferrs.Range(func(k, _ any) bool { r.Note("feeder 0 delivery outcome: " + k.(string)); return true })
	r.Count("c18_orphans_parked", nOrphans)
	r.Count("c18_duplicate_deliveries_of_parked_vertices", int(rebroadcast.Load()))
	r.Count("c18_orphans_admitted_by_the_real_ticker", admitted)
	if nOrphans > 0 && admitted == 0 {
		r.Inconc("vertices were parked but none of them was admitted by the retry ticker during the run")
	}
	r.Nontriv(fmt.Sprintf("mix/%s/truncate=%v/parked=%v/drained=%v", tag, withTruncate, parkedSeen.Load() > 0, parkedDrained.Load() > 0))
	r.Sample(4, map[string]any{"workload": tag, "with_truncation": withTruncate, "seconds": dur.Seconds(), "operations": total,
		"goroutines": "2 feeders (every 4th vertex child-first), 2 proposers, 2 balance readers, history reader, by-hash reader, stream consumer, trust updater, ticker monitor"})
}

func c18Worker(w *core.WorkerCtx) {
	users := []*ledger.Actor{ledger.NewActor("U0"), ledger.NewActor("U1"), ledger.NewActor("U2"), ledger.NewActor("U3")}
	withTrunc := w.Batch%2 == 1
	target, err := c18Book(2000)
	if err != nil {
		w.R.Inconc("cannot create node: " + err.Error())
		return
	}
	if _, err := target.book.CreateGenesis("GENESIS", spice.Melange{Currency: 1 << 40}, []byte{}, users[0].Addr); err != nil {
		w.R.Inconc("genesis failed")
		return
	}
	ctx := context.Background()
	if withTrunc {
		// a ledger long enough for a cut to exist (built single threaded, before the property's precondition "loaded" matters)
		w.Mark("building the long ledger")
		for i := 0; i < 1080; i++ {
			t := ledger.ForgeTrx(users[0], users[1+i%3].Addr, fmt.Sprintf("pre-%d", i), nil, spice.Melange{SupplementaryCurrency: uint64(1 + i%50)}, time.Now().Add(-time.Hour))
			if _, err := target.book.CreateLeaf(ctx, &t); err != nil {
				w.R.Inconc("cannot build the long ledger: " + err.Error())
				return
			}
		}
		w.R.Count("c18_prebuilt_vertices", 1080)
	}
	var feeders []*c18Node
	for i := 0; i < 2; i++ {
		f, err := c18Book(1 << 50)
		if err != nil || !c18Sync(f, target) {
			w.R.Inconc("cannot create feeder node")
			return
		}
		feeders = append(feeders, f)
	}
	dur := time.Duration(w.Pick(9, 30)) * time.Second
	w.Mark("mix truncate=%v", withTrunc)
	c18Mix(w, target, feeders, users, dur, withTrunc, fmt.Sprintf("b%d", w.Batch))
	for _, f := range feeders {
		f.close()
	}
	target.close()
	time.Sleep(50 * time.Millisecond)
}

var reRaceFunc = regexp.MustCompile(`^  ([^\s].*)\(\)$`)

type raceReport struct {
	stacks [][]string // function names per stack (access 1, access 2, creation stacks follow)
	text   string
}

func parseRaceLog(text string) []raceReport {
	var out []raceReport
	for _, blk := range strings.Split(text, "==================") {
		if !strings.Contains(blk, "WARNING: DATA RACE") {
			continue
		}
		rep := raceReport{text: blk}
		var cur []string
		flush := func() {
			if cur != nil {
				rep.stacks = append(rep.stacks, cur)
			}
			cur = nil
		}
		for _, line := range strings.Split(blk, "\n") {
			switch {
			case strings.HasPrefix(line, "Read at") || strings.HasPrefix(line, "Write at") || strings.HasPrefix(line, "Previous ") || strings.HasPrefix(line, "Goroutine ") || strings.HasPrefix(line, "Atomic"):
				flush()
				cur = []string{}
			case strings.HasPrefix(line, "  ") && !strings.HasPrefix(line, "   "):
				f := strings.TrimSpace(line)
				if i := strings.LastIndex(f, "("); i > 0 {
					f = f[:i]
				}
				if cur != nil {
					cur = append(cur, f)
				}
			}
		}
		flush()
		out = append(out, rep)
	}
	return out
}

func shortFunc(f string) string {
	f = strings.TrimPrefix(f, "github.com/bartossh/Computantis/src/")
	f = strings.TrimPrefix(f, "github.com/")
	return f
}

// firstRepo returns the innermost frame that belongs to the repository or to its graph library.
func firstRepo(stack []string) string {
	for _, f := range stack {
		if strings.Contains(f, "bartossh/Computantis/src/") || strings.Contains(f, "heimdalr/dag") {
			return shortFunc(f)
		}
	}
	return ""
}

func outermostRepo(stack []string) string {
	for i := len(stack) - 1; i >= 0; i-- {
		f := stack[i]
		if strings.Contains(f, "bartossh/Computantis/src/") || strings.Contains(f, "heimdalr/dag") {
			return shortFunc(f)
		}
	}
	return ""
}

func c18PostBatch(batch int, dir string, res *core.Result) {
	files, _ := filepath.Glob(filepath.Join(dir, "race.*"))
	for _, f := range files {
		b, err := os.ReadFile(f)
		if err != nil {
			continue
		}
		reps := parseRaceLog(string(b))
		res.Count("c18_race_reports_raw", len(reps))
		for _, rep := range reps {
			if len(rep.stacks) < 2 {
				res.Inconc("unparsable race report")
				continue
			}
			a, bb := firstRepo(rep.stacks[0]), firstRepo(rep.stacks[1])
			if a == "" && bb == "" {
				res.Inconc("the race detector reported a race without any repository frame (harness): " + headN(rep.text, 600))
				continue
			}
			pair := []string{a, bb}
			sort.Strings(pair)
			entries := []string{outermostRepo(rep.stacks[0]), outermostRepo(rep.stacks[1])}
			sort.Strings(entries)
			sig := "race/" + strings.Join(pair, "<->")
			res.Violate("C18", sig, fmt.Sprintf("data race between %s (entered through %s) and %s (entered through %s)", pair[0], entries[0], pair[1], entries[1]), map[string]any{"report": headN(rep.text, 5000)})
		}
	}
}

func init() {
	core.Register(&core.Check{
		Spec: core.Spec{
			Prop:        "C18",
			Rule:        "The monitor binary is built with -race and the workload runs in child processes with GORACE=halt_on_error=0 log_path=...; the parent parses the logs: every 'WARNING: DATA RACE' block is normalised (function names of both access stacks, line numbers stripped), de-duplicated by the pair of innermost repository frames (outermost entry points in the detail) and is a violation unless listed; reports without a repository frame count as inconclusive (harness). Workload per batch on one loaded node (Config.Truncate=2000) for >= 9 s (quick) / 30 s (thorough), i.e. several periods of the real 2 s retry ticker: 2 feeder nodes delivering their own branches (one of them hands every 4th vertex over child-before-parent and a second peer goroutine delivers every other vertex that got parked once more half a millisecond later (the same vertex from another peer, while the first copy is parked), after which its branch queues up behind the orphan buffer, so that the orphan buffer is in use while the real ticker drains it; the retry hook is not used), 2 local proposers, 2 balance readers, a history reader, an impatient client whose balance / history reads are cancelled after 1-37 visited ancestors or after 50-250 microseconds, a by-hash reader, a repeating DAG stream consumer and a slow one (in mid-stream nearly all the time) that read every field of the vertices they are handed, as does the by-hash reader, trusted-store updates; odd batches pre-build a 1080 vertex ledger and add truncation: a vertex of weight 3600+ makes the node's own truncation loop run the real truncate in its goroutine, plus truncations through the hook. A run in which vertices were parked but none was admitted by the real ticker is inconclusive. Non-trivial = every workload; evaluations = operations executed. Stream consumers and the by-hash reader read every field of what they are handed. Two goroutines pull unknown hashes during the whole race workload.",
			Assumptions: []string{"the Go race detector reports only races that occur in the executed schedule", "the snapshot hook is not used while the workload runs (only VerifParkedLen, which takes the buffer's own lock)"},
			MinEvals:    2000, MinNontriv: 2,
			MinCounters: map[string]int{"c18_propose": 50, "c18_deliver": 50, "c18_balance": 50, "c18_stream": 5, "c18_deliver_orphan_first": 4},
		},
		Plan: func(tier string) core.Plan {
			env := []string{"GORACE=halt_on_error=0 log_path=race"}
			if tier == "thorough" {
				return core.Plan{Batches: 10, Parallel: 10, Timeout: 30 * time.Minute, Env: env}
			}
			return core.Plan{Batches: 4, Parallel: 4, Timeout: 12 * time.Minute, Env: env}
		},
		Worker:    c18Worker,
		PostBatch: c18PostBatch,
		ExitOK:    []int{66},
	})
}
