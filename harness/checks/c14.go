package checks

import (
	"context"
	"fmt"
	"math/rand"
	"sort"
	"strings"
	"time"

	"github.com/bartossh/Computantis/src/accountant"
	"github.com/bartossh/Computantis/src/spice"

	"verifharness/core"
	"verifharness/ledger"
)

// C14 — a node that syncs the DAG from a peer reproduces the peer's ledger.

func recordStream(n *ledger.Node) []*accountant.Vertex {
	ctx, cancel := context.WithCancel(context.Background())
	defer cancel()
	var out []*accountant.Vertex
	for v := range n.Book.StreamDAG(ctx) {
		out = append(out, ledger.CloneVertex(v))
	}
	return out
}

// c14Compare checks that node b holds exactly the ledger of node a.
func c14Compare(world *ledger.World, a, b *ledger.Node, what string) bool {
	sa, err1 := ledger.TakeSnap(a.Book)
	sb, err2 := ledger.TakeSnap(b.Book)
	if err1 != nil || err2 != nil {
		return false
	}
	ok := true
	bad := func(sig, detail string) {
		ok = false
		world.Violate("C14", sig, fmt.Sprintf("%s: %s", what, detail))
	}
	va, vb := c13View(sa, nil), c13View(sb, nil)
	if d := c13Diff(va, vb); d != "[]" {
		bad("synced-ledger-differs", "vertices / parent links / index of the synced node differ from the peer: "+d)
	}
	if sa.Genesis != sb.Genesis {
		bad("genesis-wallet-differs", fmt.Sprintf("peer recognises genesis wallet %s, synced node %s", world.NameOf(sa.Genesis), world.NameOf(sb.Genesis)))
	}
	// every declared live parent is an edge on the synced node
	for h, l := range sb.Live {
		for _, p := range []ledger.H{l.V.LeftParentHash, l.V.RightParentHash} {
			if _, live := sb.Live[p]; live && !l.Parents[p] {
				bad("synced-node-misses-edge", fmt.Sprintf("synced node has no edge %s -> %s", ledger.Hex(p), ledger.Hex(h)))
			}
		}
	}
	// balances: tip by tip, for every address
	addrs := append(world.AllAddresses(), ledger.NewActor("never-seen").Addr)
	for _, ad := range addrs {
		ra, rb := ledger.RefTipSums(sa, ad), ledger.RefTipSums(sb, ad)
		ma := map[ledger.H]string{}
		for _, t := range ra {
			ma[t.Tip] = t.Sum.String()
		}
		for _, t := range rb {
			if ma[t.Tip] != t.Sum.String() {
				bad("balance-differs-per-tip", fmt.Sprintf("balance of %s over tip %s: peer %s, synced node %s", world.NameOf(ad), ledger.Hex(t.Tip), ma[t.Tip], t.Sum))
			}
		}
		if len(sa.Leaves) == 1 {
			ba, ea := a.Book.CalculateBalance(world.Ctx, ad)
			bb, eb := b.Book.CalculateBalance(world.Ctx, ad)
			if (ea == nil) != (eb == nil) || (ea == nil && ba.Spice != bb.Spice) {
				bad("reported-balance-differs", fmt.Sprintf("balance of %s: peer %s (err %v), synced node %s (err %v)", world.NameOf(ad), ledger.MelStr(ba.Spice), ea, ledger.MelStr(bb.Spice), eb))
			}
		}
	}
	world.EvalFor("C14", 1)
	return ok
}

// c14FollowUp offers the same gossip to the peer and to the synced node and compares accept/reject classes and the end state.
func c14FollowUp(world *ledger.World, rng *rand.Rand, peer, synced *ledger.Node, steps int) {
	class := func(err error) string {
		switch {
		case err == nil:
			return "accepted"
		case ledger.IsParked(err):
			return "parked"
		default:
			return "rejected"
		}
	}
	// heavy: since it synced, the node has admitted a vertex heavier than the value its weight counter starts from (50).
	// Only from then on can the weight rule of the listed finding (minimal-weight-rule) refuse anything on the unchanged
	// tree: a refusal by that rule before is not the listed finding and is reported under the plain signature.
	heavy := false
	// transactions of tentative tips the peer dropped as invalid before it served the DAG are sealed again by another
	// node and gossiped (they are not in the peer's ledger, hence not in the synced one either)
	dropped := append([]ledger.H{}, peer.Dropped...)
	sort.Slice(dropped, func(i, j int) bool { return string(dropped[i][:]) < string(dropped[j][:]) })
	for di, dh := range dropped {
		if di >= 4 {
			break
		}
		dv, ok := world.Hist.Get(dh)
		s := peer.Prev
		if !ok || s == nil {
			continue
		}
		if _, back := s.Vertex(dh); back {
			continue
		}
		var tip ledger.H
		var wgt uint64
		for h := range s.Leaves {
			if v, ok := s.Vertex(h); ok && (v.Weight > wgt || (v.Weight == wgt && string(h[:]) > string(tip[:]))) {
				tip, wgt = h, v.Weight
			}
		}
		sealer := world.Sealers[di%len(world.Sealers)]
		if sealer.Addr == dv.Transaction.IssuerAddress || wgt == 0 {
			continue
		}
		v := ledger.ForgeVertex(sealer, dv.Transaction, tip, tip, wgt+1, world.Now())
		e1 := world.Deliver(peer, &v, "transaction of a dropped tip sealed again")
		e2 := world.Deliver(synced, &v, "transaction of a dropped tip sealed again")
		world.EvalFor("C14", 1)
		if e2 == nil && v.Weight > 50 {
			heavy = true
		}
		world.Res.Count("c14_dropped_tip_transactions_resealed", 1)
		world.NontrivFor("C14", fmt.Sprintf("follow-up/dropped-tip-resealed/%s", class(e1)))
		if class(e1) != class(e2) {
			world.Violate("C14", "follow-up-gossip-treated-differently/dropped-tip-resealed", fmt.Sprintf("a vertex sealing the transaction of a tip that the peer dropped earlier was %s by the peer (%v) and %s by the synced node (%v)", class(e1), e1, class(e2), e2))
		}
	}
	// a vertex on the oldest tip (the one with the lowest weight), which may lie far below the newest one
	if s := peer.Prev; s != nil && len(s.Leaves) > 0 {
		var old ledger.H
		var ow uint64 = ^uint64(0)
		for h := range s.Leaves {
			if v, ok := s.Vertex(h); ok && (v.Weight < ow || (v.Weight == ow && string(h[:]) < string(old[:]))) {
				old, ow = h, v.Weight
			}
		}
		t := world.NewTrx(world.Users[0], world.Users[1].Addr, spice.Melange{}, []byte("on the oldest tip"))
		v := ledger.ForgeVertex(world.Sealers[0], t, old, old, ow+1, world.Now())
		e1 := world.Deliver(peer, &v, "follow-up on the oldest tip")
		e2 := world.Deliver(synced, &v, "follow-up on the oldest tip")
		world.EvalFor("C14", 1)
		world.NontrivFor("C14", fmt.Sprintf("follow-up/oldest-tip/%s/tips%d", class(e1), bucketN(len(s.Leaves))))
		if e2 == nil && v.Weight > 50 {
			heavy = true
		}
		if heavy && class(e1) != class(e2) && c14MinimalWeight(e1) != c14MinimalWeight(e2) {
			world.Violate("C14", "follow-up-gossip-treated-differently/minimal-weight-rule", fmt.Sprintf("a vertex on the oldest tip (weight %d) was %s by the peer (%v) and %s by the synced node (%v)", ow, class(e1), e1, class(e2), e2))
			return
		}
		if class(e1) != class(e2) {
			world.Violate("C14", "follow-up-gossip-treated-differently/oldest-tip", fmt.Sprintf("a vertex on the oldest tip (weight %d) was %s by the peer (%v) and %s by the synced node (%v)", ow, class(e1), e1, class(e2), e2))
		}
	}
	for i := 0; i < steps; i++ {
		s := peer.Prev
		if s == nil || len(s.Live) == 0 {
			return
		}
		var tips, inner []ledger.H
		for h := range s.Live {
			if s.Leaves[h] {
				tips = append(tips, h)
			} else {
				inner = append(inner, h)
			}
		}
		sort.Slice(tips, func(i, j int) bool { return string(tips[i][:]) < string(tips[j][:]) })
		sort.Slice(inner, func(i, j int) bool { return string(inner[i][:]) < string(inner[j][:]) })
		pick := func() ledger.H {
			if len(inner) > 0 && rng.Intn(4) == 0 {
				return inner[rng.Intn(len(inner))]
			}
			return tips[rng.Intn(len(tips))]
		}
		l, r := pick(), pick()
		lw, _ := s.Vertex(l)
		rw, _ := s.Vertex(r)
		wgt := lw.Weight
		if rw.Weight > wgt {
			wgt = rw.Weight
		}
		u := world.Users
		from, to := u[rng.Intn(len(u))], u[rng.Intn(len(u))]
		if from == to {
			continue
		}
		amt := spice.Melange{Currency: uint64(rng.Intn(3)), SupplementaryCurrency: uint64(1 + rng.Intn(1000))}
		kind := rng.Intn(10)
		if kind == 1 {
			amt = spice.Melange{Currency: 1 << 50} // overdraft
		}
		var data []byte
		if rng.Intn(3) == 0 {
			data = []byte("follow-up contract")
			if rng.Intn(2) == 0 {
				amt = spice.Melange{}
			}
		}
		t := world.NewTrx(from, to.Addr, amt, data)
		sealer := world.Sealers[rng.Intn(len(world.Sealers))]
		// issuers the sealing rules know: the genesis wallet (node 0's), the peer's and the synced node's own wallets
		switch kind {
		case 6:
			t = world.NewTrx(world.Nodes[0].Actor, to.Addr, amt, data)
		case 7:
			t = world.NewTrx(synced.Actor, to.Addr, amt, data)
		case 8:
			t = world.NewTrx(peer.Actor, to.Addr, amt, data)
		case 9:
			t = world.NewTrx(sealer, to.Addr, amt, data) // self sealed
		}
		v := ledger.ForgeVertex(sealer, t, l, r, wgt+1, world.Now())
		switch kind {
		case 2: // replay of an existing vertex
			for _, lv := range s.Live {
				v = lv.V
				break
			}
		case 3: // tampered
			v.Transaction.Spice.Currency += 7
		case 4: // orphan
			var ghost ledger.H
			ghost[1] = byte(i + 1)
			v = ledger.ForgeVertex(sealer, t, ghost, l, wgt+1, world.Now())
		}
		e1 := world.Deliver(peer, &v, fmt.Sprintf("follow-up kind %d", kind))
		e2 := world.Deliver(synced, &v, fmt.Sprintf("follow-up kind %d", kind))
		world.EvalFor("C14", 1)
		if class(e1) != class(e2) {
			if heavy && c14MinimalWeight(e1) != c14MinimalWeight(e2) {
				// the listed finding: one of the two refuses the parent tip for its weight, by a rule that compares with
				// counters of the node's own past (fixed witness: c14MinimalWeightWitness). From here on the two ledgers
				// differ as a consequence; the follow-up ends.
				world.Violate("C14", "follow-up-gossip-treated-differently/minimal-weight-rule", fmt.Sprintf("the same vertex (kind %d) was %s by the peer (%v) and %s by the synced node (%v)", kind, class(e1), e1, class(e2), e2))
				return
			}
			world.Violate("C14", "follow-up-gossip-treated-differently", fmt.Sprintf("the same vertex (kind %d) was %s by the peer (%v) and %s by the synced node (%v)", kind, class(e1), e1, class(e2), e2))
		}
		if e2 == nil && v.Weight > 50 {
			heavy = true
		}
	}
	c14Compare(world, peer, synced, "after the follow-up gossip")
}

// c14MinimalWeight: the answer is the ledger's refusal of a parent tip for its weight.
func c14MinimalWeight(err error) bool {
	return err != nil && strings.Contains(err.Error(), "condition of minimal weight")
}

// c14MinimalWeightWitness is the fixed witness of the known finding follow-up-gossip-treated-differently/
// minimal-weight-rule: a peer with a chain of 75 vertices and a late side vertex near its start; a node syncs (equal
// ledgers); both get a vertex on the side tip (accepted by both), two vertices on the main tip (accepted by both: the
// synced node's highest weight seen moves up to the chain's, its throughput counter started at 50 when it loaded),
// then a second vertex on the side branch: the peer, whose throughput counter grew with every vertex it ever validated,
// accepts it, the synced node refuses its parent for being lighter than highest weight minus throughput.
func c14MinimalWeightWitness(w *core.WorkerCtx) {
	rng := core.Rand(w.Seed, "C14minweight")
	desc := "c14 witness: chain of 75 with a side vertex on its 5th vertex, sync, then gossip on the side branch after gossip on the main tip"
	w.Mark("%s", desc)
	world := ledger.NewWorld(rng, w.R, []string{"C14"}, allSnapOracles, desc)
	defer world.Close()
	if _, err := ledger.Setup(world, ledger.Profile{Nodes: 1, Users: 4, SupplyClass: 0, Delivery: "lockstep"}); err != nil {
		w.R.Inconc("setup failed: " + err.Error())
		return
	}
	n := world.Nodes[0]
	u := world.Users
	var old, last accountant.Vertex
	world.Quiet = true
	for i := 0; i < 75; i++ {
		t := world.NewTrx(u[0], u[1+i%3].Addr, spice.Melange{SupplementaryCurrency: uint64(1 + i%9)}, nil)
		v, err := world.Propose(n, &t, "grow")
		if err == nil {
			last = v
			if i == 4 {
				old = v
			}
		}
	}
	world.Quiet = false
	world.Observe(n, ledger.OpInfo{Kind: "milestone", OK: true})
	st := world.NewTrx(u[0], u[2].Addr, spice.Melange{}, []byte("late side vertex"))
	side := ledger.ForgeVertex(world.Sealers[0], st, old.Hash, old.Hash, old.Weight+1, world.Now())
	if err := world.Deliver(n, &side, "late vertex on an old inner vertex"); err != nil {
		w.R.Inconc("witness: the side vertex was refused: " + err.Error())
		return
	}
	nn, err := world.AddSyncedNode("J-minweight", n)
	if err != nil {
		w.R.Inconc("witness: the sync failed: " + err.Error())
		return
	}
	defer world.CloseNode(nn)
	both := func(v *accountant.Vertex, tag string) (error, error) {
		return world.Deliver(n, v, tag), world.Deliver(nn, v, tag)
	}
	t1 := world.NewTrx(u[0], u[1].Addr, spice.Melange{}, []byte("first on the side branch"))
	s1 := ledger.ForgeVertex(world.Sealers[0], t1, side.Hash, side.Hash, side.Weight+1, world.Now())
	both(&s1, "first vertex on the side branch")
	parent := last
	for k := 0; k < 2; k++ {
		tm := world.NewTrx(u[0], u[2].Addr, spice.Melange{}, []byte(fmt.Sprintf("on the main tip %d", k)))
		m := ledger.ForgeVertex(world.Sealers[1], tm, parent.Hash, parent.Hash, parent.Weight+1, world.Now())
		both(&m, "vertex on the main tip")
		parent = m
	}
	t2 := world.NewTrx(u[0], u[3].Addr, spice.Melange{}, []byte("second on the side branch"))
	s2 := ledger.ForgeVertex(world.Sealers[0], t2, s1.Hash, s1.Hash, s1.Weight+1, world.Now())
	e1, e2 := both(&s2, "second vertex on the side branch")
	world.EvalFor("C14", 1)
	world.NontrivFor("C14", "witness/minimal-weight-rule")
	if (e1 == nil) != (e2 == nil) && c14MinimalWeight(e1) != c14MinimalWeight(e2) {
		world.Violate("C14", "follow-up-gossip-treated-differently/minimal-weight-rule", fmt.Sprintf("a vertex of weight %d on a side branch was answered %v by the peer and %v by the node that synced from it", s2.Weight, e1, e2))
	}
}

type c14Corruption struct {
	name string
	make func(world *ledger.World, rng *rand.Rand, st []*accountant.Vertex) []*accountant.Vertex
}

func cloneStream(st []*accountant.Vertex) []*accountant.Vertex {
	out := make([]*accountant.Vertex, len(st))
	for i, v := range st {
		out[i] = ledger.CloneVertex(v)
	}
	return out
}

// reseal re-signs the vertex with the key of its sealer (the harness owns every key), so that only the intended field is corrupt.
func reseal(world *ledger.World, v *accountant.Vertex) *accountant.Vertex {
	for _, n := range world.Nodes {
		if n.Actor.Addr == v.SignerPublicAddress {
			nv := ledger.ForgeVertex(n.Actor, v.Transaction, v.LeftParentHash, v.RightParentHash, v.Weight, v.CreatedAt)
			return &nv
		}
	}
	for _, s := range world.Sealers {
		if s.Addr == v.SignerPublicAddress {
			nv := ledger.ForgeVertex(s, v.Transaction, v.LeftParentHash, v.RightParentHash, v.Weight, v.CreatedAt)
			return &nv
		}
	}
	return v
}

func nonGenesisIdx(world *ledger.World, rng *rand.Rand, st []*accountant.Vertex, needChild bool) int {
	named := map[ledger.H]bool{}
	for _, v := range st {
		named[v.LeftParentHash] = true
		named[v.RightParentHash] = true
	}
	var c []int
	for i, v := range st {
		if v.Hash == world.Genesis.Hash {
			continue
		}
		if needChild && !named[v.Hash] {
			continue
		}
		c = append(c, i)
	}
	if len(c) == 0 {
		return -1
	}
	return c[rng.Intn(len(c))]
}

var c14Corruptions = []c14Corruption{
	{"duplicate-vertex", func(w *ledger.World, r *rand.Rand, st []*accountant.Vertex) []*accountant.Vertex {
		i := r.Intn(len(st))
		return append(st, ledger.CloneVertex(st[i]))
	}},
	{"two-vertices-same-transaction", func(w *ledger.World, r *rand.Rand, st []*accountant.Vertex) []*accountant.Vertex {
		i, j := nonGenesisIdx(w, r, st, false), nonGenesisIdx(w, r, st, false)
		if i < 0 || i == j {
			return nil
		}
		named := map[ledger.H]bool{}
		for _, v := range st {
			named[v.LeftParentHash], named[v.RightParentHash] = true, true
		}
		if named[st[j].Hash] {
			return nil // re-sealing changes the hash; only a tip can be re-sealed without orphaning others
		}
		st[j].Transaction = st[i].Transaction
		st[j] = reseal(w, st[j])
		return st
	}},
	{"unknown-parent", func(w *ledger.World, r *rand.Rand, st []*accountant.Vertex) []*accountant.Vertex {
		named := map[ledger.H]bool{}
		for _, v := range st {
			named[v.LeftParentHash], named[v.RightParentHash] = true, true
		}
		for i, v := range st {
			if v.Hash != w.Genesis.Hash && !named[v.Hash] {
				var ghost ledger.H
				r.Read(ghost[:])
				if r.Intn(2) == 0 {
					st[i].LeftParentHash = ghost
				} else {
					st[i].RightParentHash = ghost
				}
				st[i] = reseal(w, st[i])
				return st
			}
		}
		return nil
	}},
	{"second-self-sealed-vertex-on-tip", func(w *ledger.World, r *rand.Rand, st []*accountant.Vertex) []*accountant.Vertex {
		named := map[ledger.H]bool{}
		for _, v := range st {
			named[v.LeftParentHash], named[v.RightParentHash] = true, true
		}
		for _, v := range st {
			if !named[v.Hash] {
				s := w.Sealers[0]
				t := w.NewTrx(s, w.Users[1].Addr, spice.Melange{Currency: 1}, nil)
				nv := ledger.ForgeVertex(s, t, v.Hash, v.Hash, v.Weight+1, w.Now())
				return append(st, &nv)
			}
		}
		return nil
	}},
	{"second-self-sealed-vertex-as-root", func(w *ledger.World, r *rand.Rand, st []*accountant.Vertex) []*accountant.Vertex {
		// hangs on nothing: zero parent hashes (one or both), so it becomes a second root of the loaded graph
		var zero ledger.H
		s := w.Sealers[1]
		t := w.NewTrx(s, w.Users[1].Addr, spice.Melange{Currency: 1}, nil)
		right := zero
		wgt := uint64(0)
		if r.Intn(2) == 0 && len(st) > 0 {
			right, wgt = st[len(st)-1].Hash, st[len(st)-1].Weight+1
		}
		nv := ledger.ForgeVertex(s, t, zero, right, wgt, w.Now())
		return append(st, &nv)
	}},
	{"second-root", func(w *ledger.World, r *rand.Rand, st []*accountant.Vertex) []*accountant.Vertex {
		// an ordinary, validly signed vertex that names no parent (zero hashes) or whose left parent is zero
		var zero ledger.H
		t := w.NewTrx(w.Users[0], w.Users[1].Addr, spice.Melange{SupplementaryCurrency: 3}, nil)
		right := zero
		wgt := uint64(0)
		if r.Intn(2) == 0 && len(st) > 0 {
			right, wgt = st[len(st)-1].Hash, st[len(st)-1].Weight+1
		}
		nv := ledger.ForgeVertex(w.Sealers[0], t, zero, right, wgt, w.Now())
		if r.Intn(2) == 0 {
			return append([]*accountant.Vertex{&nv}, st...)
		}
		return append(st, &nv)
	}},
	{"same-transaction-sealed-by-two-nodes", func(w *ledger.World, r *rand.Rand, st []*accountant.Vertex) []*accountant.Vertex {
		// a second, validly signed vertex by another sealer that wraps a transaction already in the stream, on a tip
		i := nonGenesisIdx(w, r, st, false)
		if i < 0 {
			return nil
		}
		named := map[ledger.H]bool{}
		for _, v := range st {
			named[v.LeftParentHash], named[v.RightParentHash] = true, true
		}
		for _, v := range st {
			if !named[v.Hash] {
				s := w.Sealers[0]
				if st[i].SignerPublicAddress == s.Addr {
					s = w.Sealers[1]
				}
				nv := ledger.ForgeVertex(s, st[i].Transaction, v.Hash, v.Hash, v.Weight+1, w.Now())
				if r.Intn(2) == 0 {
					return append(st, &nv)
				}
				// or before the original in stream order
				return append([]*accountant.Vertex{&nv}, st...)
			}
		}
		return nil
	}},
	{"inner-vertex-made-self-sealed", func(w *ledger.World, r *rand.Rand, st []*accountant.Vertex) []*accountant.Vertex {
		// a tip re-issued by its own sealer (a tip, so that no other vertex is orphaned by the new hash)
		named := map[ledger.H]bool{}
		for _, v := range st {
			named[v.LeftParentHash], named[v.RightParentHash] = true, true
		}
		for i, v := range st {
			if v.Hash == w.Genesis.Hash || named[v.Hash] {
				continue
			}
			for _, n := range w.Nodes {
				if n.Actor.Addr == v.SignerPublicAddress {
					t := w.NewTrx(n.Actor, w.Users[1].Addr, spice.Melange{Currency: 1}, nil)
					nv := ledger.ForgeVertex(n.Actor, t, v.LeftParentHash, v.RightParentHash, v.Weight, v.CreatedAt)
					st[i] = &nv
					return st
				}
			}
		}
		return nil
	}},
	{"empty-transaction", func(w *ledger.World, r *rand.Rand, st []*accountant.Vertex) []*accountant.Vertex {
		named := map[ledger.H]bool{}
		for _, v := range st {
			named[v.LeftParentHash], named[v.RightParentHash] = true, true
		}
		for i, v := range st {
			if v.Hash == w.Genesis.Hash || named[v.Hash] {
				continue
			}
			t := w.NewTrx(w.Users[0], w.Users[1].Addr, spice.Melange{}, nil)
			st[i].Transaction = t
			st[i] = reseal(w, st[i])
			return st
		}
		return nil
	}},
	{"missing-parent-vertex", func(w *ledger.World, r *rand.Rand, st []*accountant.Vertex) []*accountant.Vertex {
		i := nonGenesisIdx(w, r, st, true)
		if i < 0 {
			return nil
		}
		return append(st[:i], st[i+1:]...)
	}},
}

// authenticated-content corruptions: if the node reports loaded, every vertex must still self-authenticate (C09's predicate)
var c14Tamper = []c14Corruption{
	{"amount-changed", func(w *ledger.World, r *rand.Rand, st []*accountant.Vertex) []*accountant.Vertex {
		i := nonGenesisIdx(w, r, st, false)
		if i < 0 {
			return nil
		}
		st[i].Transaction.Spice.Currency += 1000
		return st
	}},
	{"sealing-signature-bit", func(w *ledger.World, r *rand.Rand, st []*accountant.Vertex) []*accountant.Vertex {
		i := r.Intn(len(st))
		st[i].Signature[r.Intn(len(st[i].Signature))] ^= 1 << uint(r.Intn(8))
		return st
	}},
	{"issuer-signature-bit", func(w *ledger.World, r *rand.Rand, st []*accountant.Vertex) []*accountant.Vertex {
		i := r.Intn(len(st))
		st[i].Transaction.IssuerSignature[r.Intn(len(st[i].Transaction.IssuerSignature))] ^= 1 << uint(r.Intn(8))
		return st
	}},
	{"receiver-replaced", func(w *ledger.World, r *rand.Rand, st []*accountant.Vertex) []*accountant.Vertex {
		i := nonGenesisIdx(w, r, st, false)
		if i < 0 {
			return nil
		}
		st[i].Transaction.ReceiverAddress = w.Sealers[1].Addr
		return st
	}},
	{"weight-changed", func(w *ledger.World, r *rand.Rand, st []*accountant.Vertex) []*accountant.Vertex {
		i := nonGenesisIdx(w, r, st, false)
		if i < 0 {
			return nil
		}
		st[i].Weight += 3
		return st
	}},
}

// c14SlowTransport: the joining node reads the peer's stream through a lossless, order preserving transport that
// stalls once for a few seconds in the middle (a slow link). The peer holds more vertices than any buffer between the
// two. The synced ledger must still be the peer's ledger.
func c14SlowTransport(w *core.WorkerCtx) {
	rng := core.Rand(w.Seed, "C14slow", w.Batch)
	desc := fmt.Sprintf("c14 sync of a ledger of 170+ vertices over a transport that stalls once mid-stream seed=%d batch=%d", w.Seed, w.Batch)
	w.Mark("%s", desc)
	world := ledger.NewWorld(rng, w.R, []string{"C14"}, allSnapOracles, desc)
	defer world.Close()
	d, err := ledger.Setup(world, ledger.Profile{Nodes: 1, Users: 4, SupplyClass: 0, Delivery: "lockstep", PContract: 0.1, PBoundary: 0.2})
	if err != nil {
		w.R.Inconc("setup failed: " + err.Error())
		return
	}
	d.P.Steps = 200
	d.Run()
	src := world.Nodes[0]
	ssnap, _ := ledger.TakeSnap(src.Book)
	if ssnap == nil || len(ssnap.Live) < 120 {
		w.R.Note(fmt.Sprintf("slow transport: the peer holds only %d vertices", len(ssnap.Live)))
		return
	}
	stallAfter := 5 + rng.Intn(15)
	stall := time.Duration(2500+rng.Intn(1000)) * time.Millisecond
	relayed := 0
	nn, err := world.AddSyncedNodeVia("SLOW", src, func(in <-chan *accountant.Vertex, out chan<- *accountant.Vertex) {
		for v := range in {
			out <- v
			relayed++
			if relayed == stallAfter {
				time.Sleep(stall)
			}
		}
	})
	world.EvalFor("C14", 1)
	w.R.Count("c14_slow_transport_syncs", 1)
	world.NontrivFor("C14", fmt.Sprintf("slow-transport/live%d", bucketN(len(ssnap.Live))))
	if err != nil {
		world.Violate("C14", "sync-failed/slow-transport", fmt.Sprintf("syncing %d vertices over a transport that stalled %v after %d vertices failed (%d vertices were relayed): %v", len(ssnap.Live), stall, stallAfter, relayed, err))
	} else {
		c14Compare(world, src, nn, fmt.Sprintf("after sync over a transport that stalled %v after %d of %d vertices", stall, stallAfter, len(ssnap.Live)))
	}
	w.R.Sample(6, map[string]any{"case": desc, "peer_vertices": len(ssnap.Live), "relayed": relayed, "stall": stall.String(), "synced": err == nil})
}

// c14DroppedTip: the peer dropped overdrawing tentative tips (a proposal and a gossiped one) before a node syncs from
// it; afterwards both get the same follow-up gossip, first of all vertices that seal those very transactions again.
func c14DroppedTip(w *core.WorkerCtx) {
	rng := core.Rand(w.Seed, "C14dropped", w.Batch)
	desc := "c14 dropped tips before the sync: two overdrawing tips dropped by the peer, a node syncs, their transactions are sealed again and gossiped to both"
	w.Mark("%s", desc)
	world := ledger.NewWorld(rng, w.R, []string{"C14"}, allSnapOracles, desc)
	defer world.Close()
	if _, err := ledger.Setup(world, ledger.Profile{Nodes: 1, Users: 4, SupplyClass: 0, Delivery: "lockstep"}); err != nil {
		w.R.Inconc("setup failed: " + err.Error())
		return
	}
	n := world.Nodes[0]
	u := world.Users
	f := world.NewTrx(u[0], u[1].Addr, spice.Melange{Currency: 10}, nil)
	world.Propose(n, &f, "fund")
	for k := 0; k < 2; k++ {
		over := world.NewTrx(u[1], u[2].Addr, spice.Melange{Currency: 1000 + uint64(k)}, nil)
		if k == 0 {
			world.Propose(n, &over, "overdrawing proposal (tentative)")
		} else {
			s := n.Prev
			for h := range s.Leaves {
				tv, _ := s.Vertex(h)
				ov := ledger.ForgeVertex(world.Sealers[0], over, h, h, tv.Weight+1, world.Now())
				world.Deliver(n, &ov, "overdrawing gossiped vertex (tentative)")
				break
			}
		}
		for i := 0; i < 2; i++ {
			m := world.NewTrx(u[0], u[3].Addr, spice.Melange{SupplementaryCurrency: uint64(1 + i)}, nil)
			world.Propose(n, &m, "next proposal validates the tips")
		}
	}
	if len(n.Dropped) == 0 {
		w.R.Note("c14 dropped tip scenario: no tip was dropped")
	}
	nn, err := world.AddSyncedNode("J-dropped", n)
	if err != nil {
		world.Violate("C14", "sync-failed", fmt.Sprintf("syncing from a peer that had dropped %d tips failed: %v", len(n.Dropped), err))
		return
	}
	defer world.CloseNode(nn)
	world.EvalFor("C14", 1)
	world.NontrivFor("C14", fmt.Sprintf("sync/after-dropped-tips/%d", len(n.Dropped)))
	if c14Compare(world, n, nn, "after sync from a peer that dropped tips") {
		c14FollowUp(world, rng, n, nn, 8)
	}
}

// c14OldTip: the peer's ledger is a chain of 70-130 vertices with one old side tip near its start (a vertex that
// arrived late and was never built upon). A node syncs; both then get the same follow-up gossip, first of all a vertex
// on that old tip.
func c14OldTip(w *core.WorkerCtx) {
	rng := core.Rand(w.Seed, "C14oldtip", w.Batch)
	size := 70 + rng.Intn(60)
	desc := fmt.Sprintf("c14 old side tip: chain of %d vertices with a side tip on its 5th vertex, then sync and follow-up gossip", size)
	w.Mark("%s", desc)
	world := ledger.NewWorld(rng, w.R, []string{"C14"}, allSnapOracles, desc)
	defer world.Close()
	if _, err := ledger.Setup(world, ledger.Profile{Nodes: 1, Users: 4, SupplyClass: 0, Delivery: "lockstep"}); err != nil {
		w.R.Inconc("setup failed: " + err.Error())
		return
	}
	n := world.Nodes[0]
	u := world.Users
	var old accountant.Vertex
	world.Quiet = true
	for i := 0; i < size; i++ {
		t := world.NewTrx(u[0], u[1+i%3].Addr, spice.Melange{SupplementaryCurrency: uint64(1 + i%9)}, nil)
		v, err := world.Propose(n, &t, "grow")
		if err == nil && i == 4 {
			old = v
		}
	}
	world.Quiet = false
	world.Observe(n, ledger.OpInfo{Kind: "milestone", OK: true})
	st := world.NewTrx(u[0], u[2].Addr, spice.Melange{}, []byte("late side vertex"))
	side := ledger.ForgeVertex(world.Sealers[0], st, old.Hash, old.Hash, old.Weight+1, world.Now())
	if err := world.Deliver(n, &side, "late vertex on an old inner vertex"); err != nil {
		w.R.Note("c14 old tip: the side vertex was refused: " + err.Error())
	}
	nn, err := world.AddSyncedNode("J-oldtip", n)
	if err != nil {
		world.Violate("C14", "sync-failed", fmt.Sprintf("syncing from a peer with an old side tip failed: %v", err))
		return
	}
	defer world.CloseNode(nn)
	world.EvalFor("C14", 1)
	world.NontrivFor("C14", fmt.Sprintf("sync/old-side-tip/size%d", bucketN(size)))
	if c14Compare(world, n, nn, "after sync from a peer with an old side tip") {
		c14FollowUp(world, rng, n, nn, 8)
	}
}

func c14Worker(w *core.WorkerCtx) {
	if w.Batch == 2 || (w.Thorough() && w.Batch%40 == 2) {
		c14SlowTransport(w)
	}
	if w.Batch == 3 || (w.Thorough() && w.Batch%40 == 3) {
		c14OldTip(w)
	}
	if w.Batch == 4 || (w.Thorough() && w.Batch%40 == 4) {
		c14RealTransport(w)
	}
	if w.Batch == 5 || (w.Thorough() && w.Batch%40 == 5) {
		c14ServedByGossiper(w)
	}
	if w.Batch == 1 || (w.Thorough() && w.Batch%40 == 1) {
		c14DroppedTip(w)
	}
	if w.Batch == 0 {
		c14AfterTruncation(w)
		c14MinimalWeightWitness(w)
	}
	// a closed node keeps ~8 MB referenced for five minutes (the stores' own ticker goroutines): few scenarios per process
	scen := w.Pick(3, 2)
	for si := 0; si < scen; si++ {
		rng := core.Rand(w.Seed, "C14", w.Batch, si)
		p := ledger.RandomProfile(rng, w.Thorough())
		p.PTrust = 0
		p.Steps = 8 + rng.Intn(25)
		desc := fmt.Sprintf("c14 source %s seed=%d batch=%d scenario=%d", p.Name, w.Seed, w.Batch, si)
		w.Mark("%s", desc)
		world := ledger.NewWorld(rng, w.R, []string{"C14"}, allSnapOracles, desc)
		world.OldEvery = 5 // a peer's ledger holds transactions of any age
		d, err := ledger.Setup(world, p)
		if err != nil {
			w.R.Inconc("setup failed: " + err.Error())
			world.Close()
			continue
		}
		d.Run()
		// transactions sealed just inside the seven day window are outside it by the time a node syncs
		if wait := time.Until(world.NearExpiry.Add(1200 * time.Millisecond)); wait > 0 && wait < 6*time.Second {
			time.Sleep(wait)
			w.R.Count("c14_sources_holding_a_transaction_that_left_the_seven_day_window", 1)
		}
		sources := append([]*ledger.Node{}, world.Nodes...)
		for _, src := range sources {
			// what the peer's replay routine can still admit is admitted first (through the hook that makes one replay
			// step), so that the peer's ledger stands still while nodes sync from it and are compared with it
			for k := 0; k < 80; k++ {
				ps, err := ledger.TakeSnap(src.Book)
				if err != nil {
					break
				}
				admissible := false
				for _, pk := range ps.Parked {
					_, lok := ps.Vertex(pk.Vertex.LeftParentHash)
					_, rok := ps.Vertex(pk.Vertex.RightParentHash)
					if lok && rok {
						admissible = true
					}
				}
				if !admissible {
					break
				}
				world.Retry(src)
			}
			st := recordStream(src)
			ssnap, _ := ledger.TakeSnap(src.Book)
			if len(st) != len(ssnap.Live) {
				world.Violate("C14", "stream-incomplete", fmt.Sprintf("peer %s holds %d live vertices, its stream carried %d", src.Name, len(ssnap.Live), len(st)))
			}
			// (2) the same stream in harness-permuted orders
			for k := 0; k < w.Pick(1, 3); k++ {
				perm := cloneStream(st)
				rng.Shuffle(len(perm), func(i, j int) { perm[i], perm[j] = perm[j], perm[i] })
				pn, loaded, cause := world.AddLoadedNode("P", perm, false)
				if pn == nil {
					continue
				}
				world.EvalFor("C14", 1)
				if !loaded {
					world.Violate("C14", "permuted-stream-not-loaded", fmt.Sprintf("the peer's own vertices in another order were not loaded: %v", cause))
				} else if now, err := ledger.TakeSnap(src.Book); err != nil || now.Digest() != ssnap.Digest() {
					// the peer's own retry ticker admitted (or gave up on) a parked vertex since its stream was recorded:
					// there is no fixed ledger to compare the loaded node with
					w.R.Count("c14_comparisons_skipped_because_the_peer_moved", 1)
				} else {
					c14Compare(world, src, pn, "after loading the permuted stream of "+src.Name)
				}
				w.R.Count("c14_permuted_streams", 1)
				world.CloseNode(pn)
			}
			// (3) all-or-nothing: single corruptions of the recorded stream
			for ci, c := range c14Corruptions {
				if !w.Thorough() && (ci+si+src.Idx)%2 == 1 {
					continue
				}
				cs := c.make(world, rng, cloneStream(st))
				if cs == nil {
					continue
				}
				w.Mark("corruption %s on stream of %d", c.name, len(st))
				cn, loaded, cause := world.AddLoadedNode("C", cs, false)
				if cn == nil {
					continue
				}
				world.EvalFor("C14", 1)
				w.R.Count("c14_corrupted_streams", 1)
				world.NontrivFor("C14", fmt.Sprintf("corruption/%s/live%d", c.name, bucketN(len(st))))
				world.Logf("corrupted stream %s => loaded=%v cause=%v", c.name, loaded, cause)
				if loaded {
					world.Violate("C14", "malformed-stream-loaded/"+c.name, fmt.Sprintf("a stream of %d vertices corrupted by %s left the node marked as loaded", len(st), c.name))
				}
				world.CloseNode(cn)
			}
			// (4) corruption of authenticated content: a node that reports loaded must hold only self-authenticating vertices
			for ti, c := range c14Tamper {
				if !w.Thorough() && (ti+si+src.Idx)%3 != 0 {
					continue
				}
				cs := c.make(world, rng, cloneStream(st))
				if cs == nil {
					continue
				}
				cn, loaded, _ := world.AddLoadedNode("T", cs, false)
				if cn == nil {
					continue
				}
				world.EvalFor("C14", 1)
				w.R.Count("c14_tampered_streams", 1)
				world.NontrivFor("C14", "tampered/"+c.name)
				if loaded {
					s, err := ledger.TakeSnap(cn.Book)
					if err == nil {
						for h, l := range s.Live {
							if ok, why := ledger.SelfAuthentic(&l.V, world.Keys); !ok {
								world.Violate("C14", "tampered-stream-loaded/"+c.name, fmt.Sprintf("a stream with %s was loaded: vertex %s does not authenticate (%s)", c.name, ledger.Hex(h), why))
								break
							}
						}
					}
				}
				world.CloseNode(cn)
			}
			// (1) real StreamDAG + LoadDag (last: its follow-up gossip changes the peer)
			nn, err := world.AddSyncedNode("J-"+src.Name, src)
			if err != nil {
				world.Violate("C14", "sync-failed", fmt.Sprintf("syncing from peer %s (%d vertices, %d tips) failed: %v", src.Name, len(ssnap.Live), len(ssnap.Leaves), err))
			} else {
				world.NontrivFor("C14", fmt.Sprintf("sync/live%d/tips%d", bucketN(len(ssnap.Live)), bucketN(len(ssnap.Leaves))))
				if c14Compare(world, src, nn, "after sync from "+src.Name) {
					c14FollowUp(world, rng, src, nn, w.Pick(12, 30))
				}
				w.R.Count("c14_syncs", 1)
			}
			if nn != nil {
				world.CloseNode(nn)
			}
		}
		if si == 0 && w.Batch == 0 {
			tr := world.Trace
			if len(tr) > 10 {
				tr = tr[len(tr)-10:]
			}
			w.R.Sample(3, map[string]any{"source": desc, "last_operations": tr})
		}
		world.Close()
	}
}

// c14AfterTruncation is the fixed witness of the known finding sync/after-truncation.
func c14AfterTruncation(w *core.WorkerCtx) {
	rng := core.Rand(w.Seed, "C14t")
	desc := "c14 witness: 1030-vertex chain, truncated once, then a fresh node syncs from it"
	world := ledger.NewWorld(rng, w.R, []string{"C14"}, allSnapOracles, desc)
	defer world.Close()
	if err := ledger.RunLong(world, ledger.LongOpts{Nodes: 1, Size: 1030, Truncations: 1, PostOps: 0, Tag: "c14"}); err != nil {
		w.R.Inconc("cannot build the truncated peer: " + err.Error())
		return
	}
	src := world.Nodes[0]
	s, _ := ledger.TakeSnap(src.Book)
	if len(s.Stored) == 0 {
		w.R.Inconc("the peer was not truncated")
		return
	}
	nn, err := world.AddSyncedNode("J", src)
	world.EvalFor("C14", 1)
	world.NontrivFor("C14", "sync/after-truncation")
	if err != nil {
		world.Violate("C14", "sync/after-truncation", fmt.Sprintf("syncing from a truncated peer (%d live, %d checkpointed vertices) failed: %v", len(s.Live), len(s.Stored), err))
	} else if !c14CompareQuiet(world, src, nn) {
		world.Violate("C14", "sync/after-truncation", "the node synced from a truncated peer does not reproduce its balances (the stream carries neither checkpointed vertices nor funds)")
	}
	w.R.Sample(3, map[string]any{"witness": desc, "peer_live": len(s.Live), "peer_checkpointed": len(s.Stored), "sync_error": fmt.Sprint(err)})
}

func c14CompareQuiet(world *ledger.World, a, b *ledger.Node) bool {
	for _, ad := range world.AllAddresses() {
		ba, ea := a.Book.CalculateBalance(world.Ctx, ad)
		bb, eb := b.Book.CalculateBalance(world.Ctx, ad)
		if (ea == nil) != (eb == nil) || (ea == nil && ba.Spice != bb.Spice) {
			return false
		}
	}
	return true
}

func init() {
	core.Register(&core.Check{
		Spec: core.Spec{
			Prop:        "C14",
			Rule:        "End states of random multi-node scenarios (several tips, forged branches, no trusted sealers) serve as peers. (1) A fresh node runs the real StreamDAG+LoadDag: it must report loaded, hold the peer's vertices field by field with the same graph edges, index and genesis wallet, the same reference balance per tip and address (and identical CalculateBalance answers when single-tipped), then 12-30 identical gossip deliveries (valid, overdraft, replay, tampered, orphan; tips and stale parents) must be accepted/parked/rejected identically and leave equal ledgers. (2) The recorded stream is loaded in PRNG-permuted orders. (3) Each single corruption out of {duplicate vertex, two vertices with one transaction, unknown parent, second self-sealed vertex on a tip, a vertex re-issued by its own sealer, emptied transaction, missing parent vertex} (re-sealed with the right key so that only that defect is present) must leave the node not loaded. (4) Streams with tampered authenticated content: a node that reports loaded must hold only self-authenticating vertices. Batch 0 first runs the fixed witness of the known finding (sync from a truncated peer). Non-trivial = every sync/corruption; distinct by (kind, size bucket, tips bucket). Every fifth transaction of the source ledgers is dated 8-400 days in the past. Added corruptions: a second root (validly signed vertex with zero parent hashes or a zero left parent; also self-sealed), the same transaction sealed by two nodes (before or after the original in stream order). One batch syncs a ledger of about 200 vertices over a lossless, order preserving transport that stalls once for 2.5-3.5 s after 5-20 vertices: the result must be the peer's ledger. The follow-up gossip starts with vertices that seal again the transactions of tentative tips the peer had dropped before it served the DAG (fixed scenario plus whatever the random sources dropped). After every sync the follow-up gossip includes a vertex on the peer's oldest tip; one fixed scenario syncs from a chain of 70-130 vertices with a late side tip near its start. Real transport: a real gRPC peer on an in-memory listener serves the recorded stream (clean, and with each malformation) and a fresh node syncs through the client side of the gossip service. The peer is a whole node serving through its own gossip service; a fresh node syncs after every way the peer's ledger changes.",
			Assumptions: []string{ledgerAssume, "peers of this check have empty trusted stores (the trusted store is local configuration and is not part of the stream)"},
			MinEvals:    100, MinNontriv: 8,
		},
		Plan: func(tier string) core.Plan {
			if tier == "thorough" {
				return core.Plan{Batches: 240, Parallel: 6, Timeout: 40 * time.Minute}
			}
			return core.Plan{Batches: 8, Parallel: 6, Timeout: 8 * time.Minute}
		},
		Worker: c14Worker,
	})
}
