package checks

import (
	"context"
	"fmt"
	"strings"

	"github.com/bartossh/Computantis/src/accountant"
	"github.com/bartossh/Computantis/src/spice"
	"github.com/bartossh/Computantis/src/wallet"

	"verifharness/core"
	"verifharness/ledger"
)

// c10Genesis: genesis cannot name its own issuer as receiver; ledgers obtained by syncing obey the sealing rules.
func c10Genesis(w *core.WorkerCtx) {
	r := w.R
	// (a) genesis with receiver = the node's own wallet
	for i := 0; i < w.Pick(3, 20); i++ {
		a := ledger.NewActor("g")
		ctx, cancel := context.WithCancel(context.Background())
		b, err := accountant.NewAccountingBook(ctx, accountant.Config{Truncate: 1 << 50}, wallet.NewVerifier(), &a.W, ledger.NoLog{})
		if err != nil {
			cancel()
			continue
		}
		_, gerr := b.CreateGenesis("GENESIS", spice.Melange{Currency: uint64(1 + i)}, []byte{}, a.Addr)
		r.Eval(1)
		r.Nontriv("genesis/self-receiver")
		s, _ := ledger.TakeSnap(b)
		if gerr == nil {
			r.Violate("C10", "genesis-names-own-issuer", "CreateGenesis accepted the node's own wallet as the receiver", nil)
		}
		if s != nil && (s.Loaded || len(s.Live) > 0) {
			r.Violate("C10", "refused-genesis-left-state", fmt.Sprintf("after a refused genesis the node reports loaded=%v with %d vertices", s.Loaded, len(s.Live)), nil)
		}
		b.VerifClose()
		cancel()
	}
	// (a') the own address in other spellings (surrounding blanks, line ends, a NUL): whatever CreateGenesis answers,
	// the genesis vertex it seals must not name the issuing wallet as receiver, and a peer syncing it must not either
	for i, dress := range []func(string) string{
		func(a string) string { return a + "\n" },
		func(a string) string { return " " + a },
		func(a string) string { return a + " " },
		func(a string) string { return "\t" + a + "\r\n" },
		func(a string) string { return a + "\x00" },
	} {
		a := ledger.NewActor("g")
		ctx, cancel := context.WithCancel(context.Background())
		b, err := accountant.NewAccountingBook(ctx, accountant.Config{Truncate: 1 << 50}, wallet.NewVerifier(), &a.W, ledger.NoLog{})
		if err != nil {
			cancel()
			continue
		}
		gv, gerr := b.CreateGenesis("GENESIS", spice.Melange{Currency: 5}, []byte{}, dress(a.Addr))
		r.Eval(1)
		r.Nontriv(fmt.Sprintf("genesis/self-receiver-spelled-differently/%d/accepted=%v", i, gerr == nil))
		if gerr == nil && gv.Transaction.ReceiverAddress == gv.Transaction.IssuerAddress {
			r.Violate("C10", "genesis-names-own-issuer/respelled", fmt.Sprintf("CreateGenesis sealed a genesis whose receiver is its issuer (receiver given as the own address in spelling %d)", i), nil)
		}
		if s, _ := ledger.TakeSnap(b); s != nil {
			for _, l := range s.Live {
				if l.V.Transaction.ReceiverAddress == l.V.Transaction.IssuerAddress && l.V.Transaction.IssuerAddress == a.Addr {
					r.Violate("C10", "genesis-names-own-issuer/respelled", fmt.Sprintf("the ledger holds a genesis vertex whose receiver is its issuer (spelling %d)", i), nil)
				}
			}
		}
		b.VerifClose()
		cancel()
	}
	// (b) ledgers obtained by syncing: streams that contain a forbidden vertex must not yield a loaded node holding it
	rng := core.Rand(w.Seed, "C10g", w.Batch)
	world := ledger.NewWorld(rng, r, []string{"C10"}, allSnapOracles, "c10 sync streams with forbidden vertices")
	defer world.Close()
	d, err := ledger.Setup(world, ledger.Profile{Nodes: 2, Users: 4, SupplyClass: 0, Delivery: "lockstep", PBoundary: 0.2})
	if err != nil {
		return
	}
	d.P.Steps = 10
	d.Run()
	src := world.Nodes[0]
	s, _ := ledger.TakeSnap(src.Book)
	var stream []*accountant.Vertex
	var tip ledger.H
	var wgt uint64
	for h, l := range s.Live {
		c := l.V
		stream = append(stream, &c)
		if s.Leaves[h] {
			tip, wgt = h, l.V.Weight
		}
	}
	genActor := world.Nodes[0].Actor
	forbidden := map[string]accountant.Vertex{}
	t1 := world.NewTrx(world.Sealers[0], world.Users[1].Addr, spice.Melange{Currency: 1}, nil)
	forbidden["self-sealed"] = ledger.ForgeVertex(world.Sealers[0], t1, tip, tip, wgt+1, world.Now())
	t2 := world.NewTrx(genActor, world.Users[1].Addr, spice.Melange{Currency: 1}, nil)
	forbidden["genesis-wallet-spends"] = ledger.ForgeVertex(world.Sealers[1], t2, tip, tip, wgt+1, world.Now())
	t3 := world.NewTrx(world.Users[1], world.Users[2].Addr, spice.Melange{}, nil)
	forbidden["empty-transaction"] = ledger.ForgeVertex(world.Sealers[1], t3, tip, tip, wgt+1, world.Now())
	// forbidden vertices that hang on nothing (zero parent hashes): a second root of the loaded graph
	var zero ledger.H
	t4 := world.NewTrx(world.Sealers[0], world.Users[1].Addr, spice.Melange{Currency: 1}, nil)
	forbidden["self-sealed/second-root"] = ledger.ForgeVertex(world.Sealers[0], t4, zero, zero, 0, world.Now())
	t5 := world.NewTrx(world.Sealers[1], world.Users[2].Addr, spice.Melange{Currency: 2}, nil)
	forbidden["self-sealed/left-parent-zero"] = ledger.ForgeVertex(world.Sealers[1], t5, zero, tip, wgt+1, world.Now())
	t6 := world.NewTrx(genActor, world.Users[1].Addr, spice.Melange{Currency: 1}, nil)
	forbidden["genesis-wallet-spends/second-root"] = ledger.ForgeVertex(world.Sealers[1], t6, zero, zero, 0, world.Now())
	t7 := world.NewTrx(world.Users[1], world.Users[2].Addr, spice.Melange{}, nil)
	forbidden["empty-transaction/second-root"] = ledger.ForgeVertex(world.Sealers[0], t7, zero, zero, 0, world.Now())
	for rule, fv := range forbidden {
		fv := fv
		st := append(append([]*accountant.Vertex{}, stream...), &fv)
		n, loaded, _ := world.AddLoadedNode("S", st, false)
		if n == nil {
			continue
		}
		r.Eval(1)
		r.Nontriv("sync/" + rule)
		if loaded {
			ns, _ := ledger.TakeSnap(n.Book)
			if ns != nil {
				if _, ok := ns.Live[fv.Hash]; ok && !strings.HasPrefix(rule, "genesis-wallet-spends") {
					world.Violate("C10", "present/"+rule+"/sync", fmt.Sprintf("a node that reports loaded holds a %s vertex obtained through sync", rule))
				}
				if _, ok := ns.Live[fv.Hash]; ok && strings.HasPrefix(rule, "genesis-wallet-spends") {
					// the loader has no rule for it; the vertex is a spend of the genesis wallet in a synced ledger
					world.Violate("C10", "present/"+rule+"/sync", "a node that reports loaded holds a vertex issued by the genesis wallet, obtained through sync")
				}
			}
		}
		world.CloseNode(n)
	}
}
