package checks

import (
	"context"
	"fmt"
	"github.com/bartossh/Computantis/src/gossip"
	"github.com/bartossh/Computantis/src/protobufcompiled"
	"github.com/bartossh/Computantis/src/transaction"
	"strings"
	"time"
	"verifharness/svc"

	"github.com/bartossh/Computantis/src/accountant"
	"github.com/bartossh/Computantis/src/spice"
	"github.com/bartossh/Computantis/src/wallet"

	"verifharness/core"
	"verifharness/ledger"
)

// c10Genesis: genesis cannot name its own issuer as receiver; ledgers obtained by syncing obey the sealing rules.
func c10Genesis(w *core.WorkerCtx) {
	r := w.R
	// (a) genesis with receiver = the node's own wallet
	for i := 0; i < w.Pick(3, 20); i++ {
		a := ledger.NewActor("g")
		ctx, cancel := context.WithCancel(context.Background())
		b, err := accountant.NewAccountingBook(ctx, accountant.Config{Truncate: 1 << 50}, wallet.NewVerifier(), &a.W, ledger.NoLog{})
		if err != nil {
			cancel()
			continue
		}
		_, gerr := b.CreateGenesis("GENESIS", spice.Melange{Currency: uint64(1 + i)}, []byte{}, a.Addr)
		r.Eval(1)
		r.Nontriv("genesis/self-receiver")
		s, _ := ledger.TakeSnap(b)
		if gerr == nil {
			r.Violate("C10", "genesis-names-own-issuer", "CreateGenesis accepted the node's own wallet as the receiver", nil)
		}
		if s != nil && (s.Loaded || len(s.Live) > 0) {
			r.Violate("C10", "refused-genesis-left-state", fmt.Sprintf("after a refused genesis the node reports loaded=%v with %d vertices", s.Loaded, len(s.Live)), nil)
		}
		b.VerifClose()
		cancel()
	}
	// (a') the own address in other spellings (surrounding blanks, line ends, a NUL): whatever CreateGenesis answers,
	// the genesis vertex it seals must not name the issuing wallet as receiver, and a peer syncing it must not either
	for i, dress := range []func(string) string{
		func(a string) string { return a + "\n" },
		func(a string) string { return " " + a },
		func(a string) string { return a + " " },
		func(a string) string { return "\t" + a + "\r\n" },
		func(a string) string { return a + "\x00" },
	} {
		a := ledger.NewActor("g")
		ctx, cancel := context.WithCancel(context.Background())
		b, err := accountant.NewAccountingBook(ctx, accountant.Config{Truncate: 1 << 50}, wallet.NewVerifier(), &a.W, ledger.NoLog{})
		if err != nil {
			cancel()
			continue
		}
		gv, gerr := b.CreateGenesis("GENESIS", spice.Melange{Currency: 5}, []byte{}, dress(a.Addr))
		r.Eval(1)
		r.Nontriv(fmt.Sprintf("genesis/self-receiver-spelled-differently/%d/accepted=%v", i, gerr == nil))
		if gerr == nil && gv.Transaction.ReceiverAddress == gv.Transaction.IssuerAddress {
			r.Violate("C10", "genesis-names-own-issuer/respelled", fmt.Sprintf("CreateGenesis sealed a genesis whose receiver is its issuer (receiver given as the own address in spelling %d)", i), nil)
		}
		if s, _ := ledger.TakeSnap(b); s != nil {
			for _, l := range s.Live {
				if l.V.Transaction.ReceiverAddress == l.V.Transaction.IssuerAddress && l.V.Transaction.IssuerAddress == a.Addr {
					r.Violate("C10", "genesis-names-own-issuer/respelled", fmt.Sprintf("the ledger holds a genesis vertex whose receiver is its issuer (spelling %d)", i), nil)
				}
			}
		}
		b.VerifClose()
		cancel()
	}
	// (b) ledgers obtained by syncing: streams that contain a forbidden vertex must not yield a loaded node holding it
	rng := core.Rand(w.Seed, "C10g", w.Batch)
	world := ledger.NewWorld(rng, r, []string{"C10"}, allSnapOracles, "c10 sync streams with forbidden vertices")
	defer world.Close()
	d, err := ledger.Setup(world, ledger.Profile{Nodes: 2, Users: 4, SupplyClass: 0, Delivery: "lockstep", PBoundary: 0.2})
	if err != nil {
		return
	}
	d.P.Steps = 10
	d.Run()
	src := world.Nodes[0]
	s, _ := ledger.TakeSnap(src.Book)
	var stream []*accountant.Vertex
	var tip ledger.H
	var wgt uint64
	for h, l := range s.Live {
		c := l.V
		stream = append(stream, &c)
		if s.Leaves[h] {
			tip, wgt = h, l.V.Weight
		}
	}
	genActor := world.Nodes[0].Actor
	forbidden := map[string]accountant.Vertex{}
	t1 := world.NewTrx(world.Sealers[0], world.Users[1].Addr, spice.Melange{Currency: 1}, nil)
	forbidden["self-sealed"] = ledger.ForgeVertex(world.Sealers[0], t1, tip, tip, wgt+1, world.Now())
	t2 := world.NewTrx(genActor, world.Users[1].Addr, spice.Melange{Currency: 1}, nil)
	forbidden["genesis-wallet-spends"] = ledger.ForgeVertex(world.Sealers[1], t2, tip, tip, wgt+1, world.Now())
	t3 := world.NewTrx(world.Users[1], world.Users[2].Addr, spice.Melange{}, nil)
	forbidden["empty-transaction"] = ledger.ForgeVertex(world.Sealers[1], t3, tip, tip, wgt+1, world.Now())
	// forbidden vertices that hang on nothing (zero parent hashes): a second root of the loaded graph
	var zero ledger.H
	t4 := world.NewTrx(world.Sealers[0], world.Users[1].Addr, spice.Melange{Currency: 1}, nil)
	forbidden["self-sealed/second-root"] = ledger.ForgeVertex(world.Sealers[0], t4, zero, zero, 0, world.Now())
	t5 := world.NewTrx(world.Sealers[1], world.Users[2].Addr, spice.Melange{Currency: 2}, nil)
	forbidden["self-sealed/left-parent-zero"] = ledger.ForgeVertex(world.Sealers[1], t5, zero, tip, wgt+1, world.Now())
	t6 := world.NewTrx(genActor, world.Users[1].Addr, spice.Melange{Currency: 1}, nil)
	forbidden["genesis-wallet-spends/second-root"] = ledger.ForgeVertex(world.Sealers[1], t6, zero, zero, 0, world.Now())
	t7 := world.NewTrx(world.Users[1], world.Users[2].Addr, spice.Melange{}, nil)
	forbidden["empty-transaction/second-root"] = ledger.ForgeVertex(world.Sealers[0], t7, zero, zero, 0, world.Now())
	for rule, fv := range forbidden {
		fv := fv
		st := append(append([]*accountant.Vertex{}, stream...), &fv)
		n, loaded, _ := world.AddLoadedNode("S", st, false)
		if n == nil {
			continue
		}
		r.Eval(1)
		r.Nontriv("sync/" + rule)
		if loaded {
			ns, _ := ledger.TakeSnap(n.Book)
			if ns != nil {
				if _, ok := ns.Live[fv.Hash]; ok && !strings.HasPrefix(rule, "genesis-wallet-spends") {
					world.Violate("C10", "present/"+rule+"/sync", fmt.Sprintf("a node that reports loaded holds a %s vertex obtained through sync", rule))
				}
				if _, ok := ns.Live[fv.Hash]; ok && strings.HasPrefix(rule, "genesis-wallet-spends") {
					// the loader has no rule for it; the vertex is a spend of the genesis wallet in a synced ledger
					world.Violate("C10", "present/"+rule+"/sync", "a node that reports loaded holds a vertex issued by the genesis wallet, obtained through sync")
				}
			}
		}
		world.CloseNode(n)
	}
}

// c10GossipPath: the sealing rules on the way a vertex really takes in to a node: through the gossip service (wire
// vertex, the service's own mapping, the ledger). A vertex that arrives before its parent is parked; right after it a
// forbidden vertex on known parents is refused; then the parent arrives and the orphan buffer is replayed. The ledger
// must hold the parked vertex and nothing forbidden.
func c10GossipPath(w *core.WorkerCtx) {
	r := w.R
	rng := core.Rand(w.Seed, "C10gossip", w.Batch)
	rig, err := svc.New(4, 60, 2048)
	if err != nil {
		r.Inconc("cannot build the node: " + err.Error())
		return
	}
	defer rig.Close()
	ctx := context.Background()
	u := rig.Users
	send := func(v *accountant.Vertex) error {
		rig.Flash.RemoveAddress(string(v.Hash[:]))
		_, err := rig.Gossip.GossipVrx(ctx, &protobufcompiled.VrxMsgGossip{Vertex: gossip.VerifVertexToProtoVertex(v)})
		return err
	}
	scan := func(what string) {
		s, err := ledger.TakeSnap(rig.Book)
		if err != nil {
			return
		}
		for h, l := range s.Live {
			v := &l.V
			if h == rig.Genesis.Hash {
				continue
			}
			t := &v.Transaction
			switch {
			case t.IssuerAddress == v.SignerPublicAddress:
				r.Violate("C10", "present/self-sealed/gossip-service", fmt.Sprintf("%s: the ledger holds vertex %s whose transaction was issued by its own sealer", what, ledger.Hex(h)), nil)
			case t.IssuerAddress == rig.Genesis.Transaction.IssuerAddress:
				r.Violate("C10", "present/genesis-wallet-spends/gossip-service", fmt.Sprintf("%s: the ledger holds vertex %s issued by the genesis wallet", what, ledger.Hex(h)), nil)
			case len(t.Data) == 0 && t.Spice.Currency == 0 && t.Spice.SupplementaryCurrency == 0:
				r.Violate("C10", "present/empty-transaction/gossip-service", fmt.Sprintf("%s: the ledger holds vertex %s with neither data nor spice", what, ledger.Hex(h)), nil)
			}
		}
		r.Eval(1)
	}
	rounds := w.Pick(24, 120)
	for round := 0; round < rounds; round++ {
		s, err := ledger.TakeSnap(rig.Book)
		if err != nil {
			break
		}
		var tip ledger.H
		var wgt uint64
		for h := range s.Leaves {
			if v, ok := s.Vertex(h); ok && v.Weight >= wgt {
				tip, wgt = h, v.Weight
			}
		}
		pt := ledger.ForgeTrx(u[0], u[1].Addr, fmt.Sprintf("parent %d", round), []byte("parent"), spice.Melange{}, time.Now().Add(-time.Minute))
		parent := ledger.ForgeVertex(rig.PeerAct[0], pt, tip, tip, wgt+1, time.Now().Add(-time.Second))
		ot := ledger.ForgeTrx(u[0], u[2].Addr, fmt.Sprintf("orphan %d", round), nil, spice.Melange{SupplementaryCurrency: uint64(1 + rng.Intn(9))}, time.Now().Add(-time.Minute))
		orphan := ledger.ForgeVertex(rig.PeerAct[1], ot, parent.Hash, parent.Hash, wgt+2, time.Now().Add(-time.Second))
		// the forbidden vertex, on known parents
		var ft transaction.Transaction
		sealer := rig.PeerAct[round%2]
		rule := []string{"self-sealed", "empty-transaction", "genesis-wallet-spends", "empty-transaction-empty-slice"}[round%4]
		switch rule {
		case "self-sealed":
			ft = ledger.ForgeTrx(sealer, u[1].Addr, fmt.Sprintf("forbidden %d", round), []byte("self sealed"), spice.Melange{}, time.Now().Add(-time.Minute))
		case "empty-transaction":
			ft = ledger.ForgeTrx(u[1], u[2].Addr, fmt.Sprintf("forbidden %d", round), nil, spice.Melange{}, time.Now().Add(-time.Minute))
		case "empty-transaction-empty-slice":
			ft = ledger.ForgeTrx(u[1], u[2].Addr, fmt.Sprintf("forbidden %d", round), []byte{}, spice.Melange{}, time.Now().Add(-time.Minute))
		default:
			ft = ledger.ForgeTrx(rig.Node, u[2].Addr, fmt.Sprintf("forbidden %d", round), []byte("by the node's own wallet"), spice.Melange{}, time.Now().Add(-time.Minute))
			rule = "issued-by-the-receiving-node"
		}
		forbidden := ledger.ForgeVertex(sealer, ft, tip, tip, wgt+1, time.Now().Add(-time.Second))
		w.Mark("c10 gossip path round %d rule %s", round, rule)
		send(&orphan)
		ferr := send(&forbidden)
		scan("after the forbidden vertex (" + rule + ")")
		send(&parent)
		for k := 0; k < 4; k++ {
			rig.Book.VerifRetryOne(ctx)
		}
		scan("after the replay of the orphan buffer (" + rule + ")")
		held := false
		for k := 0; k < 100 && !held; k++ {
			if _, err := rig.Book.ReadVertex(ctx, orphan.Hash); err == nil {
				held = true
			} else {
				rig.Book.VerifRetryOne(ctx)
				time.Sleep(2 * time.Millisecond)
			}
		}
		r.Eval(1)
		r.Count("c10_gossip_path_rounds", 1)
		r.Nontriv(fmt.Sprintf("gossip-service/%s/refused=%v/orphan-admitted=%v", rule, ferr != nil, held))
		if !held {
			r.Violate("C10", "parked-vertex-lost/gossip-service", fmt.Sprintf("round %d: a valid vertex that arrived before its parent, followed by a refused %s vertex, was never admitted after its parent arrived", round, rule), nil)
		}
	}
}

// c10Trusted: the sealing rules do not depend on who seals. A node trusts a sealer (its vertices skip the funds
// validation); vertices of that sealer that break a sealing rule - its own transaction, a transaction of the genesis
// wallet, an empty one - are refused like anybody else's, through delivery and through the orphan buffer.
func c10Trusted(w *core.WorkerCtx) {
	rng := core.Rand(w.Seed, "C10trusted", w.Batch)
	desc := fmt.Sprintf("c10 trusted sealer offers forbidden vertices seed=%d batch=%d", w.Seed, w.Batch)
	w.Mark("%s", desc)
	world := ledger.NewWorld(rng, w.R, []string{"C10"}, allSnapOracles, desc)
	defer world.Close()
	if _, err := ledger.Setup(world, ledger.Profile{Nodes: 1, Users: 4, SupplyClass: 0, Delivery: "lockstep"}); err != nil {
		w.R.Inconc("setup failed: " + err.Error())
		return
	}
	n := world.Nodes[0]
	u := world.Users
	trusted := world.Sealers[0]
	world.Trust(n, trusted.Addr, true)
	gen := n.Actor // node 0 issued the genesis
	for round := 0; round < w.Pick(6, 30); round++ {
		s := n.Prev
		var tip ledger.H
		var wgt uint64
		found := false
		for h := range s.Leaves {
			if v, ok := s.Vertex(h); ok && v.Weight >= wgt {
				tip, wgt, found = h, v.Weight, true
			}
		}
		if !found {
			break
		}
		var t transaction.Transaction
		rule := []string{"self-sealed", "genesis-wallet-spends", "empty-transaction"}[round%3]
		switch rule {
		case "self-sealed":
			t = world.NewTrx(trusted, u[1].Addr, spice.Melange{}, []byte("own transaction of a trusted sealer"))
		case "genesis-wallet-spends":
			t = world.NewTrx(gen, u[1].Addr, spice.Melange{Currency: 1}, nil)
		default:
			t = world.NewTrx(u[1], u[2].Addr, spice.Melange{}, nil)
		}
		v := ledger.ForgeVertex(trusted, t, tip, tip, wgt+1, world.Now())
		var err error
		entry := "gossip"
		if round%2 == 1 {
			// through the orphan buffer: before an honest parent
			entry = "orphan-replay"
			pt := world.NewTrx(u[0], u[3].Addr, spice.Melange{}, []byte("honest parent"))
			p := ledger.ForgeVertex(world.Sealers[1], pt, tip, tip, wgt+1, world.Now())
			v = ledger.ForgeVertex(trusted, t, p.Hash, p.Hash, wgt+2, world.Now())
			err = world.Deliver(n, &v, "forbidden vertex of a trusted sealer before its parent")
			world.Deliver(n, &p, "the parent")
			for k := 0; k < 4; k++ {
				world.Retry(n)
			}
		} else {
			err = world.Deliver(n, &v, "forbidden vertex of a trusted sealer")
		}
		w.R.Count("c10_trusted_sealer_rounds_judged", 1)
		world.EvalFor("C10", 1)
		world.NontrivFor("C10", fmt.Sprintf("trusted-sealer/%s/%s/refused=%v", rule, entry, err != nil))
		if _, held := n.Prev.Vertex(v.Hash); held {
			world.Violate("C10", "accepted/"+rule+"/trusted-sealer", fmt.Sprintf("a %s vertex sealed by a sealer the node trusts (entry: %s, answer: %v) is in the ledger", rule, entry, err))
		}
		m := world.NewTrx(u[0], u[1].Addr, spice.Melange{}, []byte("merge"))
		world.Propose(n, &m, "merge")
	}
}

// c10HeaviestTip: a peer gossips correctly sealed vertices whose weight is as large as the counter goes (2^64-1,
// 2^64-2, 2^63): whatever weight the node's next own vertex gets, the sealing rules hold for it - the node's own wallet
// still cannot issue through its own node, the genesis wallet cannot spend, an empty transaction is not sealed.
func c10HeaviestTip(w *core.WorkerCtx) {
	rng := core.Rand(w.Seed, "C10heavy", w.Batch)
	desc := fmt.Sprintf("c10 forbidden proposals on top of tips of maximal weight seed=%d batch=%d", w.Seed, w.Batch)
	w.Mark("%s", desc)
	for _, heavy := range []uint64{^uint64(0), ^uint64(0) - 1, 1 << 63, 2} {
		world := ledger.NewWorld(rng, w.R, []string{"C10"}, allSnapOracles, desc)
		if heavy == 2 {
			// an ordinary weight, and wallets with the shortest addresses there are (every wallet of this world is the
			// shortest of 400: 49 characters, which about one wallet in 250 has)
			ledger.ShortestOf = 400
		}
		_, err := ledger.Setup(world, ledger.Profile{Nodes: 2, Users: 4, SupplyClass: 0, Delivery: "lockstep"})
		ledger.ShortestOf = 0
		if heavy == 2 {
			w.R.Count(fmt.Sprintf("c10_node_address_length_%d", len(world.Nodes[1].Actor.Addr)), 1)
		}
		if err != nil {
			w.R.Inconc("setup failed: " + err.Error())
			world.Close()
			return
		}
		// the second node joined by syncing: its wallet is not the genesis wallet, so the rule against its own wallet is
		// the only one that stands between its own transaction and its ledger
		n := world.Nodes[1]
		u := world.Users
		s := n.Prev
		var tip ledger.H
		for h := range s.Leaves {
			tip = h
		}
		if heavy == 1<<63 {
			// a second, redundant sync attempt on the joined node first: it is refused ("already loaded") and must change
			// nothing, least of all what the node knows about the genesis wallet
			ch := make(chan *accountant.Vertex, 4)
			g := world.Genesis
			ch <- &g
			close(ch)
			_, cancelCause := context.WithCancelCause(context.Background())
			n.Book.LoadDag(cancelCause, ch)
			cancelCause(nil)
			world.Observe(n, ledger.OpInfo{Kind: "query", OK: true})
		}
		ht := world.NewTrx(u[0], u[1].Addr, spice.Melange{}, []byte("carried by a vertex of maximal weight"))
		hv := ledger.ForgeVertex(world.Sealers[0], ht, tip, tip, heavy, world.Now())
		herr := world.Deliver(n, &hv, "vertex of maximal weight")
		for round := 0; round < 3; round++ {
			var t transaction.Transaction
			rule := []string{"self-sealed", "genesis-wallet-spends", "empty-transaction"}[round]
			switch rule {
			case "self-sealed":
				t = world.NewTrx(n.Actor, u[1].Addr, spice.Melange{}, []byte("the node's own wallet through its own node"))
			case "genesis-wallet-spends":
				t = world.NewTrx(world.Nodes[0].Actor, u[1].Addr, spice.Melange{Currency: 1}, nil)
			default:
				t = world.NewTrx(u[1], u[2].Addr, spice.Melange{}, nil)
			}
			v, err := world.Propose(n, &t, "forbidden proposal on a tip of maximal weight: "+rule)
			world.EvalFor("C10", 1)
			world.NontrivFor("C10", fmt.Sprintf("heaviest-tip/w%d/%s/heavy-admitted=%v/refused=%v", heavy>>60, rule, herr == nil, err != nil))
			if err == nil {
				world.Violate("C10", "accepted/"+rule+"/after-heaviest-tip", fmt.Sprintf("with a tip of weight %d in the ledger the node sealed a %s transaction (vertex %s, weight %d)", heavy, rule, ledger.Hex(v.Hash), v.Weight))
			}
			if rule == "genesis-wallet-spends" {
				var tp ledger.H
				var tw uint64
				for h := range n.Prev.Leaves {
					if tv, ok := n.Prev.Vertex(h); ok {
						tp, tw = h, tv.Weight
					}
				}
				gt := world.NewTrx(world.Nodes[0].Actor, u[2].Addr, spice.Melange{Currency: 1}, nil)
				gv := ledger.ForgeVertex(world.Sealers[1], gt, tp, tp, tw+1, world.Now())
				if gerr := world.Deliver(n, &gv, "genesis wallet spends in a gossiped vertex"); gerr == nil {
					world.Violate("C10", "accepted/genesis-wallet-spends/after-heaviest-tip", fmt.Sprintf("the joined node admitted a gossiped vertex issued by the genesis wallet (weight of the heavy tip %d)", heavy))
				}
			}
			// an ordinary proposal in between (its weight wraps around)
			m := world.NewTrx(u[0], u[1].Addr, spice.Melange{}, []byte("ordinary"))
			world.Propose(n, &m, "ordinary proposal")
		}
		world.Close()
	}
	w.R.Count("c10_heaviest_tip_scenarios", 3)
}

// c10AfterTruncation: the sealing rules on nodes that have truncated their genesis vertex out of the live graph. Two
// nodes grow a common chain of 1040 vertices, both truncate, and then the genesis wallet tries to spend - in a gossiped
// vertex at the genesis node, in a proposal at the joined node - next to a self sealed and an empty offer.
func c10AfterTruncation(w *core.WorkerCtx) {
	rng := core.Rand(w.Seed, "C10trunc", w.Batch)
	desc := fmt.Sprintf("c10 forbidden offers after the genesis vertex was checkpointed seed=%d batch=%d", w.Seed, w.Batch)
	w.Mark("%s", desc)
	world := ledger.NewWorld(rng, w.R, []string{"C10"}, allSnapOracles, desc)
	defer world.Close()
	if _, err := ledger.Setup(world, ledger.Profile{Nodes: 2, Users: 4, SupplyClass: 0, Delivery: "lockstep"}); err != nil {
		w.R.Inconc("setup failed: " + err.Error())
		return
	}
	a, b := world.Nodes[0], world.Nodes[1]
	u := world.Users
	world.Quiet = true
	for i := 0; i < 1040; i++ {
		t := world.NewTrx(u[0], u[1+i%3].Addr, spice.Melange{}, []byte(fmt.Sprintf("contract %d", i)))
		v, err := world.Propose(a, &t, "grow")
		if err == nil {
			world.Deliver(b, &v, "net")
		}
	}
	world.Quiet = false
	world.Observe(a, ledger.OpInfo{Kind: "milestone", OK: true})
	world.Observe(b, ledger.OpInfo{Kind: "milestone", OK: true})
	for _, n := range []*ledger.Node{a, b} {
		if err := world.Truncate(n); err != nil {
			w.R.Inconc("truncation failed: " + err.Error())
			return
		}
	}
	_, genesisLive := a.Prev.Live[world.Genesis.Hash]
	gen := a.Actor
	for round := 0; round < 6; round++ {
		n := []*ledger.Node{a, b}[round%2]
		s := n.Prev
		var tip ledger.H
		var wgt uint64
		for h := range s.Leaves {
			if v, ok := s.Vertex(h); ok && v.Weight >= wgt {
				tip, wgt = h, v.Weight
			}
		}
		rule := []string{"genesis-wallet-spends", "genesis-wallet-spends", "self-sealed", "empty-transaction", "genesis-wallet-spends", "genesis-wallet-spends"}[round]
		var err error
		var hash ledger.H
		entry := "gossip"
		switch {
		case rule == "genesis-wallet-spends" && n == b && round != 5:
			// the joined node's own wallet is not the genesis wallet: only the genesis rule stands in the way
			entry = "propose"
			t := world.NewTrx(gen, u[1].Addr, spice.Melange{Currency: 1}, []byte("genesis wallet spends"))
			var v accountant.Vertex
			v, err = world.Propose(n, &t, "genesis wallet proposes after truncation")
			hash = v.Hash
		case rule == "genesis-wallet-spends":
			t := world.NewTrx(gen, u[1].Addr, spice.Melange{Currency: 1}, nil)
			v := ledger.ForgeVertex(world.Sealers[0], t, tip, tip, wgt+1, world.Now())
			err = world.Deliver(n, &v, "genesis wallet spends in a gossiped vertex after truncation")
			hash = v.Hash
		case rule == "self-sealed":
			t := world.NewTrx(world.Sealers[1], u[1].Addr, spice.Melange{}, []byte("self sealed"))
			v := ledger.ForgeVertex(world.Sealers[1], t, tip, tip, wgt+1, world.Now())
			err = world.Deliver(n, &v, "self sealed vertex after truncation")
			hash = v.Hash
		default:
			t := world.NewTrx(u[1], u[2].Addr, spice.Melange{}, nil)
			v := ledger.ForgeVertex(world.Sealers[0], t, tip, tip, wgt+1, world.Now())
			err = world.Deliver(n, &v, "empty transaction after truncation")
			hash = v.Hash
		}
		world.EvalFor("C10", 1)
		world.NontrivFor("C10", fmt.Sprintf("after-truncation/%s/%s/node%d/genesis-still-live=%v/refused=%v", rule, entry, n.Idx, genesisLive, err != nil))
		if _, held := n.Prev.Vertex(hash); err == nil && held {
			world.Violate("C10", "accepted/"+rule+"/after-truncation", fmt.Sprintf("node %s, whose genesis vertex is checkpointed (still live: %v), admitted a %s offer through %s", n.Name, genesisLive, rule, entry))
		}
	}
	w.R.Count("c10_after_truncation_scenarios", 1)
}
