package ledger

import (
	"context"
	"crypto/ed25519"
	"errors"
	"fmt"
	"math/big"
	"math/rand"
	"os"
	"strings"
	"sync"
	"sync/atomic"
	"time"

	"github.com/bartossh/Computantis/src/accountant"
	"github.com/bartossh/Computantis/src/spice"
	"github.com/bartossh/Computantis/src/transaction"
	"github.com/bartossh/Computantis/src/wallet"

	"verifharness/core"
)

// NoLog swallows the node's log lines (counting errors).
type NoLog struct{}

func (NoLog) Debug(string) {}
func (NoLog) Info(s string) {
	if os.Getenv("VERIF_NODELOG") != "" {
		fmt.Fprintln(os.Stderr, "NODELOG", s)
	}
}
func (NoLog) Warn(string)  {}
func (NoLog) Error(string) {}
func (NoLog) Fatal(string) {}

// History is the harness's own, truncation-immune copy of every vertex it created, forged or saw.
type History struct {
	mu  sync.Mutex
	V   map[H]*accountant.Vertex
	anc map[H]map[H]bool
}

func NewHistory() *History { return &History{V: map[H]*accountant.Vertex{}, anc: map[H]map[H]bool{}} }

func (h *History) Add(v *accountant.Vertex) {
	h.mu.Lock()
	defer h.mu.Unlock()
	if _, ok := h.V[v.Hash]; ok {
		return
	}
	c := *v
	h.V[v.Hash] = &c
}

func (h *History) Get(x H) (*accountant.Vertex, bool) {
	h.mu.Lock()
	defer h.mu.Unlock()
	v, ok := h.V[x]
	return v, ok
}

// Ancestors returns the proper ancestors of x over the declared parent hashes (full history).
// complete is false when some declared parent is unknown to the harness.
func (h *History) Ancestors(x H) (set map[H]bool, complete bool) {
	h.mu.Lock()
	defer h.mu.Unlock()
	return h.ancestors(x)
}

func (h *History) ancestors(x H) (map[H]bool, bool) {
	if s, ok := h.anc[x]; ok {
		return s, true
	}
	v, ok := h.V[x]
	if !ok {
		return map[H]bool{}, false
	}
	out := map[H]bool{}
	complete := true
	zero := H{}
	for _, p := range []H{v.LeftParentHash, v.RightParentHash} {
		if p == zero || out[p] {
			continue
		}
		out[p] = true
		ps, c := h.ancestors(p)
		if !c {
			complete = false
		}
		for a := range ps {
			out[a] = true
		}
	}
	if complete {
		h.anc[x] = out
	}
	return out, complete
}

// ConfEval is the C01 verdict for one vertex at the first snapshot that showed it confirmed on a node.
type ConfEval struct {
	OK     bool
	Exempt string // genesis | no-spice | trusted | incomplete-history
	In     *big.Int
	Out    *big.Int
	Amount *big.Int
	Path   string // validated | root-shortcut | loaded
	Tight  bool
	// CheckpointOverdrawn: the issuer's net flow over the checkpointed vertices is negative (it was overdrawn across
	// merged branches before a truncation, C02 known finding); the checkpoint cannot carry that debt
	CheckpointOverdrawn bool
}

// Node is one real AccountingBook with its monitor state.
type Node struct {
	Idx    int
	Name   string
	Actor  *Actor
	Book   *accountant.AccountingBook
	cancel context.CancelFunc
	Prev   *Snap
	Eval   map[H]*ConfEval
	Seen   map[H]bool // vertices ever observed confirmed on this node
	Closed bool
	Synced bool // obtained its ledger through LoadDag
	// Offer, when set, is how vertices reach this node instead of a direct AddLeaf (e.g. through a gossip handler)
	Offer func(ctx context.Context, v *accountant.Vertex) error
	// MaxDebt: per address the largest negative checkpointed net flow seen at any truncation of this node (the
	// checkpoint stores 0 instead, so the node sees the wallet richer by at most this much)
	MaxDebt map[string]*big.Int
	// Interrupted: the harness cancelled a truncation of this node half way (storage copies of live vertices exist)
	Interrupted bool
	// Tainted: addresses whose checkpointed net flow was negative at some truncation on this node
	// (cross-branch overdraw, C02 known finding); their checkpoint funds are not judged afterwards.
	Tainted map[string]bool
	// Orphans: vertices that were reported as arriving before a parent on this node. While one of them is neither
	// live nor checkpointed the background retry ticker may change the ledger at any moment.
	Orphans map[H]bool
	// Dropped: vertices that left this node's live DAG without being checkpointed (tentative tips dropped as invalid)
	Dropped []H
	// TrustCfg: the addresses the harness itself put in this node's trusted store and has not taken out again. The
	// exemption from the funds test is judged against this record, not against what the store says it holds.
	TrustCfg map[string]bool
	// Abandoned: the harness cancelled a truncation of this node after the checkpoint funds were written and before
	// the vertices were cut (they are counted twice from then on). Outside every quantifier (DESIGN 5.4): the node is
	// not judged any further.
	Abandoned bool
}

// BackgroundMayAct reports whether the retry ticker may still admit (or give up on) a parked vertex.
func (n *Node) BackgroundMayAct(s *Snap) bool {
	if len(s.Parked) > 0 {
		return true
	}
	for h := range n.Orphans {
		if _, ok := s.Vertex(h); !ok {
			return true
		}
	}
	return false
}

// Enabled oracles.
const (
	OC01 = 1 << iota
	OC03
	OC09
	OC10
	OC13
)

// World is one scenario: wallets, nodes, the reference history, the trace.
type World struct {
	R        *rand.Rand
	Res      *core.Result
	Report   map[string]bool // properties whose violations are reported by the running check
	Oracles  int
	Users    []*Actor
	Nodes    []*Node
	Sealers  []*Actor // identities that seal vertices without running a node (harness-forged vertices)
	Extra    []*Actor // wallets outside the random traffic (directed sub-scenarios)
	Keys     map[string]ed25519.PublicKey
	Hist     *History
	Genesis  accountant.Vertex
	GenIss   string
	Supply   spice.Melange
	Desc     string
	Trace    []string
	Trusted  map[string]bool // addresses that were ever put in any node's trusted store
	vcache   map[H]string
	Ctx      context.Context
	clock    time.Time
	subjectN int
	Stats    map[string]int
	// SlowVerify > 0 makes the injected signature verifier of new nodes sleep up to that long per call,
	// which widens the window between the pre-lock checks and the locked section of admission.
	SlowVerify time.Duration
	// SlowRepeat > 0: for digests marked with SlowAfterFirst the injected verifier answers the first verification at
	// once and sleeps that long on every later one (duplicates are slow, first copies and other vertices are quick)
	SlowRepeat    time.Duration
	slowVerifiers []*slowVerifier
	// TruncatedOnce is set after the first truncation of the scenario
	TruncatedOnce bool
	// TruncateAt, when set, is the Config.Truncate of new nodes (default: huge, the background truncation never triggers)
	TruncateAt uint64
	// Quiet suppresses the snapshot after every operation (long ledgers are observed at milestones).
	Quiet bool
	// OldEvery: every n-th transaction of this world is dated 8-400 days in the past (0 = none)
	OldEvery int
	// LastTruncateErr: result of the most recent TruncateChecked
	LastTruncateErr error
	// TruncLog: one line per truncation attempt of the scenario (kept whole; the trace is trimmed)
	TruncLog []string
	// NearExpiry: the moment the youngest "issued seven days ago less a few seconds" transaction leaves the seven day window
	NearExpiry time.Time
}

type slowVerifier struct {
	max    time.Duration
	repeat time.Duration
	n      atomic.Uint64
	mu     sync.Mutex
	seen   map[[32]byte]bool
}

func (s *slowVerifier) Verify(message, signature []byte, hash [32]byte, address string) error {
	k := s.n.Add(1)
	d := time.Duration(0)
	if s.max > 0 {
		d = time.Duration((k * 2654435761) % uint64(s.max+1))
	}
	if s.repeat > 0 {
		// the first verification of a marked digest is quick, every later one (a duplicate copy, or the vertex
		// validated again as a tip) takes long: duplicates reach the locked section late
		s.mu.Lock()
		if first, marked := s.seen[hash]; marked {
			if !first {
				d += s.repeat
			}
			s.seen[hash] = false
		}
		s.mu.Unlock()
	}
	if d > 0 {
		time.Sleep(d)
	}
	return wallet.NewVerifier().Verify(message, signature, hash, address)
}

// SlowAlways marks a digest: every verification of it, the first included, sleeps SlowRepeat.
func (w *World) SlowAlways(h [32]byte) {
	for _, v := range w.slowVerifiers {
		v.mu.Lock()
		v.seen[h] = false
		v.mu.Unlock()
	}
}

// SlowAfterFirst marks a digest: the injected verifier of every node created with SlowRepeat > 0 answers its first
// verification at once and sleeps SlowRepeat on every later one.
func (w *World) SlowAfterFirst(h [32]byte) {
	for _, v := range w.slowVerifiers {
		v.mu.Lock()
		v.seen[h] = true
		v.mu.Unlock()
	}
}

func NewWorld(r *rand.Rand, res *core.Result, report []string, oracles int, desc string) *World {
	w := &World{R: r, Res: res, Report: map[string]bool{}, Oracles: oracles, Keys: map[string]ed25519.PublicKey{},
		Hist: NewHistory(), Desc: desc, Trusted: map[string]bool{}, vcache: map[H]string{}, Ctx: context.Background(),
		clock: time.Now().Add(-time.Hour).Truncate(time.Microsecond), Stats: map[string]int{}}
	for _, p := range report {
		w.Report[p] = true
	}
	return w
}

func (w *World) Logf(format string, a ...any) {
	if len(w.Trace) < 4000 {
		w.Trace = append(w.Trace, fmt.Sprintf(format, a...))
	}
}

// Violate reports a violation of prop if the running check reports that property.
func (w *World) Violate(prop, sig, detail string) {
	w.Stats["viol/"+prop+"/"+sig]++
	if prop == "C01" && w.Report["C07"] && w.TruncatedOnce && (sig == "confirmed-overdraft/validated" || sig == "confirmed-overdraft/root-shortcut") {
		// C07: "later transfers are validated against the same funds as before"
		w.Violate("C07", "post-truncation/"+sig, detail)
	}
	if w.Report["C05"] && (prop == "C07" || prop == "C02") && (strings.HasPrefix(sig, "checkpoint-funds-differ") || strings.HasPrefix(sig, "balance-changed") || strings.HasPrefix(sig, "supply-") || strings.HasPrefix(sig, "reported-balance")) && !strings.HasPrefix(sig, "balance-changed/side-tip") {
		// C05: "no sequence of transfers can create or destroy value through wrap-around"
		w.Violate("C05", "value-not-conserved-in-ledger/"+sig, detail)
	}
	if w.Report["C03"] && prop == "C07" && (strings.HasPrefix(sig, "checkpointed-resubmission-accepted") || sig == "confirmed-transaction-not-retrievable") {
		// C03: "... or offered again after truncation"; "the transaction index always points at the vertex that holds it"
		w.Violate("C03", "after-truncation/"+sig, detail)
	}
	if w.Report["C05"] && prop == "C02" && (strings.HasPrefix(sig, "overdrawn/own-history") || strings.HasPrefix(sig, "overdrawn/single-chain") || strings.HasPrefix(sig, "overdrawn/overspend-probe")) {
		// C05: a wallet whose confirmed spends exceed what it received has created value
		w.Violate("C05", "value-not-conserved-in-ledger/"+sig, detail)
	}
	if !w.Report[prop] {
		// observed by an oracle of another property than the one under check: counted, not reported
		w.Res.Count("seen_by_other_oracle/"+prop+"/"+sig, 1)
		return
	}
	tr := w.Trace
	if len(tr) > 60 {
		tr = tr[len(tr)-60:]
	}
	w.Res.Violate(prop, sig, detail, map[string]any{"scenario": w.Desc, "trace_tail": append([]string{}, tr...)})
}

func (w *World) AddUser(name string) *Actor {
	a := NewActor(name)
	w.Users = append(w.Users, a)
	w.Keys[a.Addr] = a.W.Public
	return a
}

func (w *World) AddSealer(name string) *Actor {
	a := NewActor(name)
	w.Sealers = append(w.Sealers, a)
	w.Keys[a.Addr] = a.W.Public
	return a
}

func (w *World) NameOf(addr string) string {
	for _, u := range w.Users {
		if u.Addr == addr {
			return u.Name
		}
	}
	for _, n := range w.Nodes {
		if n.Actor.Addr == addr {
			return n.Name
		}
	}
	for _, s := range w.Sealers {
		if s.Addr == addr {
			return s.Name
		}
	}
	for _, s := range w.Extra {
		if s.Addr == addr {
			return s.Name
		}
	}
	if len(addr) > 8 {
		return addr[:8]
	}
	return addr
}

// newBook creates a real accounting book for the actor. Truncate is set huge so that the background
// truncation trigger never fires; truncation is driven through the hook.
func (w *World) newBook(a *Actor) (*accountant.AccountingBook, context.CancelFunc, error) {
	ctx, cancel := context.WithCancel(context.Background())
	var ver interface {
		Verify(message, signature []byte, hash [32]byte, address string) error
	} = wallet.NewVerifier()
	if w.SlowVerify > 0 || w.SlowRepeat > 0 {
		sv := &slowVerifier{max: w.SlowVerify, repeat: w.SlowRepeat, seen: map[[32]byte]bool{}}
		w.slowVerifiers = append(w.slowVerifiers, sv)
		ver = sv
	}
	trunc := uint64(1 << 50)
	if w.TruncateAt > 0 {
		trunc = w.TruncateAt
	}
	b, err := accountant.NewAccountingBook(ctx, accountant.Config{Truncate: trunc}, ver, &a.W, NoLog{})
	if err != nil {
		cancel()
		return nil, nil, err
	}
	return b, cancel, nil
}

// AddGenesisNode creates node 0 and the genesis vertex paying supply to receiver.
func (w *World) AddGenesisNode(name string, supply spice.Melange, receiver *Actor) (*Node, error) {
	a := NewActor(name)
	w.Keys[a.Addr] = a.W.Public
	b, cancel, err := w.newBook(a)
	if err != nil {
		return nil, err
	}
	n := &Node{Idx: len(w.Nodes), Name: name, Actor: a, Book: b, cancel: cancel, Eval: map[H]*ConfEval{}, Seen: map[H]bool{}, Tainted: map[string]bool{}, MaxDebt: map[string]*big.Int{}, Orphans: map[H]bool{}}
	w.Nodes = append(w.Nodes, n)
	v, err := b.CreateGenesis("GENESIS", supply, []byte{}, receiver.Addr)
	if err != nil {
		return nil, err
	}
	w.Genesis = v
	w.GenIss = a.Addr
	w.Supply = supply
	w.Hist.Add(&v)
	w.Logf("genesis on %s: %s -> %s", name, MelStr(supply), receiver.Name)
	w.Observe(n, OpInfo{Kind: "genesis", OK: true})
	return n, nil
}

// AddSyncedNode creates a node that obtains its ledger from src through the real StreamDAG + LoadDag.
func (w *World) AddSyncedNode(name string, src *Node) (*Node, error) {
	a := NewActor(name)
	w.Keys[a.Addr] = a.W.Public
	b, cancel, err := w.newBook(a)
	if err != nil {
		return nil, err
	}
	n := &Node{Idx: len(w.Nodes), Name: name, Actor: a, Book: b, cancel: cancel, Eval: map[H]*ConfEval{}, Seen: map[H]bool{}, Synced: true, Tainted: map[string]bool{}, MaxDebt: map[string]*big.Int{}, Orphans: map[H]bool{}}
	w.Nodes = append(w.Nodes, n)
	ctx, cancelCause := context.WithCancelCause(context.Background())
	ch := src.Book.StreamDAG(ctx)
	b.LoadDag(cancelCause, ch)
	cause := context.Cause(ctx)
	cancelCause(nil)
	w.Logf("node %s synced from %s (loaded=%v cause=%v)", name, src.Name, b.DagLoaded(), cause)
	if !b.DagLoaded() {
		return n, fmt.Errorf("sync failed: %v", cause)
	}
	w.Observe(n, OpInfo{Kind: "sync", OK: true})
	return n, nil
}

// AddSyncedNodeVia is AddSyncedNode with a transport between the peer's stream and the loader: relay receives every
// vertex of the real StreamDAG channel and hands it on (it may delay, it must not drop or reorder).
func (w *World) AddSyncedNodeVia(name string, src *Node, relay func(in <-chan *accountant.Vertex, out chan<- *accountant.Vertex)) (*Node, error) {
	a := NewActor(name)
	w.Keys[a.Addr] = a.W.Public
	b, cancel, err := w.newBook(a)
	if err != nil {
		return nil, err
	}
	n := &Node{Idx: len(w.Nodes), Name: name, Actor: a, Book: b, cancel: cancel, Eval: map[H]*ConfEval{}, Seen: map[H]bool{}, Synced: true, Tainted: map[string]bool{}, MaxDebt: map[string]*big.Int{}, Orphans: map[H]bool{}}
	w.Nodes = append(w.Nodes, n)
	ctx, cancelCause := context.WithCancelCause(context.Background())
	out := make(chan *accountant.Vertex)
	go func() {
		defer close(out)
		relay(src.Book.StreamDAG(ctx), out)
	}()
	b.LoadDag(cancelCause, out)
	cause := context.Cause(ctx)
	cancelCause(nil)
	w.Logf("node %s synced from %s over a relaying transport (loaded=%v cause=%v)", name, src.Name, b.DagLoaded(), cause)
	if !b.DagLoaded() {
		return n, fmt.Errorf("sync failed: %v", cause)
	}
	w.Observe(n, OpInfo{Kind: "sync", OK: true})
	return n, nil
}

// AddLoadedNode creates a node and feeds the given vertices to the real LoadDag through a channel.
// The node is registered in the world only when register is true. Returns the node, whether it reports loaded, and the cancel cause.
func (w *World) AddLoadedNode(name string, stream []*accountant.Vertex, register bool) (*Node, bool, error) {
	a := NewActor(name)
	w.Keys[a.Addr] = a.W.Public
	b, cancel, err := w.newBook(a)
	if err != nil {
		return nil, false, err
	}
	n := &Node{Idx: len(w.Nodes), Name: name, Actor: a, Book: b, cancel: cancel, Eval: map[H]*ConfEval{}, Seen: map[H]bool{}, Synced: true, Tainted: map[string]bool{}, MaxDebt: map[string]*big.Int{}, Orphans: map[H]bool{}}
	if register {
		w.Nodes = append(w.Nodes, n)
	}
	ch := make(chan *accountant.Vertex, len(stream)+1)
	for _, v := range stream {
		ch <- CloneVertex(v)
	}
	close(ch)
	ctx, cancelCause := context.WithCancelCause(context.Background())
	b.LoadDag(cancelCause, ch)
	cause := context.Cause(ctx)
	cancelCause(nil)
	return n, b.DagLoaded(), cause
}

// CloseNode releases one node.
func (w *World) CloseNode(n *Node) {
	if !n.Closed {
		n.Closed = true
		n.cancel()
		n.Book.VerifClose()
	}
}

func (w *World) Close() {
	for _, n := range w.Nodes {
		if !n.Closed {
			n.Closed = true
			n.cancel()
			n.Book.VerifClose()
		}
	}
}

// Now returns a strictly increasing timestamp in the recent past (transactions must not be in the future).
func (w *World) Now() time.Time {
	w.clock = w.clock.Add(time.Millisecond + time.Duration(w.R.Intn(1000))*time.Microsecond)
	return w.clock
}

// NewTrx builds a fresh signed transfer (unique subject).
func (w *World) NewTrx(from *Actor, to string, amount spice.Melange, data []byte) transaction.Transaction {
	w.subjectN++
	at := w.Now()
	if w.OldEvery > 0 && w.subjectN%w.OldEvery == 0 {
		// issued long ago (8 days to more than a year): the ledger puts no age limit on what it seals
		at = at.Add(-time.Duration(8+(w.subjectN*37)%400) * 24 * time.Hour)
	} else if w.OldEvery > 0 && w.subjectN%(3*w.OldEvery) == 1 {
		// issued seven days ago less a few seconds: still inside the window a receiver may counter-sign in when it is
		// sealed, outside it a moment later (NearExpiry is the latest such moment)
		at = time.Now().AddDate(0, 0, -7).Add(2500 * time.Millisecond)
		if e := at.AddDate(0, 0, 7); e.After(w.NearExpiry) {
			w.NearExpiry = e
		}
	}
	return ForgeTrx(from, to, fmt.Sprintf("t%d", w.subjectN), data, amount, at)
}

// OpInfo tells the oracles what the harness just did on a node.
type OpInfo struct {
	Kind       string // genesis sync propose deliver retry truncate concurrent trust query
	OK         bool
	Err        error
	Created    *accountant.Vertex // vertex returned by a successful propose
	Offered    *accountant.Vertex // vertex offered by deliver
	Concurrent bool
}

// Propose calls the real CreateLeaf.
func (w *World) Propose(n *Node, trx *transaction.Transaction, tag string) (accountant.Vertex, error) {
	t := *trx
	ctx, done := context.WithCancel(w.Ctx)
	v, err := n.Book.CreateLeaf(ctx, &t)
	done()
	if err == nil {
		w.Hist.Add(&v)
	}
	if w.Quiet && len(w.Trace) > 300 {
		w.Trace = append(w.Trace[:0], w.Trace[len(w.Trace)-100:]...)
	}
	w.Logf("%s.propose[%s] %s->%s %s trx=%s => %s", n.Name, tag, w.NameOf(trx.IssuerAddress), w.NameOf(trx.ReceiverAddress), MelStr(trx.Spice), Hex(trx.Hash), resStr(&v, err))
	op := OpInfo{Kind: "propose", OK: err == nil, Err: err}
	if err == nil {
		op.Created = &v
	}
	if !w.Quiet {
		w.Observe(n, op)
	}
	return v, err
}

// ProposeCancelled calls the real CreateLeaf with a context that is cancelled already (an impatient client).
func (w *World) ProposeCancelled(n *Node, trx *transaction.Transaction, tag string) (accountant.Vertex, error) {
	t := *trx
	ctx, cancel := context.WithCancel(context.Background())
	cancel()
	v, err := n.Book.CreateLeaf(ctx, &t)
	if err == nil {
		w.Hist.Add(&v)
	}
	w.Logf("%s.propose-cancelled-ctx[%s] %s->%s %s trx=%s => %s", n.Name, tag, w.NameOf(trx.IssuerAddress), w.NameOf(trx.ReceiverAddress), MelStr(trx.Spice), Hex(trx.Hash), resStr(&v, err))
	op := OpInfo{Kind: "propose", OK: err == nil, Err: err}
	if err == nil {
		op.Created = &v
	}
	if !w.Quiet {
		w.Observe(n, op)
	}
	return v, err
}

func resStr(v *accountant.Vertex, err error) string {
	if err != nil {
		return "ERR " + firstLine(err.Error())
	}
	return fmt.Sprintf("vrx=%s L=%s R=%s w=%d", Hex(v.Hash), Hex(v.LeftParentHash), Hex(v.RightParentHash), v.Weight)
}

func firstLine(s string) string {
	for i, c := range s {
		if c == '\n' {
			return s[:i]
		}
	}
	return s
}

// Deliver calls the real AddLeaf with a private copy of the vertex.
func (w *World) Deliver(n *Node, v *accountant.Vertex, tag string) error {
	c := CloneVertex(v)
	w.Hist.Add(c)
	var err error
	// as in a request handler, the context of the call ends when the call has returned
	ctx, done := context.WithCancel(w.Ctx)
	if n.Offer != nil {
		err = n.Offer(ctx, c)
	} else {
		err = n.Book.AddLeaf(ctx, c)
	}
	done()
	if IsParked(err) {
		n.Orphans[v.Hash] = true
	}
	w.Logf("%s.deliver[%s] vrx=%s (sealer %s, %s->%s %s, L=%s R=%s) => %v", n.Name, tag, Hex(v.Hash), w.NameOf(v.SignerPublicAddress),
		w.NameOf(v.Transaction.IssuerAddress), w.NameOf(v.Transaction.ReceiverAddress), MelStr(v.Transaction.Spice), Hex(v.LeftParentHash), Hex(v.RightParentHash), errStr(err))
	if !w.Quiet {
		w.Observe(n, OpInfo{Kind: "deliver", OK: err == nil, Err: err, Offered: v})
	}
	return err
}

func errStr(err error) string {
	if err == nil {
		return "ok"
	}
	return "ERR " + firstLine(err.Error())
}

// CloneVertex deep copies a vertex (the ledger keeps the pointer it is given).
func CloneVertex(v *accountant.Vertex) *accountant.Vertex {
	c := *v
	// (an absent slice stays absent, an empty one stays empty)
	dup := func(b []byte) []byte {
		if b == nil {
			return nil
		}
		return append(make([]byte, 0, len(b)), b...)
	}
	c.Signature = dup(v.Signature)
	c.Transaction.Data = dup(v.Transaction.Data)
	c.Transaction.IssuerSignature = dup(v.Transaction.IssuerSignature)
	c.Transaction.ReceiverSignature = dup(v.Transaction.ReceiverSignature)
	return &c
}

// DeliverCancelled calls the real AddLeaf with an already cancelled context.
func (w *World) DeliverCancelled(n *Node, v *accountant.Vertex, tag string) error {
	c := CloneVertex(v)
	w.Hist.Add(c)
	ctx, cancel := context.WithCancel(context.Background())
	cancel()
	err := n.Book.AddLeaf(ctx, c)
	if IsParked(err) {
		n.Orphans[v.Hash] = true
	}
	w.Logf("%s.deliver-cancelled-ctx[%s] vrx=%s (L=%s R=%s) => %v", n.Name, tag, Hex(v.Hash), Hex(v.LeftParentHash), Hex(v.RightParentHash), errStr(err))
	if !w.Quiet {
		w.Observe(n, OpInfo{Kind: "deliver", OK: err == nil, Err: err, Offered: v})
	}
	return err
}

// Retry performs one tick of the orphan retry path through the hook.
func (w *World) Retry(n *Node) (bool, error) {
	ok, err := n.Book.VerifRetryOne(w.Ctx)
	if ok {
		w.Logf("%s.retry => %v", n.Name, errStr(err))
		w.Observe(n, OpInfo{Kind: "retry", OK: err == nil, Err: err})
	}
	return ok, err
}

// Truncate runs the real truncation synchronously (in the node's scratch directory).
func (w *World) Truncate(n *Node) error {
	err := n.Book.VerifTruncate(w.Ctx)
	w.Logf("%s.truncate => %v", n.Name, errStr(err))
	w.Observe(n, OpInfo{Kind: "truncate", OK: err == nil, Err: err})
	return err
}

func (w *World) Trust(n *Node, addr string, on bool) {
	if n.TrustCfg == nil {
		n.TrustCfg = map[string]bool{}
	}
	if on {
		n.Book.AddTrustedNode(addr)
		w.Trusted[addr] = true
		n.TrustCfg[addr] = true
	} else {
		n.Book.RemoveTrustedNode(addr)
		delete(n.TrustCfg, addr)
	}
	w.Logf("%s.trust(%s)=%v", n.Name, w.NameOf(addr), on)
	w.Observe(n, OpInfo{Kind: "trust", OK: true})
}

// Concurrent runs fns from a barrier against node n and observes once afterwards.
func (w *World) Concurrent(n *Node, fns []func()) {
	var wg sync.WaitGroup
	start := make(chan struct{})
	for _, f := range fns {
		wg.Add(1)
		go func(f func()) {
			defer wg.Done()
			<-start
			f()
		}(f)
	}
	close(start)
	wg.Wait()
	w.Logf("%s.concurrent block of %d done", n.Name, len(fns))
	w.Observe(n, OpInfo{Kind: "concurrent", OK: true, Concurrent: true})
}

var ErrParked = accountant.ErrParentDoesNotExists

func IsParked(err error) bool { return errors.Is(err, accountant.ErrParentDoesNotExists) }
