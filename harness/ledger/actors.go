// Package ledger is the ledger simulator: real AccountingBook nodes driven by the harness, which plays every
// role (wallets, sealing nodes, the network), plus the snapshot oracles and the big-integer reference ledger.
package ledger

import (
	"bytes"
	"crypto/ed25519"
	"crypto/sha256"
	"encoding/binary"
	"encoding/hex"
	"time"

	"github.com/bartossh/Computantis/src/accountant"
	"github.com/bartossh/Computantis/src/spice"
	"github.com/bartossh/Computantis/src/transaction"
	"github.com/bartossh/Computantis/src/wallet"
)

type H = [32]byte

func Hex(h H) string { return hex.EncodeToString(h[:4]) }

func HexFull(h H) string { return hex.EncodeToString(h[:]) }

// Actor is a key pair the harness owns: a user wallet or the wallet of a sealing node.
type Actor struct {
	Name string
	W    wallet.Wallet
	Addr string
}

// ShortestOf: when positive, NewActor makes that many wallets and keeps the one with the shortest address (addresses
// are base58 strings of 49 to 51 characters; the short ones are rare). Set by a workload around the creation of a world.
var ShortestOf int

func NewActor(name string) *Actor {
	w, err := wallet.New()
	if err != nil {
		panic(err)
	}
	for i := 1; i < ShortestOf; i++ {
		c, err := wallet.New()
		if err == nil && len(c.Address()) < len(w.Address()) {
			w = c
		}
	}
	return &Actor{Name: name, W: w, Addr: w.Address()}
}

// TrxMessage is the harness's own rendering of the signed transaction message
// (subject | data | issuer | receiver | created_at ns LE | currency LE | supplementary LE).
func TrxMessage(t *transaction.Transaction) []byte {
	var b bytes.Buffer
	b.WriteString(t.Subject)
	b.Write(t.Data)
	b.WriteString(t.IssuerAddress)
	b.WriteString(t.ReceiverAddress)
	var u [8]byte
	binary.LittleEndian.PutUint64(u[:], uint64(t.CreatedAt.UnixNano()))
	b.Write(u[:])
	binary.LittleEndian.PutUint64(u[:], t.Spice.Currency)
	b.Write(u[:])
	binary.LittleEndian.PutUint64(u[:], t.Spice.SupplementaryCurrency)
	b.Write(u[:])
	return b.Bytes()
}

// VertexMessage is the harness's own rendering of the signed vertex message
// (transaction hash | left | right | created_at ns LE | weight LE).
func VertexMessage(v *accountant.Vertex) []byte {
	var b bytes.Buffer
	b.Write(v.Transaction.Hash[:])
	b.Write(v.LeftParentHash[:])
	b.Write(v.RightParentHash[:])
	var u [8]byte
	binary.LittleEndian.PutUint64(u[:], uint64(v.CreatedAt.UnixNano()))
	b.Write(u[:])
	binary.LittleEndian.PutUint64(u[:], v.Weight)
	b.Write(u[:])
	return b.Bytes()
}

// ForgeTrx builds a correctly hashed and issuer-signed transaction with arbitrary field values.
func ForgeTrx(issuer *Actor, receiver string, subject string, data []byte, sp spice.Melange, createdAt time.Time) transaction.Transaction {
	t := transaction.Transaction{
		CreatedAt:         createdAt,
		IssuerAddress:     issuer.Addr,
		ReceiverAddress:   receiver,
		Subject:           subject,
		Data:              data,
		ReceiverSignature: []byte{},
		Spice:             sp,
	}
	t.Hash, t.IssuerSignature = issuer.W.Sign(TrxMessage(&t))
	return t
}

// CounterSign adds the receiver's signature over the issuer-signed content.
func CounterSign(t *transaction.Transaction, receiver *Actor) {
	_, t.ReceiverSignature = receiver.W.Sign(TrxMessage(t))
}

// ForgeVertex builds a correctly hashed and sealed vertex with arbitrary field values.
func ForgeVertex(sealer *Actor, trx transaction.Transaction, left, right H, weight uint64, createdAt time.Time) accountant.Vertex {
	v := accountant.Vertex{
		SignerPublicAddress: sealer.Addr,
		CreatedAt:           createdAt,
		Transaction:         trx,
		LeftParentHash:      left,
		RightParentHash:     right,
		Weight:              weight,
	}
	v.Hash, v.Signature = sealer.W.Sign(VertexMessage(&v))
	return v
}

// verifySig is the harness's own signature check: sha256(message) == hash and ed25519 signature over the digest
// under the key the address resolves to (the address is resolved with the repository's exported helper and cross-checked).
func verifySig(message, signature []byte, hash H, address string, keys map[string]ed25519.PublicKey) bool {
	d := sha256.Sum256(message)
	if d != hash {
		return false
	}
	pk, ok := keys[address]
	if !ok {
		k, err := wallet.NewVerifier().AddressToPubKey(address)
		if err != nil || len(k) != ed25519.PublicKeySize {
			return false
		}
		pk = k
	}
	return ed25519.Verify(pk, d[:], signature)
}

// SelfAuthentic reports whether hash and all signatures of the vertex recompute from its contents (harness's own rendering).
func SelfAuthentic(v *accountant.Vertex, keys map[string]ed25519.PublicKey) (bool, string) {
	t := &v.Transaction
	msg := TrxMessage(t)
	if !verifySig(msg, t.IssuerSignature, t.Hash, t.IssuerAddress, keys) {
		return false, "issuer signature or transaction hash does not verify"
	}
	if len(t.ReceiverSignature) != 0 && !verifySig(msg, t.ReceiverSignature, t.Hash, t.ReceiverAddress, keys) {
		return false, "receiver signature does not verify"
	}
	if !verifySig(VertexMessage(v), v.Signature, v.Hash, v.SignerPublicAddress, keys) {
		return false, "vertex hash or sealing signature does not verify"
	}
	return true, ""
}

// TrxAuthentic verifies the transaction alone: hash and issuer signature, and the receiver signature when present.
func TrxAuthentic(t *transaction.Transaction) (bool, string) {
	msg := TrxMessage(t)
	if !verifySig(msg, t.IssuerSignature, t.Hash, t.IssuerAddress, nil) {
		return false, "issuer signature or transaction hash does not verify"
	}
	if len(t.ReceiverSignature) != 0 && !verifySig(msg, t.ReceiverSignature, t.Hash, t.ReceiverAddress, nil) {
		return false, "receiver signature does not verify"
	}
	return true, ""
}

// Fingerprint is a digest of every field of the vertex (used to cache verification and to compare content).
func Fingerprint(v *accountant.Vertex) H {
	h := sha256.New()
	w := func(b []byte) {
		var u [8]byte
		binary.LittleEndian.PutUint64(u[:], uint64(len(b)))
		h.Write(u[:])
		h.Write(b)
	}
	w([]byte(v.SignerPublicAddress))
	w(binary.LittleEndian.AppendUint64(nil, uint64(v.CreatedAt.UnixNano())))
	w(v.Signature)
	w(v.Hash[:])
	w(v.LeftParentHash[:])
	w(v.RightParentHash[:])
	w(binary.LittleEndian.AppendUint64(nil, v.Weight))
	t := &v.Transaction
	w(binary.LittleEndian.AppendUint64(nil, uint64(t.CreatedAt.UnixNano())))
	w([]byte(t.IssuerAddress))
	w([]byte(t.ReceiverAddress))
	w([]byte(t.Subject))
	w(t.Data)
	w(t.IssuerSignature)
	w(t.ReceiverSignature)
	w(t.Hash[:])
	w(binary.LittleEndian.AppendUint64(nil, t.Spice.Currency))
	w(binary.LittleEndian.AppendUint64(nil, t.Spice.SupplementaryCurrency))
	var out H
	copy(out[:], h.Sum(nil))
	return out
}
