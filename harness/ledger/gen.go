package ledger

import (
	"fmt"
	"math/big"
	"math/rand"

	"github.com/bartossh/Computantis/src/accountant"
	"github.com/bartossh/Computantis/src/spice"
	"github.com/bartossh/Computantis/src/transaction"
)

// Profile parameterises the random scenario driver.
type Profile struct {
	Name        string
	Nodes       int
	Users       int
	Steps       int
	SupplyClass int     // index in SupplyClasses
	Delivery    string  // lockstep | delayed | partition
	POverdraft  float64 // share of transfers that exceed the issuer's funds
	PForge      float64 // harness-sealed vertices on chosen parents
	PReplay     float64
	PRules      float64
	PTrust      float64
	PRetry      float64
	PConcurrent float64
	PBoundary   float64
	PSelf       float64 // self transfers
	PContract   float64 // data-only / data+spice transactions
}

var SupplyClasses = []spice.Melange{
	{Currency: 1000, SupplementaryCurrency: 0},
	{Currency: ^uint64(0) - 1, SupplementaryCurrency: 0},
	{Currency: ^uint64(0), SupplementaryCurrency: E18 - 1},
	{Currency: 10, SupplementaryCurrency: E18 / 2},
	{Currency: 0, SupplementaryCurrency: E18 - 1},
	{Currency: 1 << 63, SupplementaryCurrency: 1},
}

// Driver runs a random scenario on a world.
type Driver struct {
	W       *World
	P       Profile
	pending map[int][]*accountant.Vertex
	est     map[string]*big.Int // rough union balance used only to choose amounts
	grossIn map[string]*big.Int
	grossOu map[string]*big.Int
	sealed  []transaction.Transaction // transactions that were sealed somewhere (for replays)
	created []*accountant.Vertex      // vertices created by nodes or forged
	parted  bool
	Forbid  int // forbidden offers made (C10)
	// OnQuiet, when set, is called at quiescent points (no harness call in flight): every QuietEvery steps and at the end.
	OnQuiet    func(d *Driver)
	QuietEvery int
}

var big2p64 = new(big.Int).Mul(new(big.Int).Lsh(big.NewInt(1), 64), bigE18)

// Setup creates users, the genesis node and the synced nodes.
func Setup(w *World, p Profile) (*Driver, error) {
	d := &Driver{W: w, P: p, pending: map[int][]*accountant.Vertex{}, est: map[string]*big.Int{}, grossIn: map[string]*big.Int{}, grossOu: map[string]*big.Int{}}
	for i := 0; i < p.Users; i++ {
		w.AddUser(fmt.Sprintf("U%d", i))
	}
	w.AddSealer("X0")
	w.AddSealer("X1")
	supply := SupplyClasses[p.SupplyClass%len(SupplyClasses)]
	n0, err := w.AddGenesisNode("N0", supply, w.Users[0])
	if err != nil {
		return nil, err
	}
	d.est[w.Users[0].Addr] = Val(supply)
	d.grossIn[w.Users[0].Addr] = Val(supply)
	for i := 1; i < p.Nodes; i++ {
		if _, err := w.AddSyncedNode(fmt.Sprintf("N%d", i), n0); err != nil {
			return nil, err
		}
	}
	return d, nil
}

func (d *Driver) estOf(a string) *big.Int {
	if v, ok := d.est[a]; ok {
		return v
	}
	return new(big.Int)
}

func (d *Driver) gross(m map[string]*big.Int, a string) *big.Int {
	if v, ok := m[a]; ok {
		return v
	}
	return new(big.Int)
}

// noteSealed updates the estimates after a vertex was accepted somewhere for the first time.
func (d *Driver) noteSealed(v *accountant.Vertex) {
	t := v.Transaction
	d.sealed = append(d.sealed, t)
	d.created = append(d.created, v)
	if t.Spice.Currency == 0 && t.Spice.SupplementaryCurrency == 0 {
		return
	}
	a := Val(t.Spice)
	d.est[t.IssuerAddress] = new(big.Int).Sub(d.estOf(t.IssuerAddress), a)
	d.est[t.ReceiverAddress] = new(big.Int).Add(d.estOf(t.ReceiverAddress), a)
	d.grossOu[t.IssuerAddress] = new(big.Int).Add(d.gross(d.grossOu, t.IssuerAddress), a)
	d.grossIn[t.ReceiverAddress] = new(big.Int).Add(d.gross(d.grossIn, t.ReceiverAddress), a)
}

// pickAmount chooses an amount for a transfer from `from` to `to`; overdraft asks for more than the estimated funds.
func (d *Driver) pickAmount(from, to string, overdraft bool) (spice.Melange, bool) {
	r := d.W.R
	bal := d.estOf(from)
	if bal.Sign() < 0 {
		bal = new(big.Int)
	}
	var v *big.Int
	if overdraft {
		switch r.Intn(4) {
		case 0:
			v = new(big.Int).Add(bal, big.NewInt(1)) // one supplementary unit too much
		case 1:
			v = new(big.Int).Add(bal, bigE18)
		case 2:
			v = new(big.Int).Add(new(big.Int).Mul(bal, big.NewInt(2)), big.NewInt(int64(1+r.Intn(1000))))
		default:
			v = new(big.Int).Add(bal, new(big.Int).SetUint64(uint64(1+r.Intn(5))*E18/2))
		}
	} else {
		if bal.Sign() == 0 {
			return spice.Melange{}, false
		}
		boundary := r.Float64() < d.P.PBoundary
		switch {
		case boundary && r.Intn(5) == 0:
			v = new(big.Int).Set(bal) // everything
		case boundary && r.Intn(4) == 0:
			v = big.NewInt(1)
		case boundary && r.Intn(3) == 0:
			v = new(big.Int).SetUint64(E18 - 1)
		case boundary && r.Intn(2) == 0:
			// make the receiver's supplementary part land exactly on the carry boundary
			recv := d.estOf(to)
			rem := new(big.Int).Mod(recv, bigE18)
			v = new(big.Int).Sub(bigE18, rem)
		case boundary:
			v = new(big.Int).Sub(bal, big.NewInt(1))
		default:
			switch r.Intn(4) {
			case 0:
				v = new(big.Int).Div(bal, big.NewInt(2))
			case 1:
				v = new(big.Int).Div(bal, big.NewInt(int64(3+r.Intn(8))))
			case 2:
				v = new(big.Int).SetUint64(uint64(1+r.Intn(9)) * E18)
			default:
				v = new(big.Int).SetUint64(uint64(1 + r.Int63n(int64(3*E18))))
			}
		}
		if v.Sign() <= 0 {
			v = big.NewInt(1)
		}
		if v.Cmp(bal) > 0 {
			v = new(big.Int).Set(bal)
		}
	}
	if v.Cmp(MaxVal) > 0 {
		v = new(big.Int).Set(MaxVal)
	}
	// keep gross flows per wallet below 2^64 units: the accumulators of the code are 64 bit amounts (documented scope)
	if new(big.Int).Add(d.gross(d.grossIn, to), v).Cmp(MaxVal) > 0 || new(big.Int).Add(d.gross(d.grossOu, from), v).Cmp(MaxVal) > 0 {
		return spice.Melange{}, false
	}
	if v.Sign() == 0 {
		return spice.Melange{}, false
	}
	return FromVal(v), true
}

func (d *Driver) randUser() *Actor { return d.W.Users[d.W.R.Intn(len(d.W.Users))] }

func (d *Driver) fundedUser() *Actor {
	var c []*Actor
	for _, u := range d.W.Users {
		if d.estOf(u.Addr).Sign() > 0 {
			c = append(c, u)
		}
	}
	if len(c) == 0 {
		return d.W.Users[0]
	}
	return c[d.W.R.Intn(len(c))]
}

func (d *Driver) randNode() *Node { return d.W.Nodes[d.W.R.Intn(len(d.W.Nodes))] }

// makeTransfer builds a signed transfer; ok=false when no sensible transfer exists.
func (d *Driver) makeTransfer(overdraft bool) (transaction.Transaction, bool) {
	r := d.W.R
	from := d.fundedUser()
	if overdraft && r.Intn(3) == 0 {
		from = d.randUser()
	}
	to := d.randUser()
	if r.Float64() < d.P.PSelf {
		to = from
	} else if to == from {
		to = d.W.Users[(r.Intn(len(d.W.Users)-1)+1+indexOf(d.W.Users, from))%len(d.W.Users)]
	}
	amt, ok := d.pickAmount(from.Addr, to.Addr, overdraft)
	if !ok {
		return transaction.Transaction{}, false
	}
	var data []byte
	if r.Float64() < d.P.PContract {
		data = make([]byte, 1+r.Intn(40))
		r.Read(data)
		if r.Intn(2) == 0 {
			amt = spice.Melange{}
		}
	}
	t := d.W.NewTrx(from, to.Addr, amt, data)
	if len(data) > 0 && r.Intn(2) == 0 {
		CounterSign(&t, to)
	}
	return t, true
}

func indexOf(us []*Actor, a *Actor) int {
	for i, u := range us {
		if u == a {
			return i
		}
	}
	return 0
}

func (d *Driver) enqueue(from *Node, v *accountant.Vertex) {
	for _, n := range d.W.Nodes {
		if from != nil && n.Idx == from.Idx {
			continue
		}
		d.pending[n.Idx] = append(d.pending[n.Idx], v)
	}
}

func (d *Driver) flush(n *Node) {
	for len(d.pending[n.Idx]) > 0 {
		v := d.pending[n.Idx][0]
		d.pending[n.Idx] = d.pending[n.Idx][1:]
		d.W.Deliver(n, v, "flush")
	}
}

func (d *Driver) flushAll() {
	for _, n := range d.W.Nodes {
		d.flush(n)
	}
}

func (d *Driver) deliverOne() bool {
	r := d.W.R
	var cands []*Node
	for _, n := range d.W.Nodes {
		if len(d.pending[n.Idx]) > 0 && !(d.parted && n.Idx%2 == 1) {
			cands = append(cands, n)
		}
	}
	if len(cands) == 0 {
		return false
	}
	n := cands[r.Intn(len(cands))]
	q := d.pending[n.Idx]
	i := 0
	switch r.Intn(4) {
	case 0:
		i = r.Intn(len(q))
	case 1:
		i = len(q) - 1
	}
	v := q[i]
	d.pending[n.Idx] = append(append([]*accountant.Vertex{}, q[:i]...), q[i+1:]...)
	d.W.Deliver(n, v, "net")
	if r.Intn(12) == 0 {
		d.W.Deliver(n, v, "dup")
	}
	return true
}

// proposeOn proposes trx on node n and routes the created vertex.
func (d *Driver) proposeOn(n *Node, t *transaction.Transaction, tag string) (accountant.Vertex, error) {
	v, err := d.W.Propose(n, t, tag)
	if err == nil {
		d.noteSealed(&v)
		d.enqueue(n, &v)
		if d.P.Delivery == "lockstep" {
			d.flushAll()
		}
	}
	return v, err
}

func (d *Driver) stepTransfer(overdraft bool) {
	t, ok := d.makeTransfer(overdraft)
	if !ok {
		return
	}
	n := d.randNode()
	tag := "valid"
	if overdraft {
		tag = "overdraft"
	}
	d.proposeOn(n, &t, tag)
	d.W.Res.Count("ops_propose_"+tag, 1)
}

// pickParents chooses parent hashes on node n for a forged vertex.
func (d *Driver) pickParents(n *Node) (H, H, uint64, bool) {
	r := d.W.R
	s := n.Prev
	if s == nil || len(s.Live) == 0 {
		return H{}, H{}, 0, false
	}
	var tips, inner []H
	for h := range s.Live {
		if s.Leaves[h] {
			tips = append(tips, h)
		} else {
			inner = append(inner, h)
		}
	}
	sortH(tips)
	sortH(inner)
	pick := func(stale bool) H {
		if stale && len(inner) > 0 {
			return inner[r.Intn(len(inner))]
		}
		return tips[r.Intn(len(tips))]
	}
	var l, rr H
	switch r.Intn(5) {
	case 0: // equal parents
		l = pick(r.Intn(3) == 0)
		rr = l
	case 1: // stale parents
		l, rr = pick(true), pick(true)
	case 2:
		l, rr = pick(false), pick(true)
	default:
		l, rr = pick(false), pick(false)
	}
	lw, _ := weightOf(s, l)
	rw, _ := weightOf(s, rr)
	wgt := lw
	if rw > wgt {
		wgt = rw
	}
	return l, rr, wgt + 1, true
}

func sortH(hs []H) {
	for i := 1; i < len(hs); i++ {
		for j := i; j > 0 && string(hs[j][:]) < string(hs[j-1][:]); j-- {
			hs[j], hs[j-1] = hs[j-1], hs[j]
		}
	}
}

// stepForge delivers a harness-sealed vertex (honest looking or overdrawing) on chosen parents.
func (d *Driver) stepForge() {
	r := d.W.R
	n := d.randNode()
	l, rr, wgt, ok := d.pickParents(n)
	if !ok {
		return
	}
	overdraft := r.Float64() < 0.5
	t, ok := d.makeTransfer(overdraft)
	if !ok {
		return
	}
	var sealer *Actor
	if r.Intn(3) == 0 && len(d.W.Nodes) > 1 {
		sealer = d.W.Nodes[(n.Idx+1+r.Intn(len(d.W.Nodes)-1))%len(d.W.Nodes)].Actor
	} else {
		sealer = d.W.Sealers[r.Intn(len(d.W.Sealers))]
	}
	if sealer.Addr == t.IssuerAddress {
		return
	}
	wgt += uint64(r.Intn(3))
	v := ForgeVertex(sealer, t, l, rr, wgt, d.W.Now())
	var err error
	if r.Intn(10) == 0 {
		err = d.W.DeliverCancelled(n, &v, fmt.Sprintf("forged/overdraft=%v", overdraft))
		d.W.Res.Count("ops_cancelled_ctx_delivered", 1)
	} else {
		err = d.W.Deliver(n, &v, fmt.Sprintf("forged/overdraft=%v", overdraft))
	}
	d.W.Res.Count("ops_forged_delivered", 1)
	if err == nil {
		d.noteSealed(&v)
		d.enqueue(n, &v)
		if d.P.Delivery == "lockstep" {
			d.flushAll()
		}
	}
}

// stepReplay offers something that already exists again.
func (d *Driver) stepReplay() {
	r := d.W.R
	if len(d.created) == 0 {
		return
	}
	n := d.randNode()
	v := d.created[r.Intn(len(d.created))]
	d.W.Res.Count("ops_replay", 1)
	kind := r.Intn(3)
	d.W.NontrivFor("C03", fmt.Sprintf("replay/kind%d/nodes%d/stored%v", kind, len(d.W.Nodes), n.Prev != nil && len(n.Prev.Stored) > 0))
	switch kind {
	case 0: // the same vertex again
		d.W.Deliver(n, v, "replay-vertex")
	case 1: // the same transaction proposed again
		t := v.Transaction
		nv, err := d.W.Propose(n, &t, "replay-trx")
		if err == nil {
			d.noteSealed(&nv)
			d.enqueue(n, &nv)
		}
	default: // the same transaction wrapped by another sealer
		l, rr, wgt, ok := d.pickParents(n)
		if !ok {
			return
		}
		sealer := d.W.Sealers[r.Intn(len(d.W.Sealers))]
		if sealer.Addr == v.Transaction.IssuerAddress {
			return
		}
		nv := ForgeVertex(sealer, v.Transaction, l, rr, wgt, d.W.Now())
		if err := d.W.Deliver(n, &nv, "replay-rewrapped"); err == nil {
			d.noteSealed(&nv)
			d.enqueue(n, &nv)
		}
	}
}

// stepRules makes one offer that the sealing rules forbid and checks that it is refused and leaves no trace.
// emptyData: "no data" comes in two spellings, an absent slice and an empty one (every second forbidden offer).
func (d *Driver) emptyData() []byte {
	if d.Forbid%2 == 0 {
		return []byte{}
	}
	return nil
}

func (d *Driver) stepRules() {
	w := d.W
	r := w.R
	n := d.randNode()
	d.Forbid++
	w.Res.Count("ops_forbidden_offer", 1)
	genActor := w.Nodes[0].Actor
	amt := spice.Melange{Currency: uint64(1 + r.Intn(3))}
	// the rules hold for every payload: spice only, data only (a contract), data and spice
	var data []byte
	switch r.Intn(3) {
	case 1:
		data, amt = []byte("contract under a forbidden issuer"), spice.Melange{}
	case 2:
		data = []byte("contract with spice under a forbidden issuer")
	}
	to := d.randUser()
	var rule, entry string
	var offered *accountant.Vertex
	var trxHash H
	var err error
	kind := r.Intn(4)
	viaGossip := r.Intn(2) == 0
	switch kind {
	case 0: // issuer is the sealing node's own wallet
		rule = "self-sealed"
		var t transaction.Transaction
		if viaGossip {
			sealer := w.Sealers[r.Intn(len(w.Sealers))]
			if r.Intn(2) == 0 && len(w.Nodes) > 1 {
				sealer = w.Nodes[(n.Idx+1)%len(w.Nodes)].Actor // a wallet that is itself a node
			}
			t = w.NewTrx(sealer, to.Addr, amt, data)
			l, rr, wgt, ok := d.pickParents(n)
			if !ok {
				return
			}
			v := ForgeVertex(sealer, t, l, rr, wgt, w.Now())
			offered = &v
		} else {
			t = w.NewTrx(n.Actor, to.Addr, amt, data)
		}
		trxHash = t.Hash
		if offered == nil {
			entry = "propose"
			_, err = w.Propose(n, &t, "rules/"+rule)
		}
	case 1: // issuer is the genesis wallet
		rule = "genesis-wallet-spends"
		t := w.NewTrx(genActor, to.Addr, amt, data)
		trxHash = t.Hash
		if viaGossip {
			l, rr, wgt, ok := d.pickParents(n)
			if !ok {
				return
			}
			v := ForgeVertex(w.Sealers[0], t, l, rr, wgt, w.Now())
			offered = &v
		} else {
			entry = "propose"
			_, err = w.Propose(n, &t, "rules/"+rule)
		}
	case 2: // neither data nor spice
		rule = "empty-transaction"
		t := w.NewTrx(d.randUser(), to.Addr, spice.Melange{}, d.emptyData())
		trxHash = t.Hash
		if viaGossip {
			l, rr, wgt, ok := d.pickParents(n)
			if !ok {
				return
			}
			v := ForgeVertex(w.Sealers[1], t, l, rr, wgt, w.Now())
			offered = &v
		} else {
			entry = "propose"
			_, err = w.Propose(n, &t, "rules/"+rule)
		}
	default: // forbidden vertex that arrives before its parent (orphan path), then the parent, then retries
		rule = "self-sealed"
		entry = "orphan-replay"
		sealer := w.Sealers[r.Intn(len(w.Sealers))]
		if kind2 := r.Intn(3); kind2 == 1 {
			rule = "empty-transaction"
		} else if kind2 == 2 {
			rule = "genesis-wallet-spends"
		}
		var t transaction.Transaction
		switch rule {
		case "self-sealed":
			t = w.NewTrx(sealer, to.Addr, amt, data)
		case "empty-transaction":
			t = w.NewTrx(d.randUser(), to.Addr, spice.Melange{}, d.emptyData())
		default:
			t = w.NewTrx(genActor, to.Addr, amt, data)
		}
		trxHash = t.Hash
		// an honest parent the node does not know yet
		l, rr, wgt, ok := d.pickParents(n)
		if !ok {
			return
		}
		pt := w.NewTrx(d.fundedUser(), to.Addr, spice.Melange{SupplementaryCurrency: 1}, nil)
		if pt.IssuerAddress == to.Addr {
			return
		}
		parent := ForgeVertex(w.Sealers[(indexOf(w.Sealers, sealer)+1)%len(w.Sealers)], pt, l, rr, wgt, w.Now())
		child := ForgeVertex(sealer, t, parent.Hash, parent.Hash, wgt+1, w.Now())
		err = w.Deliver(n, &child, "rules/"+rule+"/child-first")
		perr := w.Deliver(n, &parent, "rules/parent")
		if perr == nil {
			d.noteSealed(&parent)
			d.enqueue(n, &parent)
		}
		for i := 0; i < 3; i++ {
			w.Retry(n)
		}
		if err == nil {
			w.Violate("C10", "accepted/"+rule+"/"+entry, fmt.Sprintf("node %s accepted a forbidden vertex (%s) delivered before its parent", n.Name, rule))
		}
		d.checkAbsent(n, rule, entry, child.Hash, trxHash)
		w.NontrivFor("C10", "forbidden/"+rule+"/"+entry)
		w.EvalFor("C10", 1)
		return
	}
	if offered != nil {
		entry = "gossip"
		err = w.Deliver(n, offered, "rules/"+rule)
	}
	if err == nil {
		w.Violate("C10", "accepted/"+rule+"/"+entry, fmt.Sprintf("node %s accepted a forbidden offer (%s through %s)", n.Name, rule, entry))
	}
	var vh H
	if offered != nil {
		vh = offered.Hash
	}
	d.checkAbsent(n, rule, entry, vh, trxHash)
	w.NontrivFor("C10", fmt.Sprintf("forbidden/%s/%s/node%d", rule, entry, min(n.Idx, 1)))
	w.EvalFor("C10", 1)
}

// checkAbsent asserts that neither the vertex nor the transaction of a forbidden offer is anywhere in the node's state.
func (d *Driver) checkAbsent(n *Node, rule, entry string, vh, th H) {
	w := d.W
	s := n.Prev
	zero := H{}
	if vh != zero {
		if _, ok := s.Vertex(vh); ok {
			w.Violate("C10", "present/"+rule+"/"+entry, fmt.Sprintf("node %s holds forbidden vertex %s (%s through %s)", n.Name, Hex(vh), rule, entry))
		}
		for _, p := range s.Parked {
			if p.Vertex.Hash == vh {
				w.Violate("C10", "parked/"+rule+"/"+entry, fmt.Sprintf("node %s parked forbidden vertex %s (%s through %s) for replay", n.Name, Hex(vh), rule, entry))
			}
		}
	}
	if _, ok := s.Index[th]; ok {
		w.Violate("C10", "indexed/"+rule+"/"+entry, fmt.Sprintf("node %s indexed the transaction of a forbidden offer (%s through %s)", n.Name, rule, entry))
	}
}

// stepTrustFlip: a trusted sealer's overdraft is confirmed under the exemption, the trust is withdrawn,
// and then a vertex forks on to that (now interior) vertex.
func (d *Driver) stepTrustFlip() {
	w := d.W
	n := d.randNode()
	x := w.Sealers[0]
	y := w.Sealers[1]
	w.Trust(n, x.Addr, true)
	l, rr, wgt, ok := d.pickParents(n)
	if !ok {
		return
	}
	t, ok := d.makeTransfer(true)
	if !ok || t.IssuerAddress == x.Addr {
		return
	}
	v := ForgeVertex(x, t, l, rr, wgt, w.Now())
	if err := w.Deliver(n, &v, "trustflip/trusted-overdraft"); err != nil {
		return
	}
	d.noteSealed(&v)
	d.enqueue(n, &v)
	c := w.NewTrx(w.Users[0], w.Users[1].Addr, spice.Melange{}, []byte("confirm"))
	if _, err := d.proposeOn(n, &c, "trustflip/confirm"); err != nil {
		return
	}
	w.Trust(n, x.Addr, false)
	ft := w.NewTrx(w.Users[0], w.Users[1].Addr, spice.Melange{}, []byte("fork"))
	fv := ForgeVertex(y, ft, v.Hash, v.Hash, wgt+1, w.Now())
	if err := w.Deliver(n, &fv, "trustflip/fork-on-interior"); err == nil {
		d.noteSealed(&fv)
		d.enqueue(n, &fv)
	}
	// the sealer is not trusted any more: its next overdrawing vertex is an ordinary tentative tip that must fail the
	// funds test when the node builds on it
	if l2, r2, w2, ok := d.pickParents(n); ok {
		if t2, ok := d.makeTransfer(true); ok && t2.IssuerAddress != x.Addr {
			v2 := ForgeVertex(x, t2, l2, r2, w2, w.Now())
			if err := w.Deliver(n, &v2, "trustflip/overdraft-by-the-formerly-trusted-sealer"); err == nil {
				d.noteSealed(&v2)
				d.enqueue(n, &v2)
				c2 := w.NewTrx(w.Users[0], w.Users[1].Addr, spice.Melange{}, []byte("confirm"))
				d.proposeOn(n, &c2, "trustflip/confirm-after-withdrawal")
			}
		}
	}
	w.Res.Count("ops_trust_flip", 1)
}

// stepTamperedOrphan: a vertex that does not authenticate (or a forbidden one) reaches the node before its parent, then
// the parent arrives and the orphan buffer is stepped: nothing but the honest parent may end up in the ledger.
func (d *Driver) stepTamperedOrphan() {
	w := d.W
	r := w.R
	n := d.randNode()
	l, rr, wgt, ok := d.pickParents(n)
	if !ok {
		return
	}
	from := d.fundedUser()
	to := d.randUser()
	if from == to {
		return
	}
	pt := w.NewTrx(from, to.Addr, spice.Melange{SupplementaryCurrency: uint64(1 + r.Intn(9))}, nil)
	parent := ForgeVertex(w.Sealers[0], pt, l, rr, wgt, w.Now())
	ct := w.NewTrx(from, to.Addr, spice.Melange{SupplementaryCurrency: uint64(1 + r.Intn(9))}, nil)
	child := ForgeVertex(w.Sealers[1], ct, parent.Hash, parent.Hash, wgt+1, w.Now())
	bad := *CloneVertex(&child)
	kind := r.Intn(5)
	switch kind {
	case 0:
		bad.Signature[r.Intn(len(bad.Signature))] ^= 1 << uint(r.Intn(8))
	case 1:
		bad.Transaction.Spice.Currency += 1 << 30
	case 2:
		bad.Hash[r.Intn(32)] ^= 0x20
	case 3:
		bad.Transaction.IssuerSignature[r.Intn(len(bad.Transaction.IssuerSignature))] ^= 1
	default:
		bad.Transaction.ReceiverAddress = w.Sealers[0].Addr
	}
	err := w.Deliver(n, &bad, fmt.Sprintf("tampered-orphan/kind%d (child first)", kind))
	if err == nil {
		w.Violate("C04", "accepted/tampered-orphan", fmt.Sprintf("node %s accepted a tampered vertex (kind %d) whose parent it did not know yet", n.Name, kind))
	}
	if perr := w.Deliver(n, &parent, "tampered-orphan/parent"); perr == nil {
		d.noteSealed(&parent)
		d.enqueue(n, &parent)
	}
	for i := 0; i < 4; i++ {
		w.Retry(n)
	}
	w.Res.Count("ops_tampered_orphan", 1)
	s := n.Prev
	fp := Fingerprint(&bad)
	if lv, ok := s.Live[bad.Hash]; ok && Fingerprint(&lv.V) == fp {
		w.Violate("C04", "admitted/tampered-orphan-through-retry", fmt.Sprintf("node %s holds a tampered vertex (kind %d) that arrived before its parent and was replayed from the orphan buffer", n.Name, kind))
	}
	for _, pk := range s.Parked {
		if Fingerprint(&pk.Vertex) == fp {
			w.Violate("C04", "parked/tampered-orphan", fmt.Sprintf("node %s parked a tampered vertex (kind %d) for replay", n.Name, kind))
		}
	}
}

// stepProposeCancelled: two tentative tips wait on the node - an overdrawing transfer sealed by an outsider and a
// contract (which needs no funds walk) - and a client proposes under a context that is cancelled already. Whatever the
// node answers, it must not seal a vertex on a tip it did not validate.
func (d *Driver) stepProposeCancelled() {
	w := d.W
	n := d.randNode()
	l, rr, wgt, ok := d.pickParents(n)
	if !ok {
		return
	}
	if t, ok := d.makeTransfer(true); ok && t.IssuerAddress != w.Sealers[0].Addr {
		v := ForgeVertex(w.Sealers[0], t, l, rr, wgt, w.Now())
		if w.Deliver(n, &v, "cancelled-proposal/overdrawing tip") == nil {
			d.noteSealed(&v)
			d.enqueue(n, &v)
		}
	}
	ct := w.NewTrx(w.Users[0], w.Users[1].Addr, spice.Melange{}, []byte("contract tip"))
	cv := ForgeVertex(w.Sealers[1], ct, l, rr, wgt, w.Now())
	if w.Deliver(n, &cv, "cancelled-proposal/contract tip") == nil {
		d.noteSealed(&cv)
		d.enqueue(n, &cv)
	}
	pt := w.NewTrx(w.Users[0], w.Users[1].Addr, spice.Melange{}, []byte("proposed by an impatient client"))
	if v, err := w.ProposeCancelled(n, &pt, "two tentative tips waiting"); err == nil {
		d.noteSealed(&v)
		d.enqueue(n, &v)
	}
	w.Res.Count("ops_propose_cancelled", 1)
}

func (d *Driver) stepTrust() {
	r := d.W.R
	n := d.randNode()
	cands := []*Actor{}
	cands = append(cands, d.W.Sealers...)
	for _, m := range d.W.Nodes {
		if m != n {
			cands = append(cands, m.Actor)
		}
	}
	// wallets that never seal can be put in the trusted store as well: the exemption must stay limited to sealers
	if r.Intn(3) == 0 {
		cands = append(cands, d.W.Users[1:]...)
	}
	a := cands[r.Intn(len(cands))]
	d.W.Trust(n, a.Addr, r.Intn(3) != 0)
}

// stepConcurrent releases k proposals (valid, overdrawing and duplicates) from a barrier on one node.
func (d *Driver) stepConcurrent() {
	w := d.W
	r := w.R
	n := d.randNode()
	k := 2 + r.Intn(7)
	type res struct {
		t   transaction.Transaction
		v   accountant.Vertex
		err error
	}
	out := make([]res, k)
	var fns []func()
	var base []transaction.Transaction
	for i := 0; i < k; i++ {
		var t transaction.Transaction
		if len(base) > 0 && r.Intn(4) == 0 {
			t = base[r.Intn(len(base))] // the same transaction twice
		} else {
			var ok bool
			t, ok = d.makeTransfer(r.Float64() < d.P.POverdraft)
			if !ok {
				continue
			}
		}
		base = append(base, t)
		i := i
		out[i].t = t
		fns = append(fns, func() {
			tt := out[i].t
			out[i].v, out[i].err = n.Book.CreateLeaf(w.Ctx, &tt)
			if out[i].err == nil {
				w.Hist.Add(&out[i].v)
			}
		})
	}
	if len(fns) == 0 {
		return
	}
	w.Concurrent(n, fns)
	w.Res.Count("ops_concurrent_blocks", 1)
	w.NontrivFor("C03", fmt.Sprintf("concurrent/k%d", len(fns)))
	okByTrx := map[H]int{}
	for i := range out {
		if out[i].t.Hash == (H{}) {
			continue
		}
		w.Logf("  concurrent propose %s->%s %s trx=%s => %s", w.NameOf(out[i].t.IssuerAddress), w.NameOf(out[i].t.ReceiverAddress), MelStr(out[i].t.Spice), Hex(out[i].t.Hash), resStr(&out[i].v, out[i].err))
		if out[i].err == nil {
			okByTrx[out[i].t.Hash]++
			v := out[i].v
			d.noteSealed(&v)
			d.enqueue(n, &v)
		}
	}
	// Note: several concurrent proposals of one transaction may legitimately all succeed when the earlier tentative
	// vertex is dropped as invalid by the later call; uniqueness is judged on the snapshot (checkUnique), not here.
	_ = okByTrx
	if d.P.Delivery == "lockstep" {
		d.flushAll()
	}
}

// Run0 only heals the world: delivers everything, steps the orphan buffer and merges the tips.
func (d *Driver) Run0() {
	steps := d.P.Steps
	d.P.Steps = 0
	d.runBody(false)
	d.P.Steps = steps
}

// Run executes the random program.
func (d *Driver) Run() { d.runBody(true) }

func (d *Driver) runBody(fund bool) {
	r := d.W.R
	p := d.P
	// initial funding so that several wallets hold funds
	for i := 1; fund && i < len(d.W.Users) && i < 4; i++ {
		amt, ok := d.pickAmount(d.W.Users[0].Addr, d.W.Users[i].Addr, false)
		if !ok {
			continue
		}
		t := d.W.NewTrx(d.W.Users[0], d.W.Users[i].Addr, amt, nil)
		d.proposeOn(d.W.Nodes[0], &t, "fund")
		d.flushAll()
	}
	for s := 0; s < p.Steps; s++ {
		x := r.Float64()
		switch {
		case x < p.PForge:
			d.stepForge()
		case x < p.PForge+p.PReplay:
			d.stepReplay()
		case x < p.PForge+p.PReplay+p.PRules:
			if r.Intn(4) == 0 {
				d.stepTamperedOrphan()
			} else {
				d.stepRules()
			}
		case x < p.PForge+p.PReplay+p.PRules+p.PTrust:
			if r.Intn(3) == 0 {
				d.stepTrustFlip()
			} else {
				d.stepTrust()
			}
		case x < p.PForge+p.PReplay+p.PRules+p.PTrust+p.PRetry:
			if r.Intn(3) == 0 {
				d.stepProposeCancelled()
			} else {
				d.W.Retry(d.randNode())
			}
		case x < p.PForge+p.PReplay+p.PRules+p.PTrust+p.PRetry+p.PConcurrent:
			d.stepConcurrent()
		default:
			d.stepTransfer(r.Float64() < p.POverdraft)
		}
		if d.OnQuiet != nil && d.QuietEvery > 0 && s%d.QuietEvery == d.QuietEvery-1 {
			d.OnQuiet(d)
		}
		switch p.Delivery {
		case "delayed":
			for r.Intn(3) != 0 {
				if !d.deliverOne() {
					break
				}
			}
		case "partition":
			if s == p.Steps/3 {
				d.parted = true
				d.W.Logf("-- partition: odd nodes stop receiving")
			}
			if s == 2*p.Steps/3 {
				d.parted = false
				d.W.Logf("-- partition healed")
			}
			for r.Intn(2) != 0 {
				if !d.deliverOne() {
					break
				}
			}
		}
	}
	// heal: deliver everything, step the orphan buffer, then let every node build on what it has
	d.parted = false
	d.flushAll()
	for _, n := range d.W.Nodes {
		for i := 0; i < 30; i++ {
			if ok, _ := d.W.Retry(n); !ok {
				break
			}
		}
	}
	for round := 0; round < 2; round++ {
		for _, n := range d.W.Nodes {
			t := d.W.NewTrx(d.W.Users[0], d.W.Users[1].Addr, spice.Melange{}, []byte("merge"))
			d.proposeOn(n, &t, "merge")
		}
		d.flushAll()
	}
	if d.OnQuiet != nil {
		d.OnQuiet(d)
	}
}

// RandomProfile draws a scenario profile.
func RandomProfile(r *rand.Rand, thorough bool) Profile {
	p := Profile{
		Nodes:       1 + r.Intn(3),
		Users:       3 + r.Intn(3),
		Steps:       10 + r.Intn(30),
		SupplyClass: r.Intn(len(SupplyClasses)),
		Delivery:    []string{"lockstep", "delayed", "partition"}[r.Intn(3)],
		POverdraft:  0.25,
		PForge:      0.12,
		PReplay:     0.08,
		PRules:      0.05,
		PRetry:      0.05,
		PConcurrent: 0.05,
		PBoundary:   0.4,
		PSelf:       0.08,
		PContract:   0.1,
	}
	if thorough && r.Intn(3) == 0 {
		p.Nodes = 2 + r.Intn(4)
		p.Steps = 30 + r.Intn(40)
	}
	if r.Intn(4) == 0 {
		p.PTrust = 0.05
	}
	if p.Nodes == 1 {
		p.Delivery = "lockstep"
	}
	p.Name = fmt.Sprintf("random/n%d/u%d/s%d/supply%d/%s/trust=%v", p.Nodes, p.Users, p.Steps, p.SupplyClass, p.Delivery, p.PTrust > 0)
	return p
}
