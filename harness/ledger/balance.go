package ledger

import (
	"fmt"
	"github.com/bartossh/Computantis/src/spice"
	"math/big"
	"sort"

	"github.com/bartossh/Computantis/src/accountant"
)

// liveAncestors returns {t} and the ancestors of t over declared parent links restricted to the live vertices.
func liveAncestors(s *Snap, t H) map[H]bool {
	out := map[H]bool{t: true}
	stack := []H{t}
	for len(stack) > 0 {
		x := stack[len(stack)-1]
		stack = stack[:len(stack)-1]
		l, ok := s.Live[x]
		if !ok {
			continue
		}
		for _, p := range distinctParents(&l.V) {
			if _, live := s.Live[p]; live && !out[p] {
				out[p] = true
				stack = append(stack, p)
			}
		}
	}
	return out
}

// TipSums computes for every tip the reference sum checkpoint(addr) + inflow - outflow over the tip and its live ancestors.
type TipSum struct {
	Tip   H
	In    *big.Int // including the checkpointed funds
	Out   *big.Int
	Sum   *big.Int
	Valid bool // representable and non negative
}

func RefTipSums(s *Snap, addr string) []TipSum {
	var tips []H
	for t := range s.Leaves {
		tips = append(tips, t)
	}
	sortH(tips)
	var out []TipSum
	for _, t := range tips {
		set := liveAncestors(s, t)
		in, o := Flows(addr, func(yield func(*accountant.Vertex)) {
			for h := range set {
				yield(&s.Live[h].V)
			}
		})
		if f, ok := s.Funds[addr]; ok {
			in = new(big.Int).Add(in, Val(f))
		}
		sum := new(big.Int).Sub(in, o)
		out = append(out, TipSum{Tip: t, In: in, Out: o, Sum: sum, Valid: sum.Sign() >= 0 && in.Cmp(MaxVal) <= 0})
	}
	return out
}

// CheckBalances is the C06 oracle on node n for the given addresses.
func (w *World) CheckBalances(n *Node, addrs []string) {
	if n.Abandoned {
		return
	}
	before, err := TakeSnap(n.Book)
	if err != nil {
		w.Res.Inconc("snapshot failed: " + err.Error())
		return
	}
	if len(before.Leaves) == 0 {
		return
	}
	// answers are judged against the snapshot taken before them; the node's retry ticker may admit a parked vertex in
	// between (a new tip, another walk), so the verdicts are held back until the ledger is known not to have moved
	type pend struct{ sig, detail string }
	var pending []pend
	viol := func(sig, detail string) { pending = append(pending, pend{sig, detail}) }
	for _, a := range addrs {
		sums := RefTipSums(before, a)
		valid := map[string]bool{}
		anyInvalid := false
		for _, ts := range sums {
			if ts.Valid {
				valid[ts.Sum.String()] = true
			} else {
				anyInvalid = true
			}
		}
		seen := map[string]bool{}
		sawErr := false
		tries := 8 * len(sums)
		if len(sums) == 1 {
			tries = 2
		}
		for i := 0; i < tries; i++ {
			b, err := n.Book.CalculateBalance(w.Ctx, a)
			w.EvalFor("C06", 1)
			w.Res.Count("c06_balance_queries", 1)
			if err != nil {
				sawErr = true
				if !anyInvalid {
					viol("error-for-valid-balance", fmt.Sprintf("node %s: balance query for %s returned error %q although every tip's reference sum is a representable non-negative number (%s)", n.Name, w.NameOf(a), firstLine(err.Error()), describeSums(sums)))
				}
			} else {
				if b.WalletPublicAddress != a {
					viol("wrong-address-in-answer", fmt.Sprintf("node %s: balance answer for %s names address %s", n.Name, w.NameOf(a), b.WalletPublicAddress))
				}
				got := Val(b.Spice)
				if b.Spice.SupplementaryCurrency >= E18 {
					viol("non-canonical-balance", fmt.Sprintf("node %s: balance for %s is %s", n.Name, w.NameOf(a), MelStr(b.Spice)))
				}
				if !valid[got.String()] {
					viol("balance-not-a-tip-sum", fmt.Sprintf("node %s: balance query for %s returned %s; reference sums per tip: %s", n.Name, w.NameOf(a), MelStr(b.Spice), describeSums(sums)))
				}
				seen[got.String()] = true
			}
			if len(seen) == len(valid) && (sawErr || !anyInvalid) {
				break
			}
		}
		// with a single tip the answer is also the wallet's exact balance over ALL confirmed vertices: recomputed from the
		// live and the checkpointed vertices themselves (not from the stored funds)
		if len(sums) == 1 && a != w.GenIss && len(before.Stored) > 0 && !n.Tainted[a] {
			fin, fout := Flows(a, func(yield func(*accountant.Vertex)) {
				for _, l := range before.Live {
					yield(&l.V)
				}
				for _, sv := range before.Stored {
					yield(sv)
				}
			})
			sin, sout := Flows(a, func(yield func(*accountant.Vertex)) {
				for _, sv := range before.Stored {
					yield(sv)
				}
			})
			full := new(big.Int).Sub(fin, fout)
			if sin.Cmp(sout) >= 0 && sums[0].Valid && full.Cmp(sums[0].Sum) != 0 {
				w.Violate("C06", "single-tip-balance-differs-from-all-confirmed-vertices", fmt.Sprintf("node %s: the single-tip balance of %s is %s (checkpoint funds + live flows), the exact balance over all live and checkpointed vertices is %s", n.Name, w.NameOf(a), sums[0].Sum, full))
			}
			w.Res.Count("c06_full_reference_comparisons", 1)
		}
		key := fmt.Sprintf("tips%d/distinct%d/invalid=%v/funds=%v", bucket(len(sums)), len(valid), anyInvalid, hasFunds(before, a))
		if len(sums) > 1 || anyInvalid || hasFunds(before, a) || appearsAsBoth(before, a) {
			w.NontrivFor("C06", key+fmt.Sprintf("/both=%v", appearsAsBoth(before, a)))
		}
	}
	after, err := TakeSnap(n.Book)
	if err != nil {
		return
	}
	if (n.BackgroundMayAct(before) || n.BackgroundMayAct(after)) && before.Digest() != after.Digest() {
		w.Res.Count("c06_ledger_moved_during_balance_queries", 1)
		return
	}
	for _, p := range pending {
		w.Violate("C06", p.sig, p.detail)
	}
	if !n.BackgroundMayAct(before) && !n.BackgroundMayAct(after) {
		if before.Digest() != after.Digest() {
			w.Violate("C06", "query-changed-ledger", fmt.Sprintf("node %s: the ledger state differs before and after balance queries (live %d -> %d, index %d -> %d): %s", n.Name, len(before.Live), len(after.Live), len(before.Index), len(after.Index), DigestDiff(before, after)))
		}
		w.Res.Count("c06_digest_comparisons", 1)
	}
}

func hasFunds(s *Snap, a string) bool { _, ok := s.Funds[a]; return ok }

func appearsAsBoth(s *Snap, a string) bool {
	for _, l := range s.Live {
		if l.V.Transaction.IssuerAddress == a && l.V.Transaction.ReceiverAddress == a {
			return true
		}
	}
	return false
}

func describeSums(sums []TipSum) string {
	var parts []string
	for _, ts := range sums {
		parts = append(parts, fmt.Sprintf("tip %s: in %s - out %s = %s", Hex(ts.Tip), ts.In, ts.Out, ts.Sum))
	}
	sort.Strings(parts)
	if len(parts) > 6 {
		parts = append(parts[:6], "...")
	}
	return fmt.Sprint(parts)
}

// AllAddresses lists every address that appears in the world plus one that never appears.
func (w *World) AllAddresses() []string {
	var out []string
	for _, u := range w.Users {
		out = append(out, u.Addr)
	}
	for _, n := range w.Nodes {
		out = append(out, n.Actor.Addr)
	}
	for _, s := range w.Sealers {
		out = append(out, s.Addr)
	}
	for _, s := range w.Extra {
		out = append(out, s.Addr)
	}
	return out
}

// CheckAgreement: nodes holding the same vertices (live and checkpointed) hold the same checkpoint funds and,
// when single-tipped, answer every balance query identically.
func (w *World) CheckAgreement(addrs []string) {
	type grp struct{ nodes []*Node }
	groups := map[string]*grp{}
	snaps := map[int]*Snap{}
	for _, n := range w.Nodes {
		if n.Closed {
			continue
		}
		s, err := TakeSnap(n.Book)
		if err != nil {
			continue
		}
		snaps[n.Idx] = s
		var keys []string
		for h := range s.Live {
			keys = append(keys, "L"+HexFull(h))
		}
		for h := range s.Stored {
			keys = append(keys, "S"+HexFull(h))
		}
		sort.Strings(keys)
		k := fmt.Sprint(keys)
		if groups[k] == nil {
			groups[k] = &grp{}
		}
		groups[k].nodes = append(groups[k].nodes, n)
	}
	for _, g := range groups {
		if len(g.nodes) < 2 {
			continue
		}
		w.Res.Count("c06_agreement_groups", 1)
		a0 := g.nodes[0]
		s0 := snaps[a0.Idx]
		for _, b := range g.nodes[1:] {
			sb := snaps[b.Idx]
			for addr, f := range s0.Funds {
				if fb, ok := sb.Funds[addr]; !ok || fb != f {
					w.Violate("C06", "nodes-disagree/checkpoint-funds", fmt.Sprintf("nodes %s and %s hold the same vertices but checkpoint funds of %s differ (%s vs %v)", a0.Name, b.Name, w.NameOf(addr), MelStr(f), fb))
				}
			}
			if len(s0.Leaves) != 1 {
				continue
			}
			for _, addr := range addrs {
				ba, ea := a0.Book.CalculateBalance(w.Ctx, addr)
				bb, eb := b.Book.CalculateBalance(w.Ctx, addr)
				w.EvalFor("C06", 1)
				if (ea == nil) != (eb == nil) || (ea == nil && ba.Spice != bb.Spice) {
					w.Violate("C06", "nodes-disagree/balance", fmt.Sprintf("nodes %s and %s hold the same vertices but answer the balance of %s differently (%s err=%v vs %s err=%v)", a0.Name, b.Name, w.NameOf(addr), MelStr(ba.Spice), ea, MelStr(bb.Spice), eb))
				}
			}
			w.NontrivFor("C06", fmt.Sprintf("agreement/nodes%d/stored=%v", len(g.nodes), len(s0.Stored) > 0))
		}
	}
}

// CheckConservation is the C02 oracle on node n at a quiescent point.
// When the whole ledger (live and checkpointed) is a single chain of vertices no two branches exist that could
// have been merged, so any overdrawn wallet is a violation in its own right ("on a ledger that grows as a single
// chain of tips this is exactly: no wallet ever spends more than it holds").
func (w *World) CheckConservation(n *Node) {
	if n.Abandoned {
		return
	}
	s, err := TakeSnap(n.Book)
	if err != nil {
		return
	}
	conf := s.Confirmed()
	if len(w.Trusted) > 0 {
		// the property speaks of vertices none of which was sealed under the trusted-node exemption: a ledger in which a
		// trusted sealer sealed a vertex that moves funds is not judged (a trusted sealer's vertex without spice moves nothing)
		for h := range conf {
			if v, ok := s.Vertex(h); ok && w.Trusted[v.SignerPublicAddress] && (v.Transaction.Spice.Currency != 0 || v.Transaction.Spice.SupplementaryCurrency != 0) {
				w.Res.Count("c02_skipped_trusted_sealing", 1)
				return
			}
		}
	}
	serial := isChain(s)
	type flow struct{ in, out *big.Int }
	flows := map[string]*flow{}
	get := func(a string) *flow {
		if flows[a] == nil {
			flows[a] = &flow{new(big.Int), new(big.Int)}
		}
		return flows[a]
	}
	spends := map[string][]H{}
	nconf := 0
	for h := range conf {
		v, ok := s.Vertex(h)
		if !ok {
			continue
		}
		nconf++
		t := &v.Transaction
		if t.Spice.Currency == 0 && t.Spice.SupplementaryCurrency == 0 {
			continue
		}
		a := Val(t.Spice)
		get(t.IssuerAddress).out.Add(get(t.IssuerAddress).out, a)
		get(t.ReceiverAddress).in.Add(get(t.ReceiverAddress).in, a)
		spends[t.IssuerAddress] = append(spends[t.IssuerAddress], h)
	}
	w.EvalFor("C02", 1)
	w.Res.Count("c02_quiescent_evaluations", 1)
	w.Res.Count("c02_confirmed_vertices", nconf)
	total := new(big.Int)
	overdrawn := 0
	for addr, f := range flows {
		if addr == w.GenIss {
			continue
		}
		net := new(big.Int).Sub(f.in, f.out)
		total.Add(total, net)
		if net.Sign() < 0 {
			overdrawn++
			own := false
			for _, h := range spends[addr] {
				if ev := n.Eval[h]; ev != nil && ev.Exempt == "" && !ev.OK && !ev.CheckpointOverdrawn {
					own = true
				}
			}
			twice := ""
			seenTrx := map[H]H{}
			for _, h := range spends[addr] {
				if v, ok := s.Vertex(h); ok {
					if o, dup := seenTrx[v.Transaction.Hash]; dup {
						twice = fmt.Sprintf("transaction %s is confirmed in vertex %s and in vertex %s", Hex(v.Transaction.Hash), Hex(o), Hex(h))
					}
					seenTrx[v.Transaction.Hash] = h
				}
			}
			switch {
			case twice != "" && !own:
				w.Violate("C02", "overdrawn/one-transaction-confirmed-twice", fmt.Sprintf("node %s: over all confirmed vertices wallet %s received %s and spent %s: %s, the one spend is counted twice", n.Name, w.NameOf(addr), f.in, f.out, twice))
			case own:
				w.Violate("C02", "overdrawn/own-history", fmt.Sprintf("node %s: over all confirmed vertices wallet %s received %s and spent %s, and one of its confirmed spends was not covered even in its own history", n.Name, w.NameOf(addr), f.in, f.out))
			case serial:
				w.Violate("C02", "overdrawn/single-chain", fmt.Sprintf("node %s: over all confirmed vertices of a ledger that is a single chain wallet %s received %s and spent %s", n.Name, w.NameOf(addr), f.in, f.out))
			default:
				w.Violate("C02", "overdrawn/cross-branch", fmt.Sprintf("node %s: over all confirmed vertices wallet %s received %s and spent %s; every single spend was covered in its own history, the union of the merged branches is not", n.Name, w.NameOf(addr), f.in, f.out))
			}
		}
	}
	gi := flows[w.GenIss]
	want := new(big.Int).Set(Val(w.Supply))
	if gi != nil {
		want.Sub(gi.out, gi.in)
	} else {
		want = new(big.Int)
	}
	if total.Cmp(want) != 0 {
		w.Violate("C02", "supply-not-conserved", fmt.Sprintf("node %s: balances of all wallets add up to %s, genesis wallet issued %s net", n.Name, total, want))
	}
	if gi != nil && gi.out.Cmp(Val(w.Supply)) > 0 {
		w.Violate("C02", "supply-grew", fmt.Sprintf("node %s: the genesis wallet issued %s, the genesis supply is %s", n.Name, gi.out, Val(w.Supply)))
	}
	w.NontrivFor("C02", fmt.Sprintf("quiescent/chain=%v/conf%d/tips%d/stored=%v/overdrawn=%d", serial, bucket(nconf), bucket(len(s.Leaves)), len(s.Stored) > 0, overdrawn))

	// second observation: the implementation's own arithmetic. With a single tip every live vertex is counted by a balance
	// query, so the reported balances must equal the reference per wallet and add up to the supply.
	if len(s.Leaves) == 1 && !n.BackgroundMayAct(s) {
		sum := new(big.Int)
		okAll := true
		type pend struct{ sig, detail string }
		var pending []pend
		for _, a := range w.AllAddresses() {
			if a == w.GenIss {
				continue
			}
			ref := RefTipSums(s, a)[0]
			b, err := n.Book.CalculateBalance(w.Ctx, a)
			w.Res.Count("c02_balance_queries", 1)
			if err != nil {
				okAll = false
				if ref.Valid {
					pending = append(pending, pend{"reported-balance-differs", fmt.Sprintf("node %s: balance of %s is an error (%s), the reference over all vertices is %s", n.Name, w.NameOf(a), firstLine(err.Error()), ref.Sum)})
				}
				continue
			}
			if !ref.Valid || Val(b.Spice).Cmp(ref.Sum) != 0 {
				pending = append(pending, pend{"reported-balance-differs", fmt.Sprintf("node %s: reported balance of %s is %s, the reference over all vertices is %s", n.Name, w.NameOf(a), MelStr(b.Spice), ref.Sum)})
			}
			sum.Add(sum, Val(b.Spice))
		}
		// the node's retry ticker may have admitted a parked vertex while the queries ran (a new tip, another walk): the
		// answers are compared with the snapshot only if the ledger is still the one that was snapshotted
		if s2, err := TakeSnap(n.Book); err != nil || s2.Digest() != s.Digest() {
			w.Res.Count("c02_ledger_moved_during_balance_queries", 1)
			return
		}
		for _, p := range pending {
			w.Violate("C02", p.sig, p.detail)
		}
		if okAll {
			// all vertices (the tip included) are counted: the reported balances add up to what the genesis wallet issued
			issued := new(big.Int)
			for _, l := range s.Live {
				if l.V.Transaction.IssuerAddress == w.GenIss {
					issued.Add(issued, Val(l.V.Transaction.Spice))
				}
				if l.V.Transaction.ReceiverAddress == w.GenIss {
					issued.Sub(issued, Val(l.V.Transaction.Spice))
				}
			}
			for _, v := range s.Stored {
				if v.Transaction.IssuerAddress == w.GenIss {
					issued.Add(issued, Val(v.Transaction.Spice))
				}
				if v.Transaction.ReceiverAddress == w.GenIss {
					issued.Sub(issued, Val(v.Transaction.Spice))
				}
			}
			// a wallet whose checkpointed vertices spent more than they brought in at some truncation (both conflicting spends
			// of the listed cross-branch finding got checkpointed) was held at zero by the checkpoint, which cannot carry a
			// debt; from then on its checkpointed funds exceed the net flow of its checkpointed vertices. The overdrawn
			// wallet itself is reported by the first observation above and by the truncation oracle (which marks it); the sum
			// is held to the supply plus what the checkpoint holds in excess for the wallets so marked.
			excess := new(big.Int)
			for a := range n.Tainted {
				if a == w.GenIss {
					continue
				}
				in, out := Flows(a, func(yield func(*accountant.Vertex)) {
					for _, v := range s.Stored {
						yield(v)
					}
				})
				have := new(big.Int)
				if f, ok := s.Funds[a]; ok {
					have = Val(f)
				}
				excess.Add(excess, have.Sub(have, in.Sub(in, out)))
			}
			if excess.Sign() != 0 {
				w.Res.Count("c02_sum_checks_with_a_debt_held_at_zero_by_the_checkpoint", 1)
			}
			if sum.Cmp(new(big.Int).Add(issued, excess)) != 0 {
				w.Violate("C02", "reported-balances-do-not-add-up", fmt.Sprintf("node %s: reported balances of all wallets add up to %s, the genesis wallet issued %s (held in excess by the checkpoint for wallets whose debt it could not carry: %s)", n.Name, sum, issued, excess))
			}
			w.Res.Count("c02_single_tip_sum_checks", 1)
		}
	}
}

// isChain reports whether live and checkpointed vertices together form a single chain:
// every vertex declares one distinct parent and no vertex is declared as parent by two vertices.
func isChain(s *Snap) bool {
	childCount := map[H]int{}
	visit := func(v *accountant.Vertex) bool {
		ps := distinctParents(v)
		if len(ps) > 1 {
			return false
		}
		childCount[ps[0]]++
		return childCount[ps[0]] <= 1
	}
	for _, l := range s.Live {
		if !visit(&l.V) {
			return false
		}
	}
	for _, v := range s.Stored {
		if !visit(v) {
			return false
		}
	}
	return true
}

// OverspendProbes: on a ledger with a single tip, every wallet in turn proposes a transfer of one smallest unit more
// than it owns over all vertices of the ledger (each counted once, live and checkpointed), followed by proposals that
// make the node judge that tip. The probe must never become confirmed: the snapshot oracle of C01 and the conservation
// oracle of C02 watch. Every second wallet afterwards spends exactly what it owns, which must be confirmed.
func (w *World) OverspendProbes(n *Node, d *Driver) { w.overspendProbes(n, d, false) }

// OverspendProbesOnAnyTips: the same probes on a ledger with several tips, without merging them first (the probe lands
// on whichever tips the node picks and is judged in the history it really has).
func (w *World) OverspendProbesOnAnyTips(n *Node, d *Driver) { w.overspendProbes(n, d, true) }

func (w *World) overspendProbes(n *Node, d *Driver, anyTips bool) {
	if len(w.Trusted) > 0 || n.Abandoned {
		return
	}
	for ui, u := range w.Users {
		s, err := TakeSnap(n.Book)
		for k := 0; k < 4 && err == nil && len(s.Leaves) != 1 && !anyTips; k++ {
			// merge the tips first (a proposal takes two of them)
			m := w.NewTrx(w.Users[0], w.Users[1].Addr, spice.Melange{}, []byte("merge before a probe"))
			if mv, perr := w.Propose(n, &m, "merge before a probe"); perr == nil && d != nil {
				d.noteSealed(&mv)
			}
			s, err = TakeSnap(n.Book)
		}
		if err != nil || (len(s.Leaves) != 1 && !anyTips) {
			w.Res.Count("overspend_probes_skipped_ledger_not_single_tipped", 1)
			continue
		}
		// (with vertices parked the retry ticker may change the ledger under the probe: the probe is made all the same and
		// judged by the per-confirmation oracle, which reads the history the vertex really has; the direct verdicts below
		// are given only on a ledger nothing else can move)
		quietLedger := !n.BackgroundMayAct(s) && len(s.Leaves) == 1
		if u.Addr == w.GenIss || n.Tainted[u.Addr] {
			continue
		}
		in, out := Flows(u.Addr, func(yield func(*accountant.Vertex)) {
			seen := map[H]bool{}
			for h, l := range s.Live {
				seen[h] = true
				yield(&l.V)
			}
			for h, v := range s.Stored {
				if !seen[h] {
					yield(v)
				}
			}
		})
		own := new(big.Int).Sub(in, out)
		if own.Sign() < 0 || in.Cmp(MaxVal) > 0 {
			continue
		}
		to := w.Users[(ui+1)%len(w.Users)]
		probe := new(big.Int).Add(own, big.NewInt(1))
		if probe.Cmp(MaxVal) > 0 {
			continue
		}
		t := w.NewTrx(u, to.Addr, FromVal(probe), nil)
		pv, perr := w.Propose(n, &t, fmt.Sprintf("overspend probe: %s owns %s and spends one unit more", u.Name, own))
		if perr == nil && d != nil {
			d.noteSealed(&pv)
		}
		for k := 0; k < 2; k++ {
			m := w.NewTrx(w.Users[0], w.Users[1].Addr, spice.Melange{}, []byte("judge the tip"))
			if mv, err := w.Propose(n, &m, "judge the tip"); err == nil && d != nil {
				d.noteSealed(&mv)
			}
		}
		w.Res.Count("overspend_probes", 1)
		for p := range w.Report {
			w.EvalFor(p, 1)
			w.NontrivFor(p, fmt.Sprintf("overspend-probe/%s/accepted-as-tip=%v/checkpoint=%v", amountClass(FromVal(probe).Currency, FromVal(probe).SupplementaryCurrency), perr == nil, len(s.Stored) > 0))
		}
		if cur := n.Prev; perr == nil && cur != nil && quietLedger && !n.BackgroundMayAct(cur) {
			if _, still := cur.Live[pv.Hash]; still {
				if !cur.Leaves[pv.Hash] {
					// (the C01 oracle has reported the confirmation; said again in the words of the probe)
					w.Violate("C02", "overdrawn/overspend-probe-confirmed", fmt.Sprintf("node %s: %s owns %s over all vertices of the ledger; its transfer of %s was built upon", n.Name, u.Name, own, probe))
				}
			}
		}
		if ui%2 == 1 && own.Sign() > 0 && len(s.Leaves) == 1 {
			e := w.NewTrx(u, to.Addr, FromVal(own), nil)
			ev, eerr := w.Propose(n, &e, fmt.Sprintf("%s spends exactly what it owns (%s)", u.Name, own))
			if eerr == nil && d != nil {
				d.noteSealed(&ev)
			}
			for k := 0; k < 2; k++ {
				m := w.NewTrx(w.Users[0], w.Users[1].Addr, spice.Melange{}, []byte("judge the tip"))
				if mv, err := w.Propose(n, &m, "judge the tip"); err == nil && d != nil {
					d.noteSealed(&mv)
				}
			}
			if cur := n.Prev; eerr == nil && cur != nil && !n.BackgroundMayAct(cur) {
				if _, ok := cur.Vertex(ev.Hash); !ok {
					w.Violate("C02", "covered-spend-dropped", fmt.Sprintf("node %s: %s owns %s over all vertices of the ledger; its transfer of exactly that amount was dropped as not covered", n.Name, u.Name, own))
				}
			}
			w.Res.Count("exact_spend_probes", 1)
		}
	}
	w.CheckConservation(n)
}
