package ledger

import (
	"fmt"
	"math/big"
	"sort"

	"github.com/bartossh/Computantis/src/accountant"
	"github.com/bartossh/Computantis/src/spice"
)

// LiveV is a vertex of the in-memory graph with the edges the graph holds for it.
type LiveV struct {
	V        accountant.Vertex
	ID       string
	Parents  map[H]bool
	Children map[H]bool
}

// Snap is a processed copy of a node's state taken under the ledger's own lock.
type Snap struct {
	Live      map[H]*LiveV
	Stored    map[H]*accountant.Vertex
	Funds     map[string]spice.Melange
	Index     map[H]H
	Leaves    map[H]bool
	Roots     map[H]bool
	Trusted   map[string]bool
	Parked    []accountant.VerifParked
	Genesis   string
	Loaded    bool
	Weight    uint64
	Malformed []string // anomalies found while converting the raw snapshot (each is a C09/C03 concern)
	// Dup: vertices found both in the live graph and in the vertices storage. They are NOT in Stored: a vertex that
	// is still live has not left the graph, whatever the storage holds (an interrupted truncation leaves such copies)
	Dup map[H]bool
}

func toH(s string) (H, bool) {
	var h H
	if len(s) != 32 {
		return h, false
	}
	copy(h[:], s)
	return h, true
}

// TakeSnap copies and processes the state of the book.
func TakeSnap(b *accountant.AccountingBook) (*Snap, error) {
	raw, err := b.VerifSnapshot()
	if err != nil {
		return nil, err
	}
	s := &Snap{
		Live: map[H]*LiveV{}, Stored: map[H]*accountant.Vertex{}, Funds: raw.Funds, Index: map[H]H{},
		Leaves: map[H]bool{}, Roots: map[H]bool{}, Trusted: map[string]bool{}, Parked: raw.Parked,
		Genesis: raw.GenesisAddress, Loaded: raw.DagLoaded, Weight: raw.Weight,
	}
	for i := range raw.Live {
		lv := &raw.Live[i]
		id, ok := toH(lv.ID)
		if !ok {
			s.Malformed = append(s.Malformed, fmt.Sprintf("graph id of length %d", len(lv.ID)))
			continue
		}
		if id != lv.Vertex.Hash {
			s.Malformed = append(s.Malformed, fmt.Sprintf("graph id %s holds vertex with hash %s", Hex(id), Hex(lv.Vertex.Hash)))
		}
		l := &LiveV{V: lv.Vertex, ID: lv.ID, Parents: map[H]bool{}, Children: map[H]bool{}}
		for _, p := range lv.Parents {
			if ph, ok := toH(p); ok {
				l.Parents[ph] = true
			} else {
				s.Malformed = append(s.Malformed, "edge from id of wrong length")
			}
		}
		for _, c := range lv.Children {
			if ch, ok := toH(c); ok {
				l.Children[ch] = true
			}
		}
		s.Live[id] = l
	}
	for _, l := range raw.Leaves {
		if h, ok := toH(l); ok {
			s.Leaves[h] = true
		}
	}
	for _, l := range raw.Roots {
		if h, ok := toH(l); ok {
			s.Roots[h] = true
		}
	}
	for i := range raw.Stored {
		st := &raw.Stored[i]
		k, _ := toH(st.Key)
		if st.DecodeErr != "" {
			s.Malformed = append(s.Malformed, fmt.Sprintf("stored vertex %s does not decode: %s", Hex(k), st.DecodeErr))
			continue
		}
		if st.Vertex.Hash != k {
			s.Malformed = append(s.Malformed, fmt.Sprintf("storage key %s holds vertex with hash %s", Hex(k), Hex(st.Vertex.Hash)))
		}
		v := st.Vertex
		if _, live := s.Live[k]; live {
			if s.Dup == nil {
				s.Dup = map[H]bool{}
			}
			s.Dup[k] = true
			if Fingerprint(&v) != Fingerprint(&s.Live[k].V) {
				s.Malformed = append(s.Malformed, fmt.Sprintf("vertex %s is held live and in the storage with different content", Hex(k)))
			}
			continue
		}
		s.Stored[k] = &v
	}
	for k, v := range raw.Index {
		kh, ok1 := toH(k)
		vh, ok2 := toH(v)
		if !ok1 || !ok2 {
			s.Malformed = append(s.Malformed, fmt.Sprintf("index entry with key length %d value length %d", len(k), len(v)))
			continue
		}
		s.Index[kh] = vh
	}
	for _, t := range raw.Trusted {
		s.Trusted[t] = true
	}
	for _, k := range raw.OtherKeys {
		if k != "last_vertex" {
			s.Malformed = append(s.Malformed, fmt.Sprintf("unreadable storage entry under key of length %d", len(k)))
		}
	}
	return s, nil
}

// Vertex returns the vertex with the hash from the live graph or the storage.
func (s *Snap) Vertex(h H) (*accountant.Vertex, bool) {
	if l, ok := s.Live[h]; ok {
		return &l.V, true
	}
	if v, ok := s.Stored[h]; ok {
		return v, true
	}
	return nil, false
}

// Confirmed is the set of vertices that some live vertex declares as a parent, plus everything checkpointed.
func (s *Snap) Confirmed() map[H]bool {
	c := map[H]bool{}
	zero := H{}
	for _, l := range s.Live {
		if l.V.LeftParentHash != zero {
			c[l.V.LeftParentHash] = true
		}
		if l.V.RightParentHash != zero {
			c[l.V.RightParentHash] = true
		}
	}
	for h := range s.Stored {
		c[h] = true
	}
	return c
}

// Digest is a canonical rendering of the observable ledger state (vertices with edges, storage, funds, index, parked).
func (s *Snap) Digest() string {
	keys := s.digestKeys()
	return fmt.Sprint(len(keys), keys)
}

// DigestDiff lists the state items present in only one of the two snapshots.
func DigestDiff(a, b *Snap) string {
	ka, kb := a.digestKeys(), b.digestKeys()
	ma, mb := map[string]bool{}, map[string]bool{}
	for _, k := range ka {
		ma[k] = true
	}
	for _, k := range kb {
		mb[k] = true
	}
	var d []string
	short := func(k string) string {
		if len(k) > 28 {
			return k[:28]
		}
		return k
	}
	for _, k := range ka {
		if !mb[k] {
			d = append(d, "-"+short(k))
		}
	}
	for _, k := range kb {
		if !ma[k] {
			d = append(d, "+"+short(k))
		}
	}
	if len(d) > 10 {
		d = append(d[:10], fmt.Sprintf("... %d items", len(d)))
	}
	return fmt.Sprint(d)
}

func (s *Snap) digestKeys() []string {
	var keys []string
	for h, l := range s.Live {
		ps := []string{}
		for p := range l.Parents {
			ps = append(ps, Hex(p))
		}
		sort.Strings(ps)
		fp := Fingerprint(&l.V)
		keys = append(keys, fmt.Sprintf("L%s:%s:%v", HexFull(h), HexFull(fp), ps))
	}
	for h, v := range s.Stored {
		fp := Fingerprint(v)
		keys = append(keys, fmt.Sprintf("S%s:%s", HexFull(h), HexFull(fp)))
	}
	for a, f := range s.Funds {
		keys = append(keys, fmt.Sprintf("F%s:%d.%d", a, f.Currency, f.SupplementaryCurrency))
	}
	for k, v := range s.Index {
		keys = append(keys, fmt.Sprintf("I%s:%s", HexFull(k), HexFull(v)))
	}
	for _, p := range s.Parked {
		keys = append(keys, fmt.Sprintf("P%s", HexFull(p.Vertex.Hash)))
	}
	for t := range s.Trusted {
		keys = append(keys, "T"+t)
	}
	sort.Strings(keys)
	return keys
}

// ---------------------------------------------------------------------------------
// big integer helpers

var bigE18 = new(big.Int).SetUint64(spice.MaxAmountPerSupplementaryCurrency)

const E18 = uint64(spice.MaxAmountPerSupplementaryCurrency)

func Val(m spice.Melange) *big.Int {
	v := new(big.Int).SetUint64(m.Currency)
	v.Mul(v, bigE18)
	v.Add(v, new(big.Int).SetUint64(m.SupplementaryCurrency))
	return v
}

var MaxVal = func() *big.Int {
	v := new(big.Int).SetUint64(^uint64(0))
	v.Mul(v, bigE18)
	v.Add(v, new(big.Int).SetUint64(E18-1))
	return v
}()

// FromVal converts a non negative representable value back to a melange.
func FromVal(v *big.Int) spice.Melange {
	q, r := new(big.Int).QuoRem(v, bigE18, new(big.Int))
	return spice.Melange{Currency: q.Uint64(), SupplementaryCurrency: r.Uint64()}
}

func MelStr(m spice.Melange) string {
	return fmt.Sprintf("%d.%018d", m.Currency, m.SupplementaryCurrency)
}

// Flows sums what the address received and sent over the given vertices (a self transfer counts on both sides).
func Flows(addr string, vs func(yield func(*accountant.Vertex))) (in, out *big.Int) {
	in, out = new(big.Int), new(big.Int)
	vs(func(v *accountant.Vertex) {
		t := &v.Transaction
		if t.Spice.Currency == 0 && t.Spice.SupplementaryCurrency == 0 {
			return
		}
		if t.IssuerAddress == addr {
			out.Add(out, Val(t.Spice))
		}
		if t.ReceiverAddress == addr {
			in.Add(in, Val(t.Spice))
		}
	})
	return
}
