package ledger

import (
	"fmt"
	"math/big"
	"sort"
	"time"

	"github.com/bartossh/Computantis/src/accountant"
)

// Observe takes a snapshot of node n after an operation and runs the enabled snapshot oracles on it.
func (w *World) Observe(n *Node, op OpInfo) *Snap {
	cur, err := TakeSnap(n.Book)
	if err != nil {
		w.Res.Inconc("snapshot failed: " + err.Error())
		return n.Prev
	}
	prev := n.Prev
	w.Res.Count("snapshots", 1)
	if n.Abandoned {
		n.Prev = cur
		return cur
	}
	if w.Oracles&OC09 != 0 {
		w.checkWellFormed(n, prev, cur, op)
	}
	if w.Oracles&OC03 != 0 {
		w.checkUnique(n, prev, cur, op)
	}
	if w.Oracles&OC10 != 0 {
		w.checkSealing(n, cur)
	}
	if w.Oracles&OC01 != 0 {
		w.checkConfirmations(n, prev, cur, op)
	}
	for h := range cur.Confirmed() {
		n.Seen[h] = true
	}
	if prev != nil {
		for h := range prev.Live {
			if _, still := cur.Live[h]; !still {
				if _, st := cur.Stored[h]; !st && len(n.Dropped) < 64 {
					n.Dropped = append(n.Dropped, h)
				}
			}
		}
	}
	n.Prev = cur
	return cur
}

func (w *World) isGenesis(v *accountant.Vertex) bool {
	return v.Hash == w.Genesis.Hash
}

// verified caches the self-authentication verdict per full content fingerprint.
func (w *World) verified(n *Node, v *accountant.Vertex) string {
	fp := Fingerprint(v)
	if r, ok := w.vcache[fp]; ok {
		return r
	}
	ok, why := SelfAuthentic(v, w.Keys)
	res := ""
	if !ok {
		res = why
	} else if err := n.Book.VerifVerifyVertex(v); err != nil {
		res = "the node's own verification fails: " + err.Error()
	}
	w.vcache[fp] = res
	w.Res.Count("vertices_authenticated", 1)
	return res
}

// ---------------------------------------------------------------------------------
// C09 — well-formed DAG of self-authenticating vertices

func (w *World) checkWellFormed(n *Node, prev, cur *Snap, op OpInfo) {
	for _, m := range cur.Malformed {
		w.Violate("C09", "malformed-state", fmt.Sprintf("node %s: %s", n.Name, m))
	}
	zero := H{}
	// acyclicity of the declared-parent graph restricted to live vertices (Kahn)
	indeg := map[H]int{}
	for h, l := range cur.Live {
		d := 0
		for _, p := range distinctParents(&l.V) {
			if p != zero {
				if _, ok := cur.Live[p]; ok {
					d++
				}
			}
		}
		indeg[h] = d
	}
	queue := []H{}
	for h, d := range indeg {
		if d == 0 {
			queue = append(queue, h)
		}
	}
	childrenOf := map[H][]H{}
	for h, l := range cur.Live {
		for _, p := range distinctParents(&l.V) {
			if _, ok := cur.Live[p]; ok {
				childrenOf[p] = append(childrenOf[p], h)
			}
		}
	}
	done := 0
	for len(queue) > 0 {
		x := queue[0]
		queue = queue[1:]
		done++
		for _, c := range childrenOf[x] {
			indeg[c]--
			if indeg[c] == 0 {
				queue = append(queue, c)
			}
		}
	}
	if done != len(cur.Live) {
		w.Violate("C09", "cycle", fmt.Sprintf("node %s: declared parent links of the live vertices contain a cycle (%d of %d sorted)", n.Name, done, len(cur.Live)))
	}

	for h, l := range cur.Live {
		v := &l.V
		if !w.isGenesis(v) {
			declared := map[H]bool{}
			for _, p := range distinctParents(v) {
				declared[p] = true
				if p == zero {
					w.Violate("C09", "zero-parent", fmt.Sprintf("node %s: non-genesis vertex %s declares the zero hash as parent", n.Name, Hex(h)))
					continue
				}
				if _, live := cur.Live[p]; live {
					if !l.Parents[p] {
						w.Violate("C09", "missing-edge", fmt.Sprintf("node %s: vertex %s declares live parent %s but the graph has no edge from it", n.Name, Hex(h), Hex(p)))
					}
				} else if _, st := cur.Stored[p]; !st {
					w.Violate("C09", "parent-neither-live-nor-checkpointed", fmt.Sprintf("node %s: vertex %s declares parent %s which is neither in the live DAG nor checkpointed", n.Name, Hex(h), Hex(p)))
				}
			}
			for p := range l.Parents {
				if !declared[p] {
					w.Violate("C09", "extra-edge", fmt.Sprintf("node %s: graph edge %s -> %s is not a declared parent link", n.Name, Hex(p), Hex(h)))
				}
			}
		} else if len(l.Parents) != 0 {
			w.Violate("C09", "extra-edge", fmt.Sprintf("node %s: genesis vertex has inbound edges", n.Name))
		}
		for p := range l.Parents {
			pl, ok := cur.Live[p]
			if !ok || !pl.Children[h] {
				w.Violate("C09", "asymmetric-edge", fmt.Sprintf("node %s: edge %s -> %s is not mirrored on the parent side", n.Name, Hex(p), Hex(h)))
			}
		}
		if why := w.verified(n, v); why != "" {
			w.Violate("C09", "not-self-authenticating/live", fmt.Sprintf("node %s: live vertex %s: %s", n.Name, Hex(h), why))
		}
		isLeaf := len(l.Children) == 0
		if isLeaf != cur.Leaves[h] {
			w.Violate("C09", "leaf-set-mismatch", fmt.Sprintf("node %s: vertex %s has %d children but leaf flag is %v", n.Name, Hex(h), len(l.Children), cur.Leaves[h]))
		}
	}
	for h, v := range cur.Stored {
		if why := w.verified(n, v); why != "" {
			w.Violate("C09", "not-self-authenticating/stored", fmt.Sprintf("node %s: checkpointed vertex %s: %s", n.Name, Hex(h), why))
		}
	}

	w.EvalFor("C09", 1)
	if op.Kind != "query" {
		okc := "ok"
		if !op.OK {
			okc = "err"
		}
		w.NontrivFor("C09", fmt.Sprintf("%s/%s/tips%d/live%d/stored%v/parked%v", op.Kind, okc, bucket(len(cur.Leaves)), bucket(len(cur.Live)), len(cur.Stored) > 0, len(cur.Parked) > 0))
	}
	// operation level clauses
	if prev == nil {
		return
	}
	if op.Kind == "propose" && op.OK && op.Created != nil {
		v := op.Created
		w.Res.Count("c09_created_checked", 1)
		// parents are looked up after the call (they must have survived it); the previous snapshot decides whether
		// they were tips, unless the retry ticker may have admitted vertices in between
		lw, lok := weightOf(cur, v.LeftParentHash)
		rw, rok := weightOf(cur, v.RightParentHash)
		if !lok || !rok {
			w.Violate("C09", "created-on-dropped-or-unknown-parent", fmt.Sprintf("node %s: created vertex %s references a parent that is not in the ledger after the call", n.Name, Hex(v.Hash)))
		} else {
			want := lw
			if rw > want {
				want = rw
			}
			want++
			if v.Weight != want {
				w.Violate("C09", "created-weight", fmt.Sprintf("node %s: created vertex %s has weight %d, max(parent weights)+1 is %d", n.Name, Hex(v.Hash), v.Weight, want))
			}
			for _, p := range distinctParents(v) {
				if _, ok := cur.Live[p]; !ok {
					w.Violate("C09", "created-on-dropped-tip", fmt.Sprintf("node %s: created vertex %s references %s which is no longer in the live DAG", n.Name, Hex(v.Hash), Hex(p)))
				}
				if !n.BackgroundMayAct(prev) && !prev.Leaves[p] {
					w.Violate("C09", "created-on-non-tip", fmt.Sprintf("node %s: created vertex %s references %s which was not a tip at that moment", n.Name, Hex(v.Hash), Hex(p)))
				}
			}
		}
		if _, ok := cur.Live[v.Hash]; !ok {
			w.Violate("C09", "created-not-in-dag", fmt.Sprintf("node %s: CreateLeaf returned vertex %s but it is not in the live DAG", n.Name, Hex(v.Hash)))
		}
	}
	if (op.Kind == "propose" || op.Kind == "deliver") && !op.OK {
		// a failed addition leaves no new vertex, edge or index entry (vertices the retry ticker admitted meanwhile excepted)
		w.Res.Count("c09_failed_adds_checked", 1)
		wasParked := map[H]bool{}
		for _, p := range prev.Parked {
			wasParked[p.Vertex.Hash] = true
		}
		for h := range n.Orphans {
			wasParked[h] = true
		}
		for h := range cur.Live {
			if _, ok := prev.Live[h]; !ok && !wasParked[h] {
				w.Violate("C09", "failed-add-left-vertex", fmt.Sprintf("node %s: operation failed (%v) but vertex %s appeared in the live DAG", n.Name, op.Err, Hex(h)))
			}
		}
		for t, vh := range cur.Index {
			if _, ok := prev.Index[t]; !ok && !wasParked[vh] {
				w.Violate("C09", "failed-add-left-index-entry", fmt.Sprintf("node %s: operation failed (%v) but index entry %s -> %s appeared", n.Name, op.Err, Hex(t), Hex(vh)))
			}
		}
	}
}

func distinctParents(v *accountant.Vertex) []H {
	if v.LeftParentHash == v.RightParentHash {
		return []H{v.LeftParentHash}
	}
	return []H{v.LeftParentHash, v.RightParentHash}
}

func weightOf(s *Snap, h H) (uint64, bool) {
	if v, ok := s.Vertex(h); ok {
		return v.Weight, true
	}
	return 0, false
}

// ---------------------------------------------------------------------------------
// C03 — a transaction is sealed in at most one vertex per ledger, index is a bijection

func (w *World) checkUnique(n *Node, prev, cur *Snap, op OpInfo) {
	for _, m := range cur.Malformed {
		_ = m
	}
	byTrx := map[H][]H{}
	for h, l := range cur.Live {
		byTrx[l.V.Transaction.Hash] = append(byTrx[l.V.Transaction.Hash], h)
		if cur.Dup[h] && !n.Interrupted {
			// (after a truncation that the harness interrupted through its context the storage holds copies of vertices
			// that never left the graph; that situation is outside the quantifier of C03 and is not judged)
			w.Violate("C03", "vertex-live-and-checkpointed", fmt.Sprintf("node %s: vertex %s is both in the live DAG and in the checkpoint storage", n.Name, Hex(h)))
		}
	}
	for h, v := range cur.Stored {
		byTrx[v.Transaction.Hash] = append(byTrx[v.Transaction.Hash], h)
	}
	for t, hs := range byTrx {
		if len(hs) > 1 {
			sort.Slice(hs, func(i, j int) bool { return Hex(hs[i]) < Hex(hs[j]) })
			w.Violate("C03", "transaction-sealed-twice", fmt.Sprintf("node %s: transaction %s is carried by %d vertices (%s, %s, ...)", n.Name, Hex(t), len(hs), Hex(hs[0]), Hex(hs[1])))
		}
		vh, ok := cur.Index[t]
		if !ok {
			w.Violate("C03", "held-transaction-without-index-entry", fmt.Sprintf("node %s: transaction %s is sealed in vertex %s but has no index entry", n.Name, Hex(t), Hex(hs[0])))
			continue
		}
		found := false
		for _, h := range hs {
			if h == vh {
				found = true
			}
		}
		if !found {
			w.Violate("C03", "index-points-elsewhere", fmt.Sprintf("node %s: index entry of transaction %s points to %s, the transaction is held by %s", n.Name, Hex(t), Hex(vh), Hex(hs[0])))
		}
	}
	parked := map[H]bool{}
	for _, p := range cur.Parked {
		parked[p.Vertex.Hash] = true
	}
	for t, vh := range cur.Index {
		v, ok := cur.Vertex(vh)
		if !ok {
			w.Violate("C03", "dangling-index-entry", fmt.Sprintf("node %s: index entry %s -> %s points to a vertex that is neither live nor checkpointed", n.Name, Hex(t), Hex(vh)))
			continue
		}
		if v.Transaction.Hash != t {
			w.Violate("C03", "index-points-elsewhere", fmt.Sprintf("node %s: index entry %s points to vertex %s which holds transaction %s", n.Name, Hex(t), Hex(vh), Hex(v.Transaction.Hash)))
		}
	}
	w.EvalFor("C03", 1)
	w.Res.Count("c03_snapshots_checked", 1)
	w.Res.Count("c03_index_entries_checked", len(cur.Index))
}

// ---------------------------------------------------------------------------------
// C10 — sealing rules

func (w *World) checkSealing(n *Node, cur *Snap) {
	check := func(where string, v *accountant.Vertex) {
		if w.isGenesis(v) {
			return
		}
		t := &v.Transaction
		if t.IssuerAddress == v.SignerPublicAddress {
			w.Violate("C10", "self-sealed/"+where, fmt.Sprintf("node %s: %s vertex %s carries a transaction issued by its own sealer %s", n.Name, where, Hex(v.Hash), w.NameOf(v.SignerPublicAddress)))
		}
		if t.IssuerAddress == w.GenIss {
			w.Violate("C10", "genesis-wallet-spends/"+where, fmt.Sprintf("node %s: %s vertex %s has the genesis wallet as issuer", n.Name, where, Hex(v.Hash)))
		}
		if len(t.Data) == 0 && t.Spice.Currency == 0 && t.Spice.SupplementaryCurrency == 0 {
			w.Violate("C10", "empty-transaction-sealed/"+where, fmt.Sprintf("node %s: %s vertex %s carries a transaction with neither data nor spice", n.Name, where, Hex(v.Hash)))
		}
	}
	for _, l := range cur.Live {
		check("live", &l.V)
	}
	for _, v := range cur.Stored {
		check("stored", v)
	}
	w.EvalFor("C10", 1)
	w.Res.Count("c10_vertices_checked", len(cur.Live)+len(cur.Stored))
}

// ---------------------------------------------------------------------------------
// C01 — no confirmed transfer overdraws its issuer within the history it builds on

func (w *World) checkConfirmations(n *Node, prev, cur *Snap, op OpInfo) {
	conf := cur.Confirmed()
	for h := range conf {
		if _, done := n.Eval[h]; done {
			continue
		}
		v, ok := w.Hist.Get(h)
		if !ok {
			sv, ok2 := cur.Vertex(h)
			if !ok2 {
				continue // declared parent that does not exist: the C09 oracle reports it
			}
			w.Hist.Add(sv)
			v = sv
		}
		ev := w.evalConfirm(n, cur, v, op)
		n.Eval[h] = ev
		w.EvalFor("C01", 1)
		w.Res.Count("c01_confirmations_evaluated", 1)
		if ev.Exempt != "" {
			w.Res.Count("c01_exempt_"+ev.Exempt, 1)
			continue
		}
		if ev.Tight {
			w.NontrivFor("C01", fmt.Sprintf("conf/%s/%s/ok=%v/%s/spends=%v", op.Kind, ev.Path, ev.OK, amountClass(v.Transaction.Spice.Currency, v.Transaction.Spice.SupplementaryCurrency), ev.Out.Sign() > 0))
		}
		if !ev.OK {
			sig := "confirmed-overdraft/" + ev.Path
			if ev.CheckpointOverdrawn {
				sig = "confirmed-overdraft/issuer-overdrawn-in-checkpoint"
			}
			if op.Kind == "propose" && op.Created != nil && !ev.CheckpointOverdrawn && (op.Created.LeftParentHash == h || op.Created.RightParentHash == h) {
				// C09: "a vertex created by a node references only tips that were valid at that moment"
				w.Violate("C09", "created-on-invalid-tip", fmt.Sprintf("node %s: the vertex %s it created references tip %s, a transfer that overdraws its issuer in its own history", n.Name, Hex(op.Created.Hash), Hex(h)))
			}
			w.Violate("C01", sig, fmt.Sprintf("node %s: vertex %s (%s -> %s, %s, sealed by %s) became confirmed although in its own history the issuer received %s and spent %s before it (short by %s)",
				n.Name, Hex(h), w.NameOf(v.Transaction.IssuerAddress), w.NameOf(v.Transaction.ReceiverAddress), MelStr(v.Transaction.Spice), w.NameOf(v.SignerPublicAddress),
				ev.In, ev.Out, new(big.Int).Sub(new(big.Int).Add(ev.Out, ev.Amount), ev.In))+w.checkpointNote(cur, v.Transaction.IssuerAddress))
		}
	}
	// dropped tips: a vertex that left the live DAG without being checkpointed must have been a tip and must take its index entry with it
	if prev != nil {
		for h, l := range prev.Live {
			if _, still := cur.Live[h]; still {
				continue
			}
			if _, st := cur.Stored[h]; st {
				continue
			}
			w.Res.Count("c01_dropped_tips", 1)
			w.NontrivFor("C01", "dropped-tip/"+op.Kind+"/"+amountClass(l.V.Transaction.Spice.Currency, l.V.Transaction.Spice.SupplementaryCurrency))
			if vh, ok := cur.Index[l.V.Transaction.Hash]; ok && vh == h {
				w.Violate("C01", "dropped-tip-keeps-index-entry", fmt.Sprintf("node %s: tip %s was dropped but its transaction %s is still indexed to it", n.Name, Hex(h), Hex(l.V.Transaction.Hash)))
			}
		}
	}
}

func amountClass(c, s uint64) string {
	cl := func(x uint64, sup bool) string {
		switch {
		case x == 0:
			return "0"
		case x <= 2:
			return "s"
		case sup && x >= E18-2:
			return "e"
		case !sup && x >= ^uint64(0)-2:
			return "M"
		case !sup && x >= 1<<62:
			return "h"
		default:
			return "r"
		}
	}
	return cl(c, false) + cl(s, true)
}

// checkpointNote renders, for a violation report, what the node's checkpoint holds for the address next to the net
// flow of the checkpointed vertices.
func (w *World) checkpointNote(cur *Snap, addr string) string {
	if len(cur.Stored) == 0 {
		return ""
	}
	in, out := Flows(addr, func(yield func(*accountant.Vertex)) {
		for _, sv := range cur.Stored {
			yield(sv)
		}
	})
	have := new(big.Int)
	if m, ok := cur.Funds[addr]; ok {
		have = Val(m)
	}
	return fmt.Sprintf("; checkpoint: %d vertices, funds held for the issuer %s, net flow of the checkpointed vertices %s", len(cur.Stored), have, new(big.Int).Sub(in, out))
}

func (w *World) evalConfirm(n *Node, cur *Snap, v *accountant.Vertex, op OpInfo) *ConfEval {
	ev := &ConfEval{}
	switch {
	case w.isGenesis(v):
		ev.Exempt = "genesis"
		return ev
	case v.Transaction.Spice.Currency == 0 && v.Transaction.Spice.SupplementaryCurrency == 0:
		ev.Exempt = "no-spice"
		return ev
	case cur.Trusted[v.SignerPublicAddress] && n.TrustCfg[v.SignerPublicAddress]:
		// trusted on this node now, i.e. when the vertex was validated (trust changes are operations of their own)
		ev.Exempt = "trusted"
		return ev
	case w.Trusted[v.SignerPublicAddress] && op.Kind == "sync":
		// loaded from a peer that validated it under its own trusted store (the store is not part of the sync)
		ev.Exempt = "trusted-at-the-peer"
		return ev
	}
	anc, complete := w.Hist.Ancestors(v.Hash)
	if !complete {
		ev.Exempt = "incomplete-history"
		return ev
	}
	issuer := v.Transaction.IssuerAddress
	debt := new(big.Int)
	in, out := Flows(issuer, func(yield func(*accountant.Vertex)) {
		seen := map[H]bool{v.Hash: true}
		for a := range anc {
			if seen[a] {
				continue
			}
			seen[a] = true
			if av, ok := w.Hist.Get(a); ok {
				yield(av)
			}
		}
		for sh, sv := range cur.Stored {
			if seen[sh] {
				continue
			}
			seen[sh] = true
			yield(sv)
		}
	})
	if len(cur.Stored) > 0 {
		cin, cout := Flows(issuer, func(yield func(*accountant.Vertex)) {
			for sh, sv := range cur.Stored {
				if sh != v.Hash {
					yield(sv)
				}
			}
		})
		if cin.Cmp(cout) < 0 && issuer != w.GenIss {
			debt = new(big.Int).Sub(cout, cin)
		}
	}
	if d := n.MaxDebt[issuer]; d != nil && d.Cmp(debt) > 0 {
		// overdrawn at an earlier truncation (the clamp raised its funds then), even if later checkpointed inflow
		// made the cumulative net flow positive again
		debt = d
	}
	ev.In, ev.Out, ev.Amount = in, out, Val(v.Transaction.Spice)
	need := new(big.Int).Add(out, ev.Amount)
	// the checkpoint cannot carry a debt: it holds 0 for a wallet whose checkpointed net flow is negative, so the node
	// sees the wallet richer by that debt at most. A shortfall within it is the known consequence of the C02 finding;
	// a larger one is not explained by it.
	if issuer == v.Transaction.ReceiverAddress {
		// a self transfer counts on both sides, exactly as the code accumulates it
		in = new(big.Int).Add(in, ev.Amount)
		ev.In = in
	}
	if debt.Sign() > 0 && new(big.Int).Sub(need, in).Cmp(debt) <= 0 {
		ev.CheckpointOverdrawn = true
	}
	ev.OK = in.Cmp(need) >= 0
	margin := new(big.Int).Sub(in, need)
	ev.Tight = out.Sign() > 0 || margin.Cmp(ev.Amount) < 0
	switch {
	case op.Kind == "sync":
		ev.Path = "loaded"
	default:
		liveParent := false
		for _, p := range distinctParents(v) {
			if _, ok := cur.Live[p]; ok {
				liveParent = true
			}
		}
		if liveParent {
			ev.Path = "validated"
		} else {
			ev.Path = "root-shortcut"
		}
	}
	return ev
}

// SettleParked waits (bounded) until the vertex is visible either parked or live: the retry ticker
// may hold it in flight between the two for a moment.
func (w *World) SettleParked(n *Node, h H) (*Snap, string) {
	for i := 0; i < 200; i++ {
		s, err := TakeSnap(n.Book)
		if err != nil {
			return nil, "error"
		}
		if _, ok := s.Live[h]; ok {
			return s, "live"
		}
		for _, p := range s.Parked {
			if p.Vertex.Hash == h {
				return s, "parked"
			}
		}
		time.Sleep(5 * time.Millisecond)
	}
	s, _ := TakeSnap(n.Book)
	return s, "absent"
}

func bucket(n int) int {
	switch {
	case n <= 3:
		return n
	case n <= 6:
		return 6
	case n <= 12:
		return 12
	case n <= 50:
		return 50
	case n <= 200:
		return 200
	}
	return 1000
}

// EvalFor counts an evaluation for prop if the running check reports prop.
func (w *World) EvalFor(prop string, n int) {
	if w.Report[prop] {
		w.Res.Eval(n)
	}
}

// NontrivFor records a non-trivial case for prop if the running check reports prop.
func (w *World) NontrivFor(prop, key string) {
	if w.Report[prop] {
		w.Res.Nontriv(key)
	}
}
