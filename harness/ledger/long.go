package ledger

import (
	"context"
	"errors"
	"fmt"
	"math/big"
	"os"
	"sort"
	"strings"
	"sync"
	"sync/atomic"
	"time"

	"github.com/bartossh/Computantis/src/accountant"
	"github.com/bartossh/Computantis/src/spice"
)

// LongOpts describes a ledger long enough to be truncated (more than 1000 ancestors below a tip).
type LongOpts struct {
	Nodes       int  // 1 = chain; 2-3 = wide DAG from lagging exchange
	Size        int  // vertices before the first truncation (1001..1400)
	Truncations int  // 1..3
	Between     int  // vertices added between truncations (>= 1001 for a further cut to exist)
	Race        bool // run proposals concurrently with the truncation
	MultiTip    bool // leave several tips at the moment of truncation
	PostOps     int  // hostile operations after the last truncation
	Tag         string
	// Whale: the supply is 2^63 coins and nearly all of it hops through four wallets before anything else happens, so
	// that the flows summed over all wallets of one checkpoint exceed 2^64 while every single wallet stays below it
	Whale bool
	// Interrupt: the first truncation attempt on node 0 is cancelled in the middle of its persisting walk; the
	// truncations that follow are attempted as usual (the code refuses them: recorded, not judged)
	Interrupt bool
}

// grow runs the random driver without snapshotting every operation until node 0 holds `count` more live vertices
// (proposals that fail or tips that are dropped do not count).
func (d *Driver) grow(count int, milestone int) {
	w := d.W
	r := w.R
	liveNow := func() int {
		s, err := TakeSnap(w.Nodes[0].Book)
		if err != nil {
			return 0
		}
		return len(s.Live)
	}
	target := liveNow() + count
	w.Quiet = true
	i := 0
	for i < count*6 {
		i++
		x := r.Float64()
		switch {
		case x < 0.02:
			d.stepForge()
		case x < 0.04:
			d.stepReplay()
		case x < 0.05:
			d.stepTransfer(true)
		default:
			d.stepTransfer(false)
		}
		if d.P.Delivery != "lockstep" {
			for r.Intn(3) != 0 {
				if !d.deliverOne() {
					break
				}
			}
		}
		if i%25 == 0 {
			if d.P.Delivery != "lockstep" {
				d.flushAll()
			}
			if liveNow() >= target {
				break
			}
		}
		if milestone > 0 && i%milestone == 0 {
			w.Quiet = false
			for _, n := range w.Nodes {
				w.Observe(n, OpInfo{Kind: "milestone", OK: true})
			}
			w.Quiet = true
		}
	}
	w.Quiet = false
	d.flushAll()
	for _, n := range w.Nodes {
		w.Observe(n, OpInfo{Kind: "milestone", OK: true})
	}
}

// RunLong builds the ledger, truncates it (through the hook that calls the real truncate) and runs the C07 oracle
// around every truncation; the snapshot oracles (C01 C03 C09 C10) and, at the end, C02 and C06 keep running.
func RunLong(w *World, o LongOpts) error {
	delivery := "lockstep"
	if o.Nodes > 1 {
		delivery = "delayed"
	}
	p := Profile{Name: "long/" + o.Tag, Nodes: o.Nodes, Users: 5, SupplyClass: 0, Delivery: delivery, POverdraft: 0.03, PBoundary: 0.35, PSelf: 0.03, PContract: 0.05}
	if o.Whale {
		p.SupplyClass = 5
	}
	d, err := Setup(w, p)
	if err != nil {
		return err
	}
	if o.Whale {
		from := w.Users[0]
		amount := uint64(1<<63 - 6000)
		for i := 0; i < 4; i++ {
			wh := NewActor(fmt.Sprintf("WH%d", i))
			w.Extra = append(w.Extra, wh)
			w.Keys[wh.Addr] = wh.W.Public
			t := w.NewTrx(from, wh.Addr, spice.Melange{Currency: amount, SupplementaryCurrency: uint64(i)}, nil)
			if _, err := d.proposeOn(w.Nodes[0], &t, "whale hop"); err != nil {
				return fmt.Errorf("whale hop %d refused: %v", i, err)
			}
			d.flushAll()
			from = wh
			amount -= 3
		}
		w.Res.Count("c07_whale_hops", 4)
	}
	var racer *Actor
	if o.Race && o.Size > 400 {
		// the racer is funded first of all, so that its receipt is certainly below any later cut
		racer = NewActor("RC")
		w.Extra = append(w.Extra, racer)
		w.Keys[racer.Addr] = racer.W.Public
		t := w.NewTrx(w.Users[0], racer.Addr, spice.Melange{Currency: 9}, nil)
		d.proposeOn(w.Nodes[0], &t, "fund racer")
		d.flushAll()
	}
	// funding
	for i := 1; i < len(w.Users); i++ {
		t := w.NewTrx(w.Users[0], w.Users[i].Addr, spice.Melange{Currency: 150}, nil)
		d.proposeOn(w.Nodes[0], &t, "fund")
		d.flushAll()
	}
	// the drainer: a wallet outside the random traffic that is funded early (so that the funding is checkpointed by the
	// first truncation) and spends everything right after every truncation (so that a later truncation brings its
	// checkpointed funds to exactly zero), then is funded again
	drainer := NewActor("DR")
	w.Extra = append(w.Extra, drainer)
	w.Keys[drainer.Addr] = drainer.W.Public
	{
		t := w.NewTrx(w.Users[0], drainer.Addr, spice.Melange{Currency: 7, SupplementaryCurrency: E18 / 4}, nil)
		d.proposeOn(w.Nodes[0], &t, "fund drainer")
		d.flushAll()
	}
	if racer != nil {
		// the racer spends everything 300 vertices before the truncation (above the cut); at truncation time it holds
		// nothing, and a tentative overdrawing tip of its own is waiting to be validated
		d.grow(o.Size-300, 250)
		if b, err := w.Nodes[0].Book.CalculateBalance(w.Ctx, racer.Addr); err == nil {
			st := w.NewTrx(racer, w.Users[0].Addr, b.Spice, nil)
			d.proposeOn(w.Nodes[0], &st, "racer spends everything")
			d.flushAll()
		}
		d.grow(300, 250)
	} else {
		d.grow(o.Size, 250)
	}
	var lastDrain H
	for k := 0; k < o.Truncations; k++ {
		if k > 0 {
			d.grow(o.Between, 250)
		}
		if !o.MultiTip {
			// merge to a single tip on every node
			for round := 0; round < 3; round++ {
				for _, n := range w.Nodes {
					t := w.NewTrx(w.Users[0], w.Users[1].Addr, spice.Melange{}, []byte("merge"))
					d.proposeOn(n, &t, "merge")
					d.flushAll()
				}
			}
		} else {
			// a few forged side tips on old parents of node 0
			for i := 0; i < 3; i++ {
				d.stepForge()
			}
		}
		for _, n := range w.Nodes {
			if k > 0 && n.Idx > 0 {
				continue // further truncations only on node 0 (keeps the cost bounded)
			}
			if racer != nil && n.Idx == 0 && k == 0 {
				ot := w.NewTrx(racer, w.Users[1].Addr, spice.Melange{Currency: 9}, nil)
				d.proposeOn(n, &ot, "racer's overdrawing tentative tip")
			}
			if o.Interrupt && k == 0 && n.Idx == 0 {
				// a tentative tip on one of the oldest vertices: whatever happens below the cut, its declared parent must
				// stay live or checkpointed
				if s := n.Prev; s != nil {
					var old H
					var oldW uint64 = ^uint64(0)
					for h, l := range s.Live {
						if l.V.Weight >= 4 && l.V.Weight < oldW {
							old, oldW = h, l.V.Weight
						}
					}
					if oldW != ^uint64(0) {
						st := w.NewTrx(w.Users[0], w.Users[1].Addr, spice.Melange{SupplementaryCurrency: 2}, []byte("side tip"))
						sv := ForgeVertex(w.Sealers[0], st, old, old, oldW+1, w.Now())
						if w.Deliver(n, &sv, "side tip on an old vertex") == nil {
							d.noteSealed(&sv)
						}
					}
				}
				// the walk starts from whichever tip the map iteration yields; from a short side tip nothing happens:
				// repeat until an attempt really was interrupted, and afterwards until an attempt from the main tip ran
				fired := false
				for a := 0; a < 40 && !fired; a++ {
					// cancel while the vertices below the cut are being persisted: after at least one and before the
					// last of them (the walk from the heaviest tip has about live-1000 vertices below its cut)
					below := len(n.Prev.Live) - 1002
					if below < 2 {
						below = 2
					}
					if below > 40 {
						below = 40
					}
					fired = w.TruncateInterrupted(n, d, 1+w.R.Intn(below-1))
				}
				if n.Abandoned {
					return nil
				}
				if fired {
					d.grow(20+w.R.Intn(40), 0)
					for a := 0; a < 30; a++ {
						before := len(n.Prev.Stored)
						w.LastTruncateErr = nil
						w.TruncateChecked(n, d, false)
						if w.LastTruncateErr != nil || len(n.Prev.Stored) > before {
							break
						}
					}
				}
			}
			w.TruncateChecked(n, d, o.Race && n.Idx == 0)
		}
		// drain: the drainer sends everything it holds (as reported by node 0) back, and is re-funded a little later
		if b, err := w.Nodes[0].Book.CalculateBalance(w.Ctx, drainer.Addr); err == nil && (b.Spice.Currency > 0 || b.Spice.SupplementaryCurrency > 0) {
			t := w.NewTrx(drainer, w.Users[0].Addr, b.Spice, nil)
			if dv, err := d.proposeOn(w.Nodes[0], &t, "drainer spends everything"); err == nil {
				lastDrain = dv.Hash
			}
			d.flushAll()
			w.Res.Count("c07_drainer_drained", 1)
		}
		if k+1 < o.Truncations {
			d.grow(40, 0)
			t := w.NewTrx(w.Users[0], drainer.Addr, spice.Melange{Currency: 3}, nil)
			_ = t // funded again only after the next truncation (keeps the checkpoint at exactly zero for it)
		}
	}
	// with repeated truncations the drainer's spend-everything vertex must itself get checkpointed (that is what brings
	// its checkpointed funds to exactly zero): keep growing and truncating node 0 until it is (bounded)
	if o.Truncations > 1 && lastDrain != (H{}) {
		for extra := 0; extra < 3; extra++ {
			if _, ok := w.Nodes[0].Prev.Stored[lastDrain]; ok {
				break
			}
			d.grow(450, 0)
			for round := 0; round < 2; round++ {
				t := w.NewTrx(w.Users[0], w.Users[1].Addr, spice.Melange{}, []byte("merge"))
				d.proposeOn(w.Nodes[0], &t, "merge")
			}
			w.TruncateChecked(w.Nodes[0], d, false)
			w.Res.Count("c07_extra_truncations_until_drain_checkpointed", 1)
			if b, err := w.Nodes[0].Book.CalculateBalance(w.Ctx, drainer.Addr); err == nil && (b.Spice.Currency > 0 || b.Spice.SupplementaryCurrency > 0) {
				t := w.NewTrx(drainer, w.Users[0].Addr, b.Spice, nil)
				d.proposeOn(w.Nodes[0], &t, "drainer spends what it is told it holds")
			}
		}
		if _, ok := w.Nodes[0].Prev.Stored[lastDrain]; ok {
			w.Res.Count("c07_drain_vertex_checkpointed", 1)
		}
	}
	// hostile traffic after the truncation: the snapshot oracles keep watching
	d.P.POverdraft, d.P.PForge, d.P.PReplay, d.P.PRules, d.P.PRetry = 0.3, 0.15, 0.15, 0.05, 0.05
	d.P.Steps = o.PostOps
	d.runBody(false)
	addrs := append(w.AllAddresses(), NewActor("never-seen").Addr)
	for _, n := range w.Nodes {
		w.CheckConservation(n)
		w.CheckBalances(n, addrs)
	}
	w.CheckAgreement(addrs)
	// once more on a single tip (every live vertex is then counted by a balance query): merge the tips of node 0 and let
	// the parked vertices have their retries
	for round := 0; round < 4; round++ {
		t := w.NewTrx(w.Users[0], w.Users[1].Addr, spice.Melange{}, []byte("final merge"))
		d.proposeOn(w.Nodes[0], &t, "final merge")
	}
	for i := 0; i < 60; i++ {
		if ok, _ := w.Retry(w.Nodes[0]); !ok {
			break
		}
	}
	for round := 0; round < 2; round++ {
		t := w.NewTrx(w.Users[0], w.Users[1].Addr, spice.Melange{}, []byte("final merge"))
		d.proposeOn(w.Nodes[0], &t, "final merge")
	}
	w.CheckConservation(w.Nodes[0])
	w.CheckBalances(w.Nodes[0], addrs)
	// every wallet tries to spend one unit more than it owns, and every second one exactly what it owns
	w.OverspendProbes(w.Nodes[0], d)
	if f := os.Getenv("VERIF_DEBUG_LONG"); f != "" && o.Interrupt {
		os.WriteFile(f, []byte(strings.Join(w.TruncLog, "\n")), 0o644)
	}
	return nil
}

type balAns struct {
	ok  bool
	val string
}

// TruncateChecked runs one truncation of node n framed by the C07 oracle.
func (w *World) TruncateChecked(n *Node, d *Driver, race bool) {
	if n.Abandoned {
		return
	}
	before := w.Observe(n, OpInfo{Kind: "milestone", OK: true})
	// the genesis issuer is not a wallet with a balance (its net flow is negative by construction; the code reports
	// an error for it before and 0 after its spend is checkpointed): it is excluded, as in C02
	var addrs []string
	for _, a := range w.AllAddresses() {
		if a != w.GenIss {
			addrs = append(addrs, a)
		}
	}
	single := len(before.Leaves) == 1
	ansBefore := map[string]balAns{}
	if single {
		for _, a := range addrs {
			b, err := n.Book.CalculateBalance(w.Ctx, a)
			ansBefore[a] = balAns{err == nil, MelStr(b.Spice)}
		}
	}
	refBefore := map[string][]TipSum{}
	for _, a := range addrs {
		refBefore[a] = RefTipSums(before, a)
	}

	// truncation writes its badger backup in to the working directory: run it in the scratch directory of the worker
	var wg sync.WaitGroup
	raced := 0
	var racedVs []accountant.Vertex
	raceStart := make(chan struct{})
	if race {
		var mu sync.Mutex
		for g := 0; g < 6; g++ {
			wg.Add(1)
			g := g
			go func() {
				defer wg.Done()
				// arrive while the truncation is under way (not before it took its lock)
				<-raceStart
				time.Sleep(time.Duration(300+200*g) * time.Microsecond)
				for i := 0; i < 4; i++ {
					t := ForgeTrx(w.Users[0], w.Users[1+g%3].Addr, fmt.Sprintf("race-%d-%d-%d", len(w.Trace), g, i), nil, spice.Melange{SupplementaryCurrency: uint64(1 + i)}, w.clock.Add(-1))
					v, err := n.Book.CreateLeaf(w.Ctx, &t)
					if err == nil {
						w.Hist.Add(&v)
						mu.Lock()
						raced++
						racedVs = append(racedVs, v)
						mu.Unlock()
					}
				}
			}()
		}
	}
	close(raceStart)
	// clients keep asking for balances while the truncation runs (no writer is active then): every answer, whether it
	// was computed before, during or after the cut, must be the answer given before the truncation
	type badAns struct {
		addr           string
		got            balAns
		phase0, phase1 int32 // truncation phase (0 not started, 1 running, 2 returned) when the query was sent / answered
	}
	var phase atomic.Int32
	var readers sync.WaitGroup
	var stopReaders atomic.Bool
	var readerAnswers, readersReady atomic.Int64
	var badMu sync.Mutex
	var bad []badAns
	watch := []string{}
	if single && !race {
		for _, a := range addrs {
			if !n.Tainted[a] {
				watch = append(watch, a)
			}
		}
	}
	if len(watch) > 0 {
		for g := 0; g < 4; g++ {
			readers.Add(1)
			g := g
			go func() {
				defer readers.Done()
				for i := g; !stopReaders.Load() && i < 1<<20; i++ {
					a := watch[i%len(watch)]
					p0 := phase.Load()
					b, err := n.Book.CalculateBalance(w.Ctx, a)
					p1 := phase.Load()
					got := balAns{err == nil, MelStr(b.Spice)}
					readerAnswers.Add(1)
					if i == g {
						readersReady.Add(1)
					}
					if got != ansBefore[a] {
						badMu.Lock()
						if len(bad) < 8 {
							bad = append(bad, badAns{a, got, p0, p1})
						}
						badMu.Unlock()
					}
				}
			}()
		}
		for k := 0; k < 2000 && readersReady.Load() < 4; k++ {
			time.Sleep(time.Millisecond)
		}
	}
	phase.Store(1)
	err := n.Book.VerifTruncate(w.Ctx)
	phase.Store(2)
	w.LastTruncateErr = err
	wg.Wait()
	stopReaders.Store(true)
	readers.Wait()
	w.Res.Count("c07_balance_answers_during_truncation", int(readerAnswers.Load()))
	w.TruncatedOnce = true
	for i := range racedVs {
		d.noteSealed(&racedVs[i])
		d.enqueue(n, &racedVs[i])
	}
	w.Logf("%s.truncate (live %d, stored %d, tips %d, raced proposals %d) => %v", n.Name, len(before.Live), len(before.Stored), len(before.Leaves), raced, errStr(err))
	w.TruncLog = append(w.TruncLog, fmt.Sprintf("truncate live=%d stored=%d tips=%d err=%v", len(before.Live), len(before.Stored), len(before.Leaves), errStr(err)))
	after := w.Observe(n, OpInfo{Kind: "truncate", OK: err == nil, Err: err, Concurrent: race})
	w.EvalFor("C07", 1)
	w.Res.Count("c07_truncations", 1)
	if err != nil {
		// truncation needs a tip with at least 1000 ancestors; when the tip it picked has fewer it reports an error and changes nothing
		short := false
		for t := range before.Leaves {
			if len(liveAncestors(before, t)) <= 1000 {
				short = true
			}
		}
		if short {
			w.Res.Count("c07_truncations_on_too_short_ledger", 1)
			if before.Digest() != after.Digest() && !race && !n.BackgroundMayAct(before) && !n.BackgroundMayAct(after) {
				w.Violate("C07", "failed-truncate-changed-ledger", fmt.Sprintf("node %s: truncation failed (%v) but changed the ledger", n.Name, err))
			}
			return
		}
		if n.Interrupted {
			// after an interrupted truncation the code refuses every further one (a vertex it wants to store is in the
			// storage already): recorded in DESIGN.md 5.4, not judged; a refused truncation must still change nothing
			// but the storage copies
			w.Res.Count("c07_truncations_refused_after_an_interrupted_one", 1)
			w.checkInterruptedState(n, before, after, "refused truncation after an interrupted one")
			return
		}
		w.Violate("C07", "truncate-failed", fmt.Sprintf("node %s: truncation of a ledger with %d live vertices failed: %v", n.Name, len(before.Live), err))
		return
	}
	moved := 0
	for h := range after.Stored {
		if _, was := before.Stored[h]; !was {
			moved++
		}
	}
	w.Res.Count("c07_vertices_checkpointed", moved)
	{
		var tipW, rootW uint64
		for t := range after.Leaves {
			if after.Live[t].V.Weight > tipW {
				tipW = after.Live[t].V.Weight
			}
		}
		rootW = ^uint64(0)
		for h, l := range after.Live {
			_ = h
			live := false
			for _, p := range distinctParents(&l.V) {
				if _, ok := after.Live[p]; ok {
					live = true
				}
			}
			if !live && l.V.Weight < rootW {
				rootW = l.V.Weight
			}
		}
		w.Logf("  truncation moved %d vertices; live before %d after %d; tip weight %d, lowest new root weight %d", moved, len(before.Live), len(after.Live), tipW, rootW)
	}
	if moved == 0 {
		w.Res.Count("c07_truncations_that_moved_nothing", 1)
	}
	movedSet := map[H]bool{}
	for h := range after.Stored {
		if _, was := before.Stored[h]; !was {
			movedSet[h] = true
		}
	}
	w.NontrivFor("C07", fmt.Sprintf("truncate/nodes%d/tips%d/live%d/storedBefore=%v/moved%d/race=%v", len(w.Nodes), bucket(len(before.Leaves)), bucket(len(before.Live)), len(before.Stored) > 0, bucket(moved), race))

	// (5) containment: nothing is lost, nothing is both live and stored
	for h, v := range before.Stored {
		sv, ok := after.Stored[h]
		if !ok {
			w.Violate("C07", "checkpointed-vertex-lost", fmt.Sprintf("node %s: vertex %s was checkpointed before the truncation and is gone after it", n.Name, Hex(h)))
		} else if Fingerprint(sv) != Fingerprint(v) {
			w.Violate("C07", "checkpointed-vertex-changed", fmt.Sprintf("node %s: checkpointed vertex %s changed", n.Name, Hex(h)))
		}
	}
	for h := range before.Live {
		_, live := after.Live[h]
		_, st := after.Stored[h]
		if !live && !st && before.Leaves[h] && race {
			continue // a tentative tip dropped as invalid by a proposal that raced with the truncation
		}
		if !live && !st {
			w.Violate("C07", "vertex-lost", fmt.Sprintf("node %s: vertex %s left the live DAG during truncation without being checkpointed", n.Name, Hex(h)))
		}
		if live && after.Dup[h] && !n.Interrupted {
			w.Violate("C07", "vertex-live-and-checkpointed", fmt.Sprintf("node %s: vertex %s is both live and checkpointed after truncation", n.Name, Hex(h)))
		}
	}

	// (4) checkpoint funds = net flow of exactly the stored vertices
	w.checkStoredFunds(n, after)

	// (1) balances unchanged
	for _, a := range addrs {
		if n.Tainted[a] {
			continue
		}
		rb := refBefore[a]
		ra := RefTipSums(after, a)
		am := map[H]TipSum{}
		for _, ts := range ra {
			am[ts.Tip] = ts
		}
		for _, tb := range rb {
			ta, ok := am[tb.Tip]
			if !ok {
				continue // tip gone (dropped by a racing proposal)
			}
			if ta.Sum.Cmp(tb.Sum) != 0 {
				// a tip whose own history contains everything that was moved must see exactly the same funds;
				// a side tip that does not descend from the cut sees the whole checkpoint afterwards
				sig := "balance-changed"
				anc, _ := w.Hist.Ancestors(tb.Tip)
				for m := range movedSet {
					if !anc[m] {
						sig = "balance-changed/side-tip"
						break
					}
				}
				w.Violate("C07", sig, fmt.Sprintf("node %s: balance of %s over tip %s was %s before the truncation and is %s after it", n.Name, w.NameOf(a), Hex(tb.Tip), tb.Sum, ta.Sum))
			}
		}
	}
	for _, ba := range bad {
		// (the ledger is known unchanged: this branch is reached only after a successful truncation without racing writers)
		if n.BackgroundMayAct(before) || n.BackgroundMayAct(after) {
			break
		}
		if n.Tainted[ba.addr] {
			// this very truncation checkpointed a negative net flow for the wallet (cross-branch overdraw, the C02
			// known finding; checkStoredFunds above has just marked it): its balance is not judged, as below
			continue
		}
		nb, nerr := n.Book.CalculateBalance(w.Ctx, ba.addr)
		when := fmt.Sprintf("query sent in truncation phase %d, answered in phase %d (0 = not started, 1 = running, 2 = returned); asked again now: %+v", ba.phase0, ba.phase1, balAns{nerr == nil, MelStr(nb.Spice)})
		w.Violate("C07", "reported-balance-changed/during-truncation", fmt.Sprintf("node %s: CalculateBalance(%s) answered %+v before the truncation and %+v to a client that asked while the truncation was running; %s", n.Name, w.NameOf(ba.addr), ansBefore[ba.addr], ba.got, when))
		w.Violate("C06", "balance-answer-differs/during-truncation", fmt.Sprintf("node %s: a client that asked for the balance of %s while a truncation was running was told %+v; checkpointed funds + received - sent over the tip is %+v; %s", n.Name, w.NameOf(ba.addr), ba.got, ansBefore[ba.addr], when))
	}
	if single && !race {
		for _, a := range addrs {
			if n.Tainted[a] {
				continue
			}
			b, err := n.Book.CalculateBalance(w.Ctx, a)
			now := balAns{err == nil, MelStr(b.Spice)}
			if now != ansBefore[a] {
				w.Violate("C07", "reported-balance-changed", fmt.Sprintf("node %s: CalculateBalance(%s) answered %+v before the truncation and %+v after it", n.Name, w.NameOf(a), ansBefore[a], now))
			}
			w.Res.Count("c07_balance_comparisons", 1)
		}
	}

	// (2) every vertex and transaction that was confirmed when the truncation started (a vertex whose only child was
	// dropped as invalid earlier is tentative again and may itself be dropped) stays retrievable with identical content
	checked := 0
	var heldGot, heldRef *accountant.Vertex
	lookups := before.Confirmed()
	for h := range before.Stored {
		lookups[h] = true
	}
	for h := range lookups {
		ref, ok := w.Hist.Get(h)
		if !ok {
			continue
		}
		got, err := n.Book.ReadVertex(w.Ctx, h)
		if err != nil {
			w.Violate("C07", "confirmed-vertex-not-retrievable", fmt.Sprintf("node %s: confirmed vertex %s cannot be read by hash after truncation: %v", n.Name, Hex(h), err))
			continue
		}
		// the result of the previous lookup must not be changed by this one (results may be used while others are read)
		if heldGot != nil && Fingerprint(heldGot) != Fingerprint(heldRef) {
			w.Violate("C07", "retrieved-vertex-changed-by-a-later-read", fmt.Sprintf("node %s: vertex %s was read back intact, but its content changed after the next vertex was read by hash (%s)", n.Name, Hex(heldRef.Hash), diffVertex(heldRef, heldGot)))
		}
		gc := got
		heldGot, heldRef = &gc, ref
		if Fingerprint(&got) != Fingerprint(ref) {
			w.Violate("C07", "retrieved-vertex-differs", fmt.Sprintf("node %s: vertex %s read by hash differs from the original (%s)", n.Name, Hex(h), diffVertex(ref, &got)))
		} else if why := w.verified(n, &got); why != "" {
			w.Violate("C07", "retrieved-vertex-differs", fmt.Sprintf("node %s: vertex %s read by hash no longer verifies: %s", n.Name, Hex(h), why))
		}
		trx, err := n.Book.ReadTransactionByHash(w.Ctx, ref.Transaction.Hash)
		if err != nil {
			w.Violate("C07", "confirmed-transaction-not-retrievable", fmt.Sprintf("node %s: transaction %s of confirmed vertex %s cannot be read after truncation: %v", n.Name, Hex(ref.Transaction.Hash), Hex(h), err))
		} else {
			tv := *ref
			tv.Transaction = trx
			if Fingerprint(&tv) != Fingerprint(ref) {
				w.Violate("C07", "retrieved-transaction-differs", fmt.Sprintf("node %s: transaction %s read by hash differs from the original", n.Name, Hex(ref.Transaction.Hash)))
			}
		}
		checked++
	}
	w.Res.Count("c07_lookups_checked", checked)
	w.EvalFor("C07", checked)

	// (3) re-offering checkpointed vertices and transactions is refused and changes nothing
	var stored []H
	for h := range after.Stored {
		stored = append(stored, h)
	}
	sortH(stored)
	w.R.Shuffle(len(stored), func(i, j int) { stored[i], stored[j] = stored[j], stored[i] })
	if len(stored) > 12 {
		stored = stored[:12]
	}
	for i, h := range stored {
		v := after.Stored[h]
		prevSnap := n.Prev
		dg := prevSnap.Digest()
		var err error
		kind := i % 3
		switch kind {
		case 0:
			err = w.Deliver(n, v, "re-offer checkpointed vertex")
		case 1:
			t := v.Transaction
			var nv accountant.Vertex
			nv, err = w.Propose(n, &t, "re-propose checkpointed transaction")
			if err == nil {
				d.noteSealed(&nv)
			}
		default:
			l, rr, wgt, ok := d.pickParents(n)
			if !ok {
				continue
			}
			sealer := w.Sealers[i%len(w.Sealers)]
			if sealer.Addr == v.Transaction.IssuerAddress {
				continue
			}
			nv := ForgeVertex(sealer, v.Transaction, l, rr, wgt, w.Now())
			err = w.Deliver(n, &nv, "checkpointed transaction re-wrapped")
			if err == nil {
				d.noteSealed(&nv)
			}
		}
		w.EvalFor("C07", 1)
		w.Res.Count("c07_reoffers", 1)
		w.NontrivFor("C07", fmt.Sprintf("reoffer/kind%d/refused=%v/truncations%d", kind, err != nil, w.Res.Counters["c07_truncations"]%4))
		if err == nil {
			w.Violate("C07", fmt.Sprintf("checkpointed-resubmission-accepted/kind%d", kind), fmt.Sprintf("node %s: re-submission (kind %d) of checkpointed vertex/transaction %s was accepted", n.Name, kind, Hex(h)))
		} else if kind != 1 && !n.BackgroundMayAct(prevSnap) && !n.BackgroundMayAct(n.Prev) && n.Prev.Digest() != dg {
			// (a refused proposal may legitimately drop an invalid tip; a refused delivery changes nothing)
			w.Violate("C07", "refused-resubmission-changed-ledger", fmt.Sprintf("node %s: refused re-submission of %s changed the ledger: %s", n.Name, Hex(h), DigestDiff(prevSnap, n.Prev)))
		}
	}
}

// checkStoredFunds: the checkpointed funds of every address equal the net flow of exactly the stored vertices.
func (w *World) checkStoredFunds(n *Node, s *Snap) {
	type flow struct{ in, out *big.Int }
	flows := map[string]*flow{}
	get := func(a string) *flow {
		if flows[a] == nil {
			flows[a] = &flow{new(big.Int), new(big.Int)}
		}
		return flows[a]
	}
	for _, v := range s.Stored {
		t := &v.Transaction
		if t.Spice.Currency == 0 && t.Spice.SupplementaryCurrency == 0 {
			continue
		}
		get(t.IssuerAddress).out.Add(get(t.IssuerAddress).out, Val(t.Spice))
		get(t.ReceiverAddress).in.Add(get(t.ReceiverAddress).in, Val(t.Spice))
	}
	addrs := map[string]bool{}
	for a := range flows {
		addrs[a] = true
	}
	for a := range s.Funds {
		addrs[a] = true
	}
	var list []string
	for a := range addrs {
		list = append(list, a)
	}
	sort.Strings(list)
	for _, a := range list {
		if a == w.GenIss {
			continue
		}
		f := get(a)
		net := new(big.Int).Sub(f.in, f.out)
		w.Res.Count("c07_checkpoint_funds_checked", 1)
		w.NontrivFor("C07", fmt.Sprintf("funds/in=%v/out=%v/net0=%v/extra=%v", f.in.Sign() > 0, f.out.Sign() > 0, net.Sign() == 0, isExtra(w, a)))
		if f.in.Cmp(MaxVal) > 0 || f.out.Cmp(MaxVal) > 0 {
			// the flows of this wallet, summed over the checkpointed vertices, do not fit the 64+64 bit amount although
			// its balance does: the code's running sums refuse the addition and go on (known finding); the address is not
			// judged on this node from now on
			have := new(big.Int)
			if m, ok := s.Funds[a]; ok {
				have = Val(m)
			}
			if have.Cmp(net) != 0 && !n.Tainted[a] {
				w.Violate("C07", "checkpoint-funds-differ/gross-flow-beyond-2^64", fmt.Sprintf("node %s: checkpointed funds of %s are %s, the net flow of the %d checkpointed vertices is %s (in %s, out %s: the inflow alone exceeds 2^64-1 units)", n.Name, w.NameOf(a), have, len(s.Stored), net, f.in, f.out))
			}
			n.Tainted[a] = true
			continue
		}
		if net.Sign() < 0 {
			// only reachable through the C02 cross-branch finding (a wallet overdrawn over merged branches): the code
			// then stores the inflow alone; the address is not judged on this node from now on
			w.Res.Count("c07_checkpoint_funds_indeterminate", 1)
			n.Tainted[a] = true
			if d := new(big.Int).Neg(net); n.MaxDebt[a] == nil || n.MaxDebt[a].Cmp(d) < 0 {
				n.MaxDebt[a] = d
			}
			continue
		}
		if n.Tainted[a] {
			continue
		}
		have := new(big.Int)
		if m, ok := s.Funds[a]; ok {
			have = Val(m)
		}
		if have.Cmp(net) != 0 {
			w.Violate("C07", "checkpoint-funds-differ-from-net-flow", fmt.Sprintf("node %s: checkpointed funds of %s are %s, the net flow of the %d checkpointed vertices is %s (in %s, out %s)", n.Name, w.NameOf(a), have, len(s.Stored), net, f.in, f.out))
		}
	}
}

func diffVertex(a, b *accountant.Vertex) string {
	var d []string
	if a.SignerPublicAddress != b.SignerPublicAddress {
		d = append(d, "sealer")
	}
	if a.CreatedAt.UnixNano() != b.CreatedAt.UnixNano() {
		d = append(d, "created_at")
	}
	if string(a.Signature) != string(b.Signature) {
		d = append(d, "signature")
	}
	if a.Hash != b.Hash || a.LeftParentHash != b.LeftParentHash || a.RightParentHash != b.RightParentHash {
		d = append(d, "hashes")
	}
	if a.Weight != b.Weight {
		d = append(d, "weight")
	}
	ta, tb := &a.Transaction, &b.Transaction
	if ta.CreatedAt.UnixNano() != tb.CreatedAt.UnixNano() {
		d = append(d, "trx.created_at")
	}
	if ta.IssuerAddress != tb.IssuerAddress || ta.ReceiverAddress != tb.ReceiverAddress {
		d = append(d, "trx.addresses")
	}
	if ta.Subject != tb.Subject || string(ta.Data) != string(tb.Data) {
		d = append(d, "trx.subject/data")
	}
	if string(ta.IssuerSignature) != string(tb.IssuerSignature) || string(ta.ReceiverSignature) != string(tb.ReceiverSignature) {
		d = append(d, "trx.signatures")
	}
	if ta.Spice != tb.Spice {
		d = append(d, "trx.spice")
	}
	return fmt.Sprint(d)
}

var errNotLong = errors.New("ledger not long enough")

func isExtra(w *World, addr string) bool {
	for _, e := range w.Extra {
		if e.Addr == addr {
			return true
		}
	}
	return false
}

// stateCtx is a context that reports cancellation once the vertices storage of the book holds at least `until`
// vertices. The ledger looks at ctx.Done() once per visited ancestor; the storage is consulted through a hook that
// does not take the ledger lock (the truncation under way holds it).
type stateCtx struct {
	context.Context
	book   *accountant.AccountingBook
	until  int
	fired  atomic.Bool
	closed chan struct{}
	open   chan struct{}
}

func (c *stateCtx) Done() <-chan struct{} {
	if c.fired.Load() {
		return c.closed
	}
	if c.book.VerifStoredCount() >= c.until {
		c.fired.Store(true)
		return c.closed
	}
	return c.open
}

func (c *stateCtx) Err() error {
	if c.fired.Load() {
		return context.Canceled
	}
	return nil
}

// TruncateInterrupted runs the real truncation with a context that is cancelled as soon as m more vertices have been
// written to the storage, i.e. in the middle of the persisting walk. The interrupted truncation must be transparent
// like a completed one: nothing lost, balances and checkpoint funds unchanged. Returns whether it was interrupted.
func (w *World) TruncateInterrupted(n *Node, d *Driver, m int) bool {
	before := w.Observe(n, OpInfo{Kind: "milestone", OK: true})
	base := n.Book.VerifStoredCount()
	c := &stateCtx{Context: context.Background(), book: n.Book, until: base + m, closed: make(chan struct{}), open: make(chan struct{})}
	close(c.closed)
	n.Interrupted = true
	err := n.Book.VerifTruncate(c)
	w.Logf("%s.truncate interrupted after %d stored vertices (live %d, stored %d) => %v", n.Name, m, len(before.Live), len(before.Stored), errStr(err))
	w.TruncLog = append(w.TruncLog, fmt.Sprintf("interrupt attempt m=%d live=%d stored=%d tips=%d fired=%v err=%v", m, len(before.Live), len(before.Stored), len(before.Leaves), c.fired.Load(), errStr(err)))
	after := w.Observe(n, OpInfo{Kind: "truncate", OK: err == nil, Err: err})
	w.EvalFor("C07", 1)
	w.Res.Count("c07_interrupted_truncation_attempts", 1)
	if !c.fired.Load() {
		// fewer than m vertices were below the cut: the truncation ran to completion
		n.Interrupted = len(after.Dup) > 0
		w.Res.Count("c07_interrupted_truncation_attempts_that_completed", 1)
		return false
	}
	w.NontrivFor("C07", fmt.Sprintf("interrupted/after%d/dups%d/err=%v", bucket(m), bucket(len(after.Dup)), err != nil))
	if fmt.Sprint(before.Funds) != fmt.Sprint(after.Funds) {
		// m was exactly the number of vertices below the cut: the cancellation was noticed only in the cutting walk, after
		// the funds had been written. Everything below the cut is counted twice from now on (DESIGN 5.4, outside the
		// quantifiers: in the shipped code this context ends with the process).
		n.Abandoned = true
		w.Res.Count("c07_interruptions_noticed_after_the_funds_were_written", 1)
		w.Logf("%s is not judged any further: the interruption landed between writing the funds and cutting the vertices", n.Name)
		return true
	}
	w.checkInterruptedState(n, before, after, fmt.Sprintf("truncation interrupted after %d vertices were persisted", m))
	return true
}

// checkInterruptedState: around a truncation that did not complete nothing observable may change: every vertex is
// still there with the same content, the graph is the same, the checkpoint funds and every balance are the same.
func (w *World) checkInterruptedState(n *Node, before, after *Snap, what string) {
	for h, l := range before.Live {
		a, ok := after.Live[h]
		if !ok {
			if sv, st := after.Stored[h]; st && Fingerprint(sv) == Fingerprint(&l.V) {
				continue // checkpointed after all
			}
			w.Violate("C07", "vertex-lost", fmt.Sprintf("node %s: %s: vertex %s left the live DAG without being checkpointed", n.Name, what, Hex(h)))
			continue
		}
		if Fingerprint(&a.V) != Fingerprint(&l.V) {
			w.Violate("C07", "vertex-changed", fmt.Sprintf("node %s: %s: live vertex %s changed", n.Name, what, Hex(h)))
		}
	}
	for h, v := range before.Stored {
		sv, ok := after.Stored[h]
		if !ok {
			w.Violate("C07", "checkpointed-vertex-lost", fmt.Sprintf("node %s: %s: vertex %s was checkpointed before and is gone", n.Name, what, Hex(h)))
		} else if Fingerprint(sv) != Fingerprint(v) {
			w.Violate("C07", "checkpointed-vertex-changed", fmt.Sprintf("node %s: %s: checkpointed vertex %s changed", n.Name, what, Hex(h)))
		}
	}
	w.checkStoredFunds(n, after)
	var addrs []string
	for _, a := range w.AllAddresses() {
		if a != w.GenIss && !n.Tainted[a] {
			addrs = append(addrs, a)
		}
	}
	for _, a := range addrs {
		rb, ra := RefTipSums(before, a), RefTipSums(after, a)
		if len(before.Leaves) == len(after.Leaves) && fmt.Sprint(rb) != fmt.Sprint(ra) {
			w.Violate("C07", "balance-changed/interrupted", fmt.Sprintf("node %s: %s: the per-tip balances of %s changed from %v to %v", n.Name, what, w.NameOf(a), rb, ra))
		}
		w.Res.Count("c07_balances_compared", 1)
	}
}
