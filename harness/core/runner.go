package core

import (
	"bytes"
	"fmt"
	"os"
	"os/exec"
	"path/filepath"
	"regexp"
	"runtime/debug"
	"runtime/pprof"
	"strconv"
	"strings"
	"sync"
	"syscall"
	"time"
)

// Plan says how a check is split in to worker processes.
type Plan struct {
	Batches  int
	Parallel int
	Timeout  time.Duration // per worker, generous watchdog; firing is inconclusive unless OnCrash decides otherwise
	Env      []string
}

// WorkerCtx is handed to the worker function of a check.
type WorkerCtx struct {
	Prop    string
	Tier    string
	Seed    int64
	Batch   int
	Batches int
	R       *Result
	Scratch string // working directory of the worker, removed by the parent
	journal *os.File
}

// Mark journals what the worker is about to do, unbuffered, so that the parent can attribute a crash.
func (w *WorkerCtx) Mark(format string, a ...any) {
	if w.journal == nil {
		return
	}
	s := fmt.Sprintf(format, a...)
	if len(s) > 4000 {
		s = s[:4000]
	}
	w.journal.WriteString(s + "\n")
}

func (w *WorkerCtx) Thorough() bool { return w.Tier == "thorough" }

// Pick returns q in quick tier and t in thorough tier.
func (w *WorkerCtx) Pick(q, t int) int {
	if w.Thorough() {
		return t
	}
	return q
}

// Crash describes an abnormal worker end.
type Crash struct {
	Batch    int
	TimedOut bool
	ExitCode int
	Stderr   string // tail of stderr (goroutine dump when timed out)
	LastMark string
	Marks    []string
}

// Check is one property check.
type Check struct {
	Spec    Spec
	Plan    func(tier string) Plan
	Worker  func(w *WorkerCtx)
	OnCrash func(c Crash, res *Result) // nil: a panic inside the code under test is a violation (crash/<frame>), any other abnormal end is inconclusive
	// PostBatch, when set, inspects the working directory of a finished worker (e.g. sanitizer logs) before it is removed.
	// ExitOK lists worker exit codes that are not crashes (e.g. 66: the race detector's exit code).
	PostBatch func(batch int, dir string, res *Result)
	ExitOK    []int
}

var Registry = map[string]*Check{}

func Register(c *Check) { Registry[c.Spec.Prop] = c }

func SeedFromEnv() int64 {
	if s := os.Getenv("VERIF_SEED"); s != "" {
		if v, err := strconv.ParseInt(s, 10, 64); err == nil {
			return v
		}
	}
	return 1
}

// RunParent runs all batches of the check in child processes and concludes.
func RunParent(c *Check, tier string, seed int64) int {
	started := time.Now()
	plan := c.Plan(tier)
	if plan.Batches < 1 {
		plan.Batches = 1
	}
	if plan.Parallel < 1 {
		plan.Parallel = 1
	}
	if plan.Timeout == 0 {
		plan.Timeout = 10 * time.Minute
	}
	root, err := os.MkdirTemp("", "verif-"+c.Spec.Prop+"-")
	if err != nil {
		fmt.Printf("INCONCLUSIVE property=%s reason=cannot create scratch dir: %v\n", c.Spec.Prop, err)
		return 2
	}
	defer os.RemoveAll(root)

	total := NewResult()
	var mu sync.Mutex
	sem := make(chan struct{}, plan.Parallel)
	var wg sync.WaitGroup
	for b := 0; b < plan.Batches; b++ {
		wg.Add(1)
		sem <- struct{}{}
		go func(b int) {
			defer wg.Done()
			defer func() { <-sem }()
			dir := filepath.Join(root, fmt.Sprintf("b%03d", b))
			os.MkdirAll(dir, 0o755)
			out := filepath.Join(dir, "result.json")
			jr := filepath.Join(dir, "journal.txt")
			stderrPath := filepath.Join(dir, "stderr.txt")
			ef, _ := os.Create(stderrPath)
			cmd := exec.Command(os.Args[0], "worker", c.Spec.Prop, "--tier", tier, "--seed", fmt.Sprint(seed),
				"--batch", fmt.Sprint(b), "--batches", fmt.Sprint(plan.Batches), "--out", out, "--journal", jr)
			cmd.Dir = dir
			cmd.Stdout = ef
			cmd.Stderr = ef
			cmd.Env = append(os.Environ(), plan.Env...)
			cmd.SysProcAttr = &syscall.SysProcAttr{Setpgid: true}
			timedOut := false
			if err := cmd.Start(); err != nil {
				mu.Lock()
				total.Inconc(fmt.Sprintf("batch %d: cannot start worker: %v", b, err))
				mu.Unlock()
				return
			}
			done := make(chan error, 1)
			go func() { done <- cmd.Wait() }()
			var werr error
			select {
			case werr = <-done:
			case <-time.After(plan.Timeout):
				timedOut = true
				cmd.Process.Signal(syscall.SIGQUIT) // goroutine dump in to stderr file
				select {
				case werr = <-done:
				case <-time.After(20 * time.Second):
					syscall.Kill(-cmd.Process.Pid, syscall.SIGKILL)
					werr = <-done
				}
			}
			ef.Close()
			res, lerr := LoadResult(out)
			mu.Lock()
			defer mu.Unlock()
			if c.PostBatch != nil {
				c.PostBatch(b, dir, total)
			}
			if ee, ok := werr.(*exec.ExitError); ok && lerr == nil && !timedOut {
				for _, code := range c.ExitOK {
					if ee.ExitCode() == code {
						werr = nil
					}
				}
			}
			if werr == nil && lerr == nil && !timedOut {
				total.Merge(res, 12)
				return
			}
			// abnormal end
			if lerr == nil {
				// partial results are never written; a result file with a failing exit means late crash
				total.Merge(res, 12)
			}
			cr := Crash{Batch: b, TimedOut: timedOut, Stderr: tailFile(stderrPath, 200_000)}
			if ee, ok := werr.(*exec.ExitError); ok {
				cr.ExitCode = ee.ExitCode()
			}
			if jb, err := os.ReadFile(jr); err == nil {
				lines := strings.Split(strings.TrimSpace(string(jb)), "\n")
				cr.Marks = lines
				if len(lines) > 0 {
					cr.LastMark = lines[len(lines)-1]
				}
				if len(cr.Marks) > 20 {
					cr.Marks = cr.Marks[len(cr.Marks)-20:]
				}
			}
			if c.OnCrash != nil {
				c.OnCrash(cr, total)
			} else {
				// default: a panic raised by the code under test is a violation, everything else is inconclusive
				RepoCrashIsViolation(c.Spec.Prop)(cr, total)
			}
			// keep the crash output for inspection
			keep := filepath.Join(VerifDir, "replays", c.Spec.Prop)
			os.MkdirAll(keep, 0o755)
			os.WriteFile(filepath.Join(keep, fmt.Sprintf("crash-batch%03d-seed%d.txt", b, seed)),
				[]byte("last marks:\n"+strings.Join(cr.Marks, "\n")+"\n\nstderr tail:\n"+lastN(cr.Stderr, 60_000)), 0o644)
		}(b)
	}
	wg.Wait()
	total.Count("worker_batches", plan.Batches)
	return Conclude(c.Spec, tier, seed, total, started)
}

// RunWorker executes one batch in this process.
func RunWorker(c *Check, tier string, seed int64, batch, batches int, out, journal string) int {
	w := &WorkerCtx{Prop: c.Spec.Prop, Tier: tier, Seed: seed, Batch: batch, Batches: batches, R: NewResult()}
	w.Scratch, _ = os.Getwd()
	if journal != "" {
		w.journal, _ = os.OpenFile(journal, os.O_CREATE|os.O_WRONLY|os.O_APPEND, 0o644)
	}
	// every ledger node costs ~250 MB while open and its closed stores stay referenced by the node's own
	// five-minute ticker goroutines: collect eagerly so that the parallel workers stay small
	debug.SetGCPercent(40)
	debug.SetMemoryLimit(5 << 30)
	if hp := os.Getenv("VERIF_HEAPPROF"); hp != "" {
		// debugging aid: heap profile of the worker every 5 s (last one wins)
		go func() {
			for {
				time.Sleep(5 * time.Second)
				if f, err := os.Create(hp); err == nil {
					pprof.WriteHeapProfile(f)
					f.Close()
				}
				if f, err := os.Create(hp + ".goroutines"); err == nil {
					pprof.Lookup("goroutine").WriteTo(f, 1)
					f.Close()
				}
			}
		}()
	}
	c.Worker(w)
	if err := w.R.Save(out); err != nil {
		fmt.Fprintln(os.Stderr, "cannot save result:", err)
		return 3
	}
	return 0
}

func tailFile(path string, n int) string {
	b, err := os.ReadFile(path)
	if err != nil {
		return ""
	}
	// for panics the interesting part is the first trace, for dumps everything; keep head and tail
	if len(b) <= n {
		return string(b)
	}
	idx := bytes.Index(b, []byte("panic:"))
	if idx < 0 {
		idx = bytes.Index(b, []byte("fatal error:"))
	}
	if idx < 0 {
		idx = bytes.Index(b, []byte("SIGQUIT"))
	}
	if idx >= 0 {
		end := idx + n
		if end > len(b) {
			end = len(b)
		}
		return string(b[idx:end])
	}
	return string(b[len(b)-n:])
}

func lastN(s string, n int) string {
	if len(s) <= n {
		return s
	}
	return s[:n]
}

var reRepoFrame = regexp.MustCompile(`github\.com/bartossh/Computantis/src/([^\s(]+(?:\([^)]*\))?[^\s(]*)`)

// CrashHeadline extracts "panic: ... @ first repo frame" from a Go crash output.
func CrashHeadline(stderr string) string {
	idx := strings.Index(stderr, "panic:")
	if idx < 0 {
		idx = strings.Index(stderr, "fatal error:")
	}
	if idx < 0 {
		if strings.Contains(stderr, "SIGQUIT") {
			return "SIGQUIT dump"
		}
		return "no panic text"
	}
	rest := stderr[idx:]
	line := rest
	if nl := strings.Index(rest, "\n"); nl >= 0 {
		line = rest[:nl]
	}
	frame := ""
	// first repo frame after the goroutine header that follows
	if m := reRepoFrame.FindStringSubmatch(rest); m != nil {
		frame = m[1]
	}
	return strings.TrimSpace(line) + " @ " + frame
}

// TopRepoFrame returns the first frame of the repository in a crash output, without arguments.
func TopRepoFrame(stderr string) string {
	idx := strings.Index(stderr, "panic:")
	if idx < 0 {
		idx = strings.Index(stderr, "fatal error:")
	}
	if idx < 0 {
		idx = 0
	}
	re := regexp.MustCompile(`github\.com/bartossh/Computantis/src/([A-Za-z0-9_/]+\.(?:\(\*?[A-Za-z0-9_]+\)\.)?[A-Za-z0-9_]+)`)
	if m := re.FindStringSubmatch(stderr[idx:]); m != nil {
		return m[1]
	}
	return "unknown"
}

// PanicInRepo reports whether the crash output shows a panic whose innermost non-runtime frame is a function of the
// repository under test (and not of the harness): the code under test crashed on its own.
func PanicInRepo(stderr string) bool {
	idx := strings.Index(stderr, "panic:")
	if idx < 0 {
		idx = strings.Index(stderr, "fatal error:")
	}
	if idx < 0 {
		return false
	}
	rest := stderr[idx:]
	g := strings.Index(rest, "\ngoroutine ")
	if g < 0 {
		return false
	}
	lines := strings.Split(rest[g+1:], "\n")
	for _, l := range lines[1:] {
		if l == "" {
			break
		}
		if strings.HasPrefix(l, "\t") || strings.HasPrefix(l, " ") {
			continue // file:line of the frame above
		}
		if strings.HasPrefix(l, "panic(") || strings.HasPrefix(l, "runtime.") || strings.HasPrefix(l, "runtime/") || strings.HasPrefix(l, "sync.") || strings.HasPrefix(l, "sync/") || strings.HasPrefix(l, "internal/") {
			continue
		}
		return strings.HasPrefix(l, "github.com/bartossh/Computantis/src/")
	}
	return false
}

// RepoCrashIsViolation is an OnCrash handler for checks that drive the ledger: a panic raised by the code under test
// itself ends every guarantee the property gives for that node; anything else stays inconclusive.
func RepoCrashIsViolation(prop string) func(c Crash, res *Result) {
	return func(c Crash, res *Result) {
		if !c.TimedOut && PanicInRepo(c.Stderr) {
			res.Violate(prop, "crash/"+TopRepoFrame(c.Stderr), "the code under test panicked during the workload: "+CrashHeadline(c.Stderr), map[string]any{"marks": c.Marks})
			return
		}
		res.Inconc(fmt.Sprintf("batch %d: worker ended abnormally (timeout=%v): %s; last mark: %s", c.Batch, c.TimedOut, CrashHeadline(c.Stderr), lastMark(c.Marks)))
	}
}

func lastMark(m []string) string {
	if len(m) == 0 {
		return ""
	}
	return m[len(m)-1]
}
