// Package core holds the verdict plumbing shared by all checks: results, violations,
// known findings, evidence files, seeds, and the parent/worker process runner.
package core

import (
	"bufio"
	"crypto/sha256"
	"encoding/hex"
	"encoding/json"
	"fmt"
	"math/rand"
	"os"
	"path/filepath"
	"sort"
	"strings"
	"sync"
	"time"
)

// VerifDir is /verif, or the snapshot of it the check was started from (VERIF_DIR, set by bin/check.sh).
var VerifDir = func() string {
	if d := os.Getenv("VERIF_DIR"); d != "" {
		return d
	}
	return "/verif"
}()

// Violation is one observed refutation of a property.
type Violation struct {
	Prop    string `json:"property"`
	Sig     string `json:"signature"` // short deterministic class of the violation, used for known-finding matching
	Detail  string `json:"detail"`
	Witness any    `json:"witness,omitempty"`
}

// Result is what a worker reports for its batch and what the parent merges.
type Result struct {
	Evaluations  int            `json:"evaluations"`
	Nontrivial   []string       `json:"nontrivial_keys"` // distinct keys of non-trivial cases
	Samples      []any          `json:"samples"`
	Counters     map[string]int `json:"counters"`
	Violations   []Violation    `json:"violations"`
	Inconclusive []string       `json:"inconclusive"`
	Notes        []string       `json:"notes"`

	mu  sync.Mutex
	ntr map[string]struct{}
}

func NewResult() *Result {
	return &Result{Counters: map[string]int{}, ntr: map[string]struct{}{}}
}

func (r *Result) Eval(n int) {
	r.mu.Lock()
	r.Evaluations += n
	r.mu.Unlock()
}

// Nontriv records a non-trivial case under its distinctness key.
func (r *Result) Nontriv(key string) {
	r.mu.Lock()
	if r.ntr == nil {
		r.ntr = map[string]struct{}{}
	}
	r.ntr[key] = struct{}{}
	r.mu.Unlock()
}

func (r *Result) Count(name string, n int) {
	r.mu.Lock()
	r.Counters[name] += n
	r.mu.Unlock()
}

func (r *Result) Sample(max int, s any) {
	r.mu.Lock()
	if len(r.Samples) < max {
		r.Samples = append(r.Samples, s)
	}
	r.mu.Unlock()
}

func (r *Result) Violate(prop, sig, detail string, witness any) {
	r.mu.Lock()
	defer r.mu.Unlock()
	// keep at most 5 witnesses per signature
	n := 0
	for _, v := range r.Violations {
		if v.Sig == sig {
			n++
		}
	}
	r.Counters["violations_observed"]++
	if n >= 5 {
		return
	}
	r.Violations = append(r.Violations, Violation{Prop: prop, Sig: sig, Detail: detail, Witness: witness})
}

func (r *Result) Inconc(reason string) {
	r.mu.Lock()
	r.Inconclusive = append(r.Inconclusive, reason)
	r.mu.Unlock()
}

func (r *Result) Note(s string) {
	r.mu.Lock()
	if len(r.Notes) < 50 {
		r.Notes = append(r.Notes, s)
	}
	r.mu.Unlock()
}

func (r *Result) finalize() {
	r.mu.Lock()
	defer r.mu.Unlock()
	set := map[string]struct{}{}
	for _, k := range r.Nontrivial {
		set[k] = struct{}{}
	}
	for k := range r.ntr {
		set[k] = struct{}{}
	}
	r.Nontrivial = r.Nontrivial[:0]
	for k := range set {
		r.Nontrivial = append(r.Nontrivial, k)
	}
	sort.Strings(r.Nontrivial)
}

// Merge adds other into r.
func (r *Result) Merge(o *Result, maxSamples int) {
	o.finalize()
	r.mu.Lock()
	defer r.mu.Unlock()
	r.Evaluations += o.Evaluations
	if r.ntr == nil {
		r.ntr = map[string]struct{}{}
	}
	for _, k := range o.Nontrivial {
		r.ntr[k] = struct{}{}
	}
	for _, s := range o.Samples {
		if len(r.Samples) < maxSamples {
			r.Samples = append(r.Samples, s)
		}
	}
	for k, v := range o.Counters {
		r.Counters[k] += v
	}
	for _, v := range o.Violations {
		n := 0
		for _, w := range r.Violations {
			if w.Sig == v.Sig {
				n++
			}
		}
		if n < 5 {
			r.Violations = append(r.Violations, v)
		}
	}
	r.Inconclusive = append(r.Inconclusive, o.Inconclusive...)
	for _, n := range o.Notes {
		if len(r.Notes) < 50 {
			r.Notes = append(r.Notes, n)
		}
	}
}

func (r *Result) Save(path string) error {
	r.finalize()
	b, err := json.Marshal(r)
	if err != nil {
		return err
	}
	return os.WriteFile(path, b, 0o644)
}

func LoadResult(path string) (*Result, error) {
	b, err := os.ReadFile(path)
	if err != nil {
		return nil, err
	}
	r := NewResult()
	if err := json.Unmarshal(b, r); err != nil {
		return nil, err
	}
	if r.Counters == nil {
		r.Counters = map[string]int{}
	}
	return r, nil
}

// ---------------------------------------------------------------------------------
// Seeds

// Rand returns the PRNG stream (seed, check, labels...).
func Rand(seed int64, labels ...any) *rand.Rand {
	h := sha256.New()
	fmt.Fprintf(h, "%d", seed)
	for _, l := range labels {
		fmt.Fprintf(h, "|%v", l)
	}
	s := h.Sum(nil)
	var x int64
	for i := 0; i < 8; i++ {
		x = x<<8 | int64(s[i])
	}
	return rand.New(rand.NewSource(x))
}

// ---------------------------------------------------------------------------------
// Known findings

type Finding struct {
	Kind string // known | fixed
	Prop string
	Sig  string
	Text string
}

func LoadFindings() ([]Finding, error) {
	f, err := os.Open(filepath.Join(VerifDir, "KNOWN_FINDINGS.txt"))
	if err != nil {
		if os.IsNotExist(err) {
			return nil, nil
		}
		return nil, err
	}
	defer f.Close()
	var out []Finding
	sc := bufio.NewScanner(f)
	sc.Buffer(make([]byte, 1<<20), 1<<20)
	for sc.Scan() {
		line := strings.TrimSpace(sc.Text())
		if line == "" || strings.HasPrefix(line, "#") {
			continue
		}
		var fd Finding
		switch {
		case strings.HasPrefix(line, "known:"):
			fd.Kind = "known"
			line = strings.TrimSpace(strings.TrimPrefix(line, "known:"))
		case strings.HasPrefix(line, "fixed:"):
			fd.Kind = "fixed"
			line = strings.TrimSpace(strings.TrimPrefix(line, "fixed:"))
		default:
			continue
		}
		parts := strings.Fields(line)
		rest := []string{}
		for _, p := range parts {
			switch {
			case strings.HasPrefix(p, "property=") && fd.Prop == "":
				fd.Prop = strings.TrimPrefix(p, "property=")
			case strings.HasPrefix(p, "sig=") && fd.Sig == "":
				fd.Sig = strings.TrimPrefix(p, "sig=")
			default:
				rest = append(rest, p)
			}
		}
		fd.Text = strings.Join(rest, " ")
		out = append(out, fd)
	}
	return out, sc.Err()
}

// ---------------------------------------------------------------------------------
// Evidence and verdict

type Evidence struct {
	PropertyID  string         `json:"property_id"`
	Tier        string         `json:"tier"`
	Seed        int64          `json:"seed"`
	Level       string         `json:"level"`
	Coverage    map[string]any `json:"coverage"`
	Assumptions []string       `json:"assumptions"`
	WallS       float64        `json:"wall_s"`
	Violations  int            `json:"violations"`
}

type Spec struct {
	Prop        string
	Rule        string
	Assumptions []string
	Exhaustive  bool
	MinEvals    int // fewer evaluations than this => inconclusive
	MinNontriv  int
	// MinCounters: counters that must reach at least the given value, else inconclusive.
	MinCounters map[string]int
}

// Conclude writes evidence, prints verdict lines and returns the process exit code.
func Conclude(spec Spec, tier string, seed int64, res *Result, started time.Time) int {
	res.finalize()
	findings, err := LoadFindings()
	if err != nil {
		res.Inconc("cannot read KNOWN_FINDINGS.txt: " + err.Error())
	}
	known := map[string]Finding{}
	for _, f := range findings {
		if f.Kind == "known" && f.Prop == spec.Prop {
			known[f.Sig] = f
		}
	}

	if res.Evaluations < spec.MinEvals {
		res.Inconc(fmt.Sprintf("only %d evaluations observed, minimum is %d", res.Evaluations, spec.MinEvals))
	}
	if len(res.Nontrivial) < spec.MinNontriv {
		res.Inconc(fmt.Sprintf("only %d distinct non-trivial cases observed, minimum is %d", len(res.Nontrivial), spec.MinNontriv))
	}
	for k, min := range spec.MinCounters {
		if res.Counters[k] < min {
			res.Inconc(fmt.Sprintf("counter %s=%d below minimum %d", k, res.Counters[k], min))
		}
	}

	exit := 0
	printedKnown := map[string]bool{}
	printedViol := map[string]bool{}
	unlisted := 0
	var lines []string
	for _, v := range res.Violations {
		if v.Prop != spec.Prop {
			continue
		}
		if f, ok := known[v.Sig]; ok {
			if !printedKnown[v.Sig] {
				printedKnown[v.Sig] = true
				lines = append(lines, fmt.Sprintf("KNOWN-FINDING: property=%s sig=%s %s", spec.Prop, v.Sig, f.Text))
			}
			continue
		}
		unlisted++
		if printedViol[v.Sig] {
			continue
		}
		printedViol[v.Sig] = true
		path := writeReplay(spec.Prop, tier, seed, v)
		lines = append(lines, fmt.Sprintf("VIOLATION property=%s replay=%s", spec.Prop, path))
		lines = append(lines, fmt.Sprintf("  signature=%s detail=%s", v.Sig, oneLine(v.Detail)))
		exit = 1
	}

	cov := map[string]any{
		"evaluations":         res.Evaluations,
		"distinct_nontrivial": len(res.Nontrivial),
		"rule":                spec.Rule,
		"samples":             res.Samples,
		"exhaustive":          spec.Exhaustive,
		"counters":            res.Counters,
	}
	if len(res.Samples) == 0 {
		cov["samples"] = []any{"(no sample recorded)"}
	}
	kf := []string{}
	for s := range printedKnown {
		kf = append(kf, s)
	}
	sort.Strings(kf)
	cov["known_findings_reproduced"] = kf
	if len(res.Notes) > 0 {
		cov["notes"] = res.Notes
	}
	if len(res.Inconclusive) > 0 {
		cov["inconclusive"] = res.Inconclusive
	}
	if len(res.Nontrivial) > 0 {
		n := len(res.Nontrivial)
		if n > 12 {
			n = 12
		}
		cov["nontrivial_key_examples"] = res.Nontrivial[:n]
	}
	ev := Evidence{
		PropertyID:  spec.Prop,
		Tier:        tier,
		Seed:        seed,
		Level:       "exploration",
		Coverage:    cov,
		Assumptions: spec.Assumptions,
		WallS:       time.Since(started).Seconds(),
		Violations:  unlisted,
	}
	if ev.Assumptions == nil {
		ev.Assumptions = []string{}
	}
	b, _ := json.MarshalIndent(ev, "", " ")
	os.MkdirAll(filepath.Join(VerifDir, "evidence"), 0o755)
	if err := os.WriteFile(filepath.Join(VerifDir, "evidence", spec.Prop+".json"), b, 0o644); err != nil {
		fmt.Println("cannot write evidence:", err)
	}

	for _, l := range lines {
		fmt.Println(l)
	}
	if exit == 0 && len(res.Inconclusive) > 0 {
		for _, r := range res.Inconclusive {
			fmt.Printf("INCONCLUSIVE property=%s reason=%s\n", spec.Prop, oneLine(r))
		}
		exit = 2
	}
	fmt.Printf("RESULT property=%s tier=%s seed=%d evaluations=%d distinct_nontrivial=%d violations=%d known_findings=%d wall_s=%.1f exit=%d\n",
		spec.Prop, tier, seed, res.Evaluations, len(res.Nontrivial), unlisted, len(printedKnown), time.Since(started).Seconds(), exit)
	return exit
}

func oneLine(s string) string {
	s = strings.ReplaceAll(s, "\n", " ")
	if len(s) > 400 {
		s = s[:400] + "..."
	}
	return s
}

func writeReplay(prop, tier string, seed int64, v Violation) string {
	dir := filepath.Join(VerifDir, "replays", prop)
	os.MkdirAll(dir, 0o755)
	h := sha256.Sum256([]byte(v.Sig + "|" + v.Detail))
	path := filepath.Join(dir, fmt.Sprintf("%s-%s.json", sanitize(v.Sig), hex.EncodeToString(h[:4])))
	b, _ := json.MarshalIndent(map[string]any{
		"property": prop, "tier": tier, "seed": seed, "signature": v.Sig, "detail": v.Detail, "witness": v.Witness,
		"replay": fmt.Sprintf("VERIF_SEED=%d /verif/bin/check.sh %s %s", seed, prop, tier),
	}, "", " ")
	os.WriteFile(path, b, 0o644)
	return path
}

func sanitize(s string) string {
	var b strings.Builder
	for _, c := range s {
		switch {
		case c >= 'a' && c <= 'z', c >= 'A' && c <= 'Z', c >= '0' && c <= '9', c == '-', c == '_':
			b.WriteRune(c)
		default:
			b.WriteRune('_')
		}
	}
	out := b.String()
	if len(out) > 80 {
		out = out[:80]
	}
	return out
}
