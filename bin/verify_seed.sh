#!/bin/bash
# usage: verify_seed.sh <dir with patch.diff and demo_test.go> [extra go test flags]
# Confirms in a scratch worktree of /repo (outside /repo and /verif): the demo passes without the patch; with the patch
# the project builds, the existing suite passes, and the demo fails. Prints one summary line; removes the worktree.
D="$(cd "$1" && pwd)"; shift; EXTRA="$*"
ID=$(basename "$D")
export GOFLAGS=-mod=mod GOPROXY=off GOSUMDB=off GOTOOLCHAIN=local
WT=/tmp/vs/$ID.$$
mkdir -p /tmp/vs
git -C /repo worktree add -q --detach "$WT" HEAD || { echo "$ID: cannot create worktree"; exit 9; }
trap 'git -C /repo worktree remove --force "$WT" >/dev/null 2>&1' EXIT
REL=$(head -3 "$D/demo_test.go" | grep -o 'src/[A-Za-z0-9_/.]*_test\.go' | head -1)
[ -z "$REL" ] && { echo "$ID: cannot find the demo path"; exit 9; }
PKG=./$(dirname "${REL#src/}")/
cp "$D/demo_test.go" "$WT/$REL"
cd "$WT/src"
RUN='Demo|TestC13|TestZZ|TestRejectNeeds'
go test $EXTRA -vet=off -count=1 -run "$RUN" $PKG > /tmp/vs/$ID.base.log 2>&1; base=$?
rm -f "$WT/$REL"
git -C "$WT" apply "$D/patch.diff" || { echo "$ID: patch does not apply"; exit 9; }
go build ./... > /tmp/vs/$ID.build.log 2>&1; build=$?
go test -vet=off -count=1 ./... > /tmp/vs/$ID.suite.log 2>&1; suite=$?
git -C "$WT" checkout -q -- artefacts 2>/dev/null
cp "$D/demo_test.go" "$WT/$REL"
go test $EXTRA -vet=off -count=1 -run "$RUN" $PKG > /tmp/vs/$ID.patched.log 2>&1; patched=$?
ok=NO; [ $base -eq 0 ] && [ $build -eq 0 ] && [ $suite -eq 0 ] && [ $patched -ne 0 ] && ok=YES
echo "$ID: demo_without_patch_exit=$base build_exit=$build suite_exit=$suite demo_with_patch_exit=$patched confirmed=$ok demo=$REL"
