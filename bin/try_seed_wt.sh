#!/bin/bash
# usage: try_seed_wt.sh <scratch worktree of /repo> <patch.diff (absolute)> <Cxx> [tier] [race]
# Applies the patch inside the scratch worktree (never in /repo), runs the check against that worktree through VERIF_REPO,
# reverts the worktree and restores the committed evidence files. Several of these can run side by side.
WT="$1"; P="$2"; PROP="$3"; TIER="${4:-quick}"; RACE="${5:-}"
git -C "$WT" checkout -q -- . || exit 9
git -C "$WT" apply "$P" || { echo "$PROP: patch does not apply"; exit 9; }
OUT=/tmp/try_seed.$PROP.$(basename "$WT").out
VERIF_REPO="$WT" /verif/bin/check.sh "$PROP" "$TIER" $RACE > "$OUT" 2>&1; rc=$?
git -C "$WT" checkout -q -- .
grep -E "^(VIOLATION|  signature|KNOWN|INCONCLUSIVE|RESULT)" "$OUT" | cut -c1-400 | head -12
echo "$PROP $(basename "$WT") exit=$rc"
git -C /verif checkout -q -- "evidence/$PROP.json" 2>/dev/null
exit 0
