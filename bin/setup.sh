#!/bin/bash
# Run once after a fresh restore, offline: warms the Go build cache for the monitor binary (plain and -race).
export GOFLAGS=-mod=mod GOPROXY=off GOSUMDB=off GOTOOLCHAIN=local
cd /verif/harness || exit 1
mkdir -p /verif/.build /verif/evidence
go build -tags verif -o /verif/.build/vcheck.setup ./cmd/vcheck || exit 1
go build -tags verif -race -o /verif/.build/vcheck.setup.race ./cmd/vcheck || exit 1
rm -f /verif/.build/vcheck.setup /verif/.build/vcheck.setup.race
echo setup ok
