#!/opt/veriftools/pyvenv/bin/python3
"""Regenerates /verif/MANIFEST.json from the table below (kept in one place so it stays valid)."""
import json, subprocess, os

BASELINE_OFF = ("cd /repo/src && GOFLAGS=-mod=mod GOPROXY=off GOSUMDB=off GOTOOLCHAIN=local "
                "go test -json -vet=off -count=1 -timeout 25m ./...")

TRUST = ("Trusted base: the Go toolchain and race detector, math/big, crypto/ed25519, the harness's own reference "
         "computations; hooks (build tag verif) only copy state out under the code's own locks or call the real unexported functions.")

# id -> (race build?, technique, level text, level note, design ref)
CHECKS = {
}

NOT_BUILT = {}

def load_table():
    here = os.path.dirname(os.path.abspath(__file__))
    with open(os.path.join(here, "manifest_table.json")) as f:
        return json.load(f)

def main():
    t = load_table()
    hooks_commits = t.get("hook_commits", [])
    checks = []
    for pid in sorted(t["checks"]):
        c = t["checks"][pid]
        race = " race" if c.get("race") else ""
        checks.append({
            "property_id": pid,
            "quick_cmd": f"/verif/bin/check.sh {pid} quick{race}",
            "thorough_cmd": f"/verif/bin/check.sh {pid} thorough{race}",
            "evidence_file": f"/verif/evidence/{pid}.json",
            "replay_cmd_template": f"cat {{path}}  # witness; re-run: VERIF_SEED=<seed in file> /verif/bin/check.sh {pid} <tier in file>",
            "engine": "vcheck",
            "level_claimed": {"category": "exploration", "text": c["level"], "design_ref": c.get("design", "DESIGN.md section 4 " + pid)},
            "level_note": c.get("note", "") + " " + TRUST,
            "technique": c["technique"],
        })
    m = {
        "version": 1,
        "setup_cmd": "/verif/bin/setup.sh",
        "hooks": {
            "guard": "verif",
            "enable": "go build -tags verif (the harness module /verif/harness replaces github.com/bartossh/Computantis/src with /repo/src, so every check rebuilds the current working tree with hooks on)",
            "baseline_off_cmd": BASELINE_OFF,
            "source_commits": hooks_commits,
            "add_only": True,
        },
        "engines": [{
            "name": "vcheck",
            "path": "/verif/harness",
            "serves_properties": sorted(t["checks"]),
            "kind_free_text": "Go driver: parent process splits a check in to batches run as child processes over the real code (ledger simulator with snapshot oracles and big-integer reference ledger, virtual gossip network, request-shape enumerators, history recorders with porcupine, goroutine-dump monitor, race-detector log parser); writes evidence and replay files",
        }],
        "checks": checks,
        "notes": t.get("notes", ""),
        "not_applicable": [{"property_id": k, "reason": v} for k, v in sorted(t.get("not_applicable", {}).items())],
    }
    with open("/verif/MANIFEST.json", "w") as f:
        json.dump(m, f, indent=1)
    # validate
    try:
        import jsonschema
        jsonschema.validate(m, json.load(open("/root/.vp/MANIFEST.schema.json")))
        print("MANIFEST.json valid:", len(checks), "checks,", len(m["not_applicable"]), "not applicable")
    except ImportError:
        print("jsonschema not importable; written without validation")

if __name__ == "__main__":
    main()
