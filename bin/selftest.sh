#!/bin/bash
# Applies every patch of mutants/MAP.txt to a scratch worktree of /repo HEAD (outside /repo and /verif), runs the named
# check's quick tier against it (VERIF_REPO) and requires exit 1 with a VIOLATION line of that property.
# Entries run side by side (SELFTEST_JOBS, default 3), each in its own worktree and its own copy of the evidence
# directory is not needed: the evidence files of /verif are restored at the end.
# Not part of MANIFEST checks. usage: bin/selftest.sh [extended regex over "<patch> <property>"]
ROOT="$(cd "$(dirname "${BASH_SOURCE[0]}")/.." && pwd)"
cd "$ROOT" || exit 2
mkdir -p /tmp/vs
if [ "$1" = "--one" ]; then
  patch="$2"; prop="$3"; race="$4"
  [ "$race" != "race" ] && race=""
  WT=/tmp/vs/selftest.$$.$prop.$RANDOM
  git -C /repo worktree add -q --detach "$WT" HEAD || { echo "SELFTEST $patch: cannot create worktree"; exit 0; }
  if git -C "$WT" apply "$ROOT/$patch" 2>/dev/null; then
    out=$(VERIF_REPO="$WT" VERIF_SELFTEST=1 bin/check.sh "$prop" quick $race 2>&1); rc=$?
    sigs=$(echo "$out" | grep -a "signature=" | sed 's/ detail=.*//' | sed 's/^ *signature=//' | sort -u | head -4 | tr '\n' ' ')
    if [ $rc -eq 1 ] && echo "$out" | grep -a -q "^VIOLATION property=$prop "; then echo "SELFTEST $patch -> $prop DETECTED [$sigs]"; else echo "SELFTEST $patch -> $prop MISSED (exit $rc)"; fi
  else
    echo "SELFTEST $patch: does not apply to /repo HEAD"
  fi
  git -C /repo worktree remove --force "$WT" >/dev/null 2>&1
  exit 0
fi
grep -v '^#' mutants/MAP.txt | while read -r patch prop race rest; do
  [ -z "$patch" ] && continue
  [ -n "${1:-}" ] && ! echo "$patch $prop" | grep -E -q "$1" && continue
  [ "$race" != "race" ] && race="-"
  echo "$patch $prop $race"
done | xargs -P "${SELFTEST_JOBS:-3}" -L 1 "$ROOT/bin/selftest.sh" --one
git -C /repo worktree prune
git -C "$ROOT" checkout -- evidence 2>/dev/null
