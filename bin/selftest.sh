#!/bin/bash
# Applies every patch of mutants/MAP.txt to a scratch worktree of /repo HEAD (outside /repo and /verif), runs the named
# check's quick tier against it (VERIF_REPO) and requires exit 1 with a VIOLATION line of that property.
# Not part of MANIFEST checks. usage: bin/selftest.sh [filter]
ROOT="$(cd "$(dirname "${BASH_SOURCE[0]}")/.." && pwd)"
cd "$ROOT" || exit 2
mkdir -p /tmp/vs
fail=0
grep -v '^#' mutants/MAP.txt | while read -r patch prop race rest; do
  [ -z "$patch" ] && continue
  [ -n "${1:-}" ] && ! echo "$patch $prop" | grep -q "$1" && continue
  [ "$race" != "race" ] && race=""
  WT=/tmp/vs/selftest.$$.$prop
  git -C /repo worktree add -q --detach "$WT" HEAD || { echo "SELFTEST $patch: cannot create worktree"; continue; }
  if git -C "$WT" apply "$ROOT/$patch" 2>/dev/null; then
    out=$(VERIF_REPO="$WT" VERIF_SELFTEST=1 bin/check.sh "$prop" quick $race 2>&1); rc=$?
    sigs=$(echo "$out" | grep -a "signature=" | sed 's/ detail=.*//' | sed 's/^ *signature=//' | sort -u | head -4 | tr '\n' ' ')
    if [ $rc -eq 1 ] && echo "$out" | grep -a -q "^VIOLATION property=$prop "; then echo "SELFTEST $patch -> $prop DETECTED [$sigs]"; else echo "SELFTEST $patch -> $prop MISSED (exit $rc)"; fi
  else
    echo "SELFTEST $patch: does not apply to /repo HEAD"
  fi
  git -C /repo worktree remove --force "$WT" >/dev/null 2>&1
done
git -C "$ROOT" checkout -- evidence 2>/dev/null
