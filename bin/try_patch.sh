#!/bin/bash
# usage: try_patch.sh <patch.diff> <prop> [tier] [race]  -- applies the patch to /repo, runs the check, reverts.
P="$1"; PROP="$2"; TIER="${3:-quick}"; RACE="${4:-}"
cd /repo || exit 9
if ! git diff --quiet; then echo "repo dirty, refusing"; exit 9; fi
git apply "$P" || { echo "patch does not apply"; exit 9; }
/verif/bin/check.sh "$PROP" "$TIER" $RACE > /tmp/try_patch.$PROP.out 2>&1; rc=$?
git -C /repo checkout -- . 
grep -E "^(VIOLATION|  signature|KNOWN|INCONCLUSIVE|RESULT)" /tmp/try_patch.$PROP.out | cut -c1-400 | head -20
echo "exit=$rc"
# evidence files were rewritten by a run against a patched tree: restore the committed ones
git -C /verif checkout -- evidence 2>/dev/null
exit 0
