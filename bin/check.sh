#!/bin/bash
# usage: check.sh <Cxx> <quick|thorough> [race]
# Rebuilds the monitor binary from /repo's current working tree (hooks on: -tags verif) and runs one check.
set -u
PROP="$1"; TIER="${2:-quick}"; RACE="${3:-}"
export GOFLAGS=-mod=mod GOPROXY=off GOSUMDB=off GOTOOLCHAIN=local
export GOCACHE="${GOCACHE:-/root/.cache/go-build}"
ROOT="$(cd "$(dirname "${BASH_SOURCE[0]}")/.." && pwd)"   # /verif, or a snapshot of it (vp run)
export VERIF_DIR="$ROOT"
cd "$ROOT/harness" || exit 2
mkdir -p "$ROOT/.build" "$ROOT/evidence"
BIN="$ROOT/.build/vcheck.$PROP.$$"
trap 'rm -f "$BIN"' EXIT
FLAGS="-tags verif"
# VERIF_REPO (optional, sweeps only): build against another checkout of the repository than /repo
if [ -n "${VERIF_REPO:-}" ] && [ "$VERIF_REPO" != "/repo" ]; then
  MODF="$ROOT/.build/go.$PROP.$$.mod"
  sed "s#=> /repo/src#=> $VERIF_REPO/src#" go.mod > "$MODF"; cp go.sum "${MODF%.mod}.sum"
  FLAGS="$FLAGS -modfile=$MODF"
  trap 'rm -f "$BIN" "$MODF" "${MODF%.mod}.sum"' EXIT
fi
[ "$RACE" = "race" ] && FLAGS="$FLAGS -race"
if ! go build $FLAGS -o "$BIN" ./cmd/vcheck > "$ROOT/.build/build.$PROP.log" 2>&1; then
  cat "$ROOT/.build/build.$PROP.log" | tail -30
  echo "INCONCLUSIVE property=$PROP reason=build-failed (harness or /repo does not compile with -tags verif)"
  exit 2
fi
ulimit -c 0
"$BIN" run "$PROP" --tier "$TIER"
exit $?
